"""C06 — typedef / using-alias expansion is transparent (partial: level "other"; templates not modelled, macros: see C11).

Obligations
  theorems   lean/Cppcheck/Props/C06.lean: alias_ids_refine, alias_refines_scoping (expansion with the undo-log symbol table =
             substitution under lexical scoping, for every program of the modelled language); object_macro_expansion_eq_subst (the macro
             part of the property: object-like macro replacement = substitution, proved for C11)
  oracle     every generated program, with a static_assert of the expanded type after each declaration, is accepted by g++ (an
             independent check of what a name denotes: validates `events` / `expandWith`)
  C / P_impl real Tokenizer::simplifyTokens1 (in-process) on a generated program and on the program the Lean model expands
             (aliases substituted, alias declarations dropped): the two simplified token streams and the tokenizer diagnostics must
             be equal.  The real `cppcheck` binary on both files: same finding ids and same --dump facts (values, value types) per token.
             Macro and explicit-template-instantiation pairs: same finding ids through the real binary (no model).
"""
import json, os, re
from .. import core, build_repo

ID = "C06"
LEVEL = "other"
RULE = ("cases = programs of the modelled language printed as C (typedef) / C++ (typedef and using): file-scope and block-scope "
        "aliases of base types, pointers and other aliases, variables / parameters that hide an alias, aliases that hide a variable "
        "or an outer alias, nested blocks, uses in declarations after the hiding scope is closed; non-trivial = at least one alias "
        "is used and at least one name is declared twice; distinct = canonical op text")
EXPLANATION = ("Lean theorem alias_refines_scoping: alias expansion driven by an undo-log symbol table (the VariableMap structure proved "
               "in C08) equals substitution under lexical scoping (stack of scopes), for every program of the modelled language. "
               "lib/tokenize.cpp has no such table for aliases (simplifyTypedef decides by the neighbouring tokens, simplifyTypedefCpp / "
               "simplifyUsing by brace counting), so the model is the specification side: the tie feeds the program and its model "
               "expansion to the real Tokenizer::simplifyTokens1 and compares the token streams (P_impl of the property). Outside the "
               "model: TemplateSimplifier (explicit instantiation), struct / enum / function-pointer / array typedefs, typedefs in "
               "classes and namespaces, value-flow facts (only finding ids are compared, thorough tier), macro expansion beyond "
               "C11's object-like theorem.")
THEOREMS = ["Cppcheck.AliasScope.alias_ids_refine", "Cppcheck.AliasScope.alias_refines_scoping",
            "Cppcheck.AliasScope.object_macro_expansion_eq_subst"]
MODULES = ["Cppcheck.Props.C06"]

hx, unhx = core.hx, core.unhx
NAMES = 6
ALLNAMES = 14


def gen_ty(rng, scopes, allow_alias=True):
    vis = visible(scopes)
    aliases = [n for n, k in vis.items() if k == "alias"]
    r = rng.random()
    if allow_alias and aliases and r < 0.6:
        t = "n%d." % rng.choice(aliases)
        used = True
    else:
        t = "b%d." % rng.randrange(5)
        used = False
    while rng.random() < 0.25:
        t = "p" + t
    return t, used


def visible(scopes):
    vis = {}
    for sc in scopes:
        vis.update(sc)
    return vis


def gen_ex(rng, scopes, avoid=None):
    vis = visible(scopes)
    vars_ = [n for n, k in vis.items() if k == "var" and n != avoid]
    r = rng.random()
    if vars_ and r < 0.5:
        return "v%d." % rng.choice(vars_)
    if vars_ and r < 0.65:
        return "+v%d.#%d." % (rng.choice(vars_), rng.randrange(10))
    return "#%d." % rng.randrange(100)


def gen_block(rng, scopes, depth, budget, cpp, st):
    items = []
    pool = st["pool"]
    for _ in range(rng.randrange(1, 5)):
        if budget[0] <= 0:
            break
        budget[0] -= 1
        r = rng.random()
        free = [n for n in pool if n not in scopes[-1] and (st["reuse"] or n not in st["declared"])]
        if r < 0.25 and free:
            n = rng.choice(free)
            t, used = gen_ty(rng, scopes)
            st["aliasuse"] += used
            st["redecl"] += n in visible(scopes)
            items.append(("U" if (cpp and rng.random() < 0.5) else "T") + "%d:%s" % (n, t))
            scopes[-1][n] = "alias"; st["declared"].add(n)
        elif r < 0.6 and free:
            n = rng.choice(free)
            t, used = gen_ty(rng, scopes)
            st["aliasuse"] += used
            st["redecl"] += n in visible(scopes)
            init = gen_ex(rng, scopes, avoid=n) if rng.random() < 0.6 else "-"
            items.append("V%d:%s:%s" % (n, t, init))
            scopes[-1][n] = "var"; st["declared"].add(n)
        elif r < 0.8:
            vars_ = [n for n, k in visible(scopes).items() if k == "var"]
            if vars_:
                items.append("A%d:%s" % (rng.choice(vars_), gen_ex(rng, scopes)))
        elif depth < 3:
            items.append("{")
            scopes.append({})
            items += gen_block(rng, scopes, depth + 1, budget, cpp, st)
            scopes.pop()
            items.append("}")
    return items


def gen_prog(rng, cpp, size, reuse=True):
    """reuse = False: every name is declared once in the whole program (no hiding at all)"""
    st = dict(aliasuse=0, redecl=0, reuse=reuse, declared=set(), pool=list(range(NAMES if reuse else ALLNAMES)))
    scopes = [{}]
    items = []
    budget = [size]
    nf = 0
    for _ in range(rng.randrange(1, 4)):
        # file scope: aliases and variables
        for _ in range(rng.randrange(0, 3)):
            free = [n for n in st["pool"] if n not in scopes[0] and (reuse or n not in st["declared"])]
            if not free:
                break
            n = rng.choice(free)
            t, used = gen_ty(rng, scopes)
            st["aliasuse"] += used
            if rng.random() < 0.7:
                items.append(("U" if (cpp and rng.random() < 0.5) else "T") + "%d:%s" % (n, t))
                scopes[0][n] = "alias"
            else:
                items.append("V%d:%s:%s" % (n, t, "-"))
                scopes[0][n] = "var"
            st["declared"].add(n)
        # a function
        scopes.append({})
        cand = [n for n in st["pool"] if reuse or n not in st["declared"]]
        if rng.random() < 0.7 and cand:
            n = rng.choice(cand)
            t, used = gen_ty(rng, scopes)
            st["aliasuse"] += used
            st["redecl"] += n in visible(scopes)
            items.append("F%d:%d:%s" % (nf, n, t))
            scopes[-1][n] = "var"; st["declared"].add(n)
        else:
            items.append("F%d:-" % nf)
        nf += 1
        items += gen_block(rng, scopes, 1, budget, cpp, st)
        items.append("}")
        scopes.pop()
    return items, st


KEY_USING = "using-alias-ignores-hiding-variable"
KEY_SHADOW = "typedef-name-hidden-by-variable"
KEY_CHAIN = "using-alias-of-typedef-name"
KEY_TWICE = "alias-name-declared-twice"
KEY_CONST = "const-suggestion-skipped-for-typedef-pointer"
CONST_IDS = {"constParameterPointer", "constVariablePointer", "constParameter", "constVariable", "constParameterCallback"}
KEY_PORT = "address-to-integer-not-reported-for-typedef-integer"
PORT_IDS = {"AssignmentAddressToInteger", "AssignmentIntegerToAddress", "CastAddressToIntegerAtReturn", "CastIntegerToAddressAtReturn"}
KEY_MACRO = "redundancy-style-finding-not-reported-in-macro-expansion"
MACRO_IDS = {"duplicateExpression", "knownConditionTrueFalse", "duplicateValueTernary", "duplicateExpressionTernary"}
KNOWN = {
    KEY_USING: "F06a simplifyUsing has no notion of hiding: a variable or parameter with the name of a `using` alias (declared anywhere in "
               "the file, even later or in another function) has its uses replaced by the aliased type "
               "(`int f(void){ unsigned n = 1; n = 2; } using n = int;` becomes `int ; int = 1 ; int = 2 ;`)",
    KEY_SHADOW: "F06b a variable / parameter that hides a typedef name is recognised by the neighbouring tokens only: `unsigned T ;`, `T T ;`, "
                "`int f ( unsigned T )` and uses such as `return T ;` are rewritten with the typedef's type (`typedef char T; int f(void){ long T; T = 1; "
                "return T; }` becomes `long T ; T = 1 ; return char ;`)",
    KEY_TWICE: "F06d an alias name that is declared in two scopes (e.g. `typedef int T;` in a block and `typedef long * T;` at file scope, or a "
               "block-scope `using T = int;` under a file-scope `typedef char * T;`) is left out by the one-pass simplification: an alias of it stays "
               "unexpanded (`typedef long * T; typedef T U; int f(U p)` becomes `int f ( T p )`) or the declaration of the other scope is applied "
               "(`T v;` after the inner `using T = int;` becomes `char * v`)",
    KEY_CONST: "F06e findings differ by design: `constParameterPointer` / `constVariablePointer` are reported for `short * p` but not for `T p` with "
               "`typedef short * T` (tokens of a simplified typedef are skipped by the const checks)",
    KEY_PORT: "F06g findings differ by design: `AssignmentAddressToInteger` (and the three sibling ids of check64bit) is reported for `char c = p;` but "
              "not for `C c = p;` with `typedef char C` (check64bit requires `originalTypeName.empty()`, so that uintptr_t-like typedefs are not flagged)",
    KEY_MACRO: "F06f findings differ by design: the style findings `duplicateExpression` (`16 / ( 1 - 1 )` vs `16 / ZERO` with `#define ZERO ( 1 - 1 )`) and "
               "`knownConditionTrueFalse` / `duplicateValueTernary` (`( ( 2 ) > ( 1 ) ? .. )` vs `MAX ( 2 , 1 )`) are reported for the hand expansion but not inside a macro expansion "
               "(tokens that come from a macro are skipped by these checks)",
    KEY_CHAIN: "F06c a `using` alias of a typedef name is expanded to the typedef NAME, which no longer exists: "
               "`typedef unsigned int uint; using Index = uint; int f(Index i)` becomes `int f ( uint i )` (typedef-of-typedef and using-of-using are expanded fully)",
}


def declared(items, kinds):
    out = set()
    for w in items:
        m = None
        if "T" in kinds:
            m = m or re.match(r"T(\d+):", w)
        if "U" in kinds:
            m = m or re.match(r"U(\d+):", w)
        if "V" in kinds:
            m = m or re.match(r"V(\d+):", w) or re.match(r"F\d+:(\d+):", w)
        if m:
            out.add(m.group(1))
    return out


def stream_toks(l):
    p = l.split(" ")
    return unhx(p[1]).decode("latin-1").split(" ") if p[0] == "T" and p[1] != "-" else None


def classify(items, prog=None, exp=None):
    """The known-finding class of ONE deviation: decided by the first position at which the token stream of the program (`prog`)
    and of its expansion (`exp`) differ, not by what else the program contains.
      F06a  the expansion has there (or right after: `unsigned n` prints as `int n`) a name that the program declares both with `using`
            and as variable / parameter  -- the program side has rewritten that variable
      F06b  the same with a `typedef` name
      F06d  the program side has there an alias name that the program declares twice (left unexpanded), or the declaration the
            difference sits in names an alias that is declared in two scopes (the other scope's declaration was applied)
      F06c  the program side has there a typedef name that a `using` declaration mentions (left unexpanded)
    anything else: None (a violation)."""
    if prog is None or exp is None:
        return None
    i = 0
    while i < len(prog) and i < len(exp) and prog[i] == exp[i]:
        i += 1
    def nm(t):
        m = re.fullmatch(r"n(\d+)", t or "")
        return m.group(1) if m else None
    ehere = [nm(t) for t in exp[i:i + 2]]
    phere = nm(prog[i]) if i < len(prog) else None
    vs, us, ts = declared(items, "V"), declared(items, "U"), declared(items, "T")
    if any(x is not None and x in (us & vs) for x in ehere):
        return KEY_USING
    if any(x is not None and x in (ts & vs) for x in ehere):
        return KEY_SHADOW
    al = [re.match(r"[TU](\d+):", w).group(1) for w in items if re.match(r"[TU]\d+:", w)]
    if phere is not None and al.count(phere) >= 2:
        return KEY_TWICE
    # the declaration the first difference sits in (its declared name is the next name token of the expansion) has a type that
    # names an alias declared in two scopes: the other declaration was applied
    nxt = next((nm(t) for t in exp[i:] if nm(t) is not None), None)
    if nxt is not None:
        for w in items:
            m = re.match(r"V(\d+):([^:]*):", w) or re.match(r"F\d+:(\d+):(.*)$", w)
            if m and m.group(1) == nxt and any(al.count(a) >= 2 for a in re.findall(r"n(\d+)\.", m.group(2))):
                return KEY_TWICE
    if phere is not None and phere in ts and any(re.match(r"U\d+:(.*)$", w) and ("n%s." % phere) in w.split(":", 1)[1] for w in items if w.startswith("U")):
        return KEY_CHAIN
    return None


def norm(l):
    """a removed FILE-SCOPE typedef leaves an empty declaration `;` behind a function body: empty declarations at file scope
    (brace depth 0) are dropped before the comparison; empty statements inside functions are kept"""
    p = l.split(" ")
    if p[0] != "T":
        return l
    toks = unhx(p[1]).decode("latin-1").split(" ")
    out = []
    depth = 0
    for t in toks:
        if t == ";" and depth == 0 and (not out or out[-1] in ("}", ";")):
            continue
        if t == "{":
            depth += 1
        elif t == "}":
            depth -= 1
        out.append(t)
    return "T " + hx(" ".join(out)) + " " + " ".join(p[2:])


def load_corpus():
    p = os.path.join(core.VERIF, "corpus", "C06", "cases.json")
    return json.load(open(p)) if os.path.exists(p) else []


_seen = {}


def _count(res, key):
    """report at most a few replays per class"""
    _seen[key] = _seen.get(key, 0) + 1
    res.count("deviation:" + str(key))
    return _seen[key] <= (2 if key else 8)


def gxx_oracle(res, name, probes):
    """M1 (audit): an independent oracle for `events` / `expandWith`: every probe text (declarations + static_assert of the expanded
    type of every declared name) must be accepted by g++ under its own name lookup.  One compiler process for all programs."""
    import subprocess, bisect
    lines, start = [], []
    for k, t in enumerate(probes):
        start.append(len(lines) + 1)
        lines.append("namespace P%d {" % k)
        lines += t.rstrip("\n").split("\n")
        lines.append("}")
    r = subprocess.run(["g++", "-std=c++17", "-fsyntax-only", "-w", "-x", "c++", "-"], input="\n".join(lines) + "\n",
                       stdout=subprocess.PIPE, stderr=subprocess.PIPE, text=True)
    bad = {}
    for l in r.stderr.split("\n"):
        m = re.match(r"<stdin>:(\d+):\d+: error: (.*)", l)
        if m:
            k = bisect.bisect_right(start, int(m.group(1))) - 1
            bad.setdefault(k, m.group(2))
    nass = sum(t.count("static_assert") for t in probes)
    res.count("oracle-static_asserts", nass)
    first = ""
    if bad:
        k = sorted(bad)[0]
        first = "%s\n%s" % (bad[k], probes[k])
    res.oblig("oracle:%s-g++-static_assert" % name, not bad and r.returncode == 0, "correspondence",
              "" if not bad and r.returncode == 0 else "%d of %d probe programs rejected (rc %d); first: %s" % (len(bad), len(probes), r.returncode, first or r.stderr[-300:]))


def tie(ctx, res, exe, drv, cases, name):
    """cases: list of (cpp, items, nontrivial)"""
    ops = ["ex " + " ".join(items) for cpp, items, nt in cases]
    rc, mo, err = core.run_lines(drv, [], ops, timeout=600)
    if len(mo) != len(ops) or any(m == "bad-op" for m in mo):
        raise core.CheckBroken("drv_c06: %d lines for %d ops (%s) %s" % (len(mo), len(ops), [m for m in mo if m == "bad-op"][:1], err[-300:]))
    hops = []
    for (cpp, items, nt), m in zip(cases, mo):
        a, b, same = m.split()[:3]
        hops.append("tk %s %s" % ("cpp" if cpp else "c", a))
        hops.append("tk %s %s" % ("cpp" if cpp else "c", b))
    rc, ho, err = core.run_lines(exe, [], hops, timeout=600)
    if len(ho) != len(hops):
        raise core.CheckBroken("c06 harness: %d lines for %d ops %s" % (len(ho), len(hops), err[-300:]))
    ho = [norm(x) for x in ho]
    selfbad = [ops[k] for k, m in enumerate(mo) if m.split()[2] != "1"]
    res.oblig("model:expandImpl=expandSpec-on-samples", not selfbad, "correspondence", "" if not selfbad else selfbad[0])
    gxx_oracle(res, name, [unhx(m.split()[3]).decode() for m in mo])
    nts = dict((ops[k], cases[k][2]) for k in range(len(ops)))
    keys = {}
    for k in range(len(ops)):
        if ho[2 * k] != ho[2 * k + 1]:
            keys[k] = classify(cases[k][1], stream_toks(ho[2 * k]), stream_toks(ho[2 * k + 1]))
    # deviations of a known class are reported through P_impl below, everything else has to correspond
    keep = [k for k in range(len(ops)) if keys.get(k) is None]
    core.correspond(ctx, res, name, [ops[k] for k in keep], [ho[2 * k] for k in keep], [ho[2 * k + 1] for k in keep],
                    nontrivial=lambda op, out: nts.get(op, True))
    # P_impl: every difference is a concrete violation of the property
    for k in sorted(keys):
        a, b = mo[k].split()[:2]
        def show(l):
            p = l.split(" ")
            return unhx(p[1]).decode("latin-1") + "  [" + p[2] + "]" if p[0] == "T" else l
        if _count(res, keys[k]):
            res.violation("the simplified token stream of a program differs from that of its alias expansion\n%s-- expanded --\n%s  program : %s\n  expanded: %s" %
                          (unhx(a).decode(), unhx(b).decode(), show(ho[2 * k]), show(ho[2 * k + 1])),
                          dict(kind="tk", cpp=cases[k][0], items=cases[k][1]), concrete=True, key=keys[k])
    return mo, ho


# ---- value-flow facts and findings through the real binary ---------------------------------------------------------------

def dump_facts(ctx, text, cpp, tag):
    """(finding ids, facts) of the real cppcheck on a text: facts = per token, in order, (spelling, valueType, sorted values)"""
    d = os.path.join(ctx.tmp, "cli_%s_%d" % (tag, ctx.rng.getrandbits(40)))
    os.makedirs(d)
    fn = "x.cpp" if cpp else "x.c"
    open(os.path.join(d, fn), "wb").write(text if isinstance(text, bytes) else text.encode())
    rc, o, e = core.sh([ctx.cppcheck, "--enable=all", "--inconclusive", "-q", "--dump", "--template={id}", "--suppress=missingIncludeSystem",
                        "--suppress=checkersReport", "--suppress=unusedFunction", fn], cwd=d, timeout=120)
    ids = sorted(l for l in e.split("\n") if l.strip())
    facts = []
    dp = os.path.join(d, fn + ".dump")
    if os.path.exists(dp):
        xml = open(dp, encoding="utf-8", errors="replace").read()
        vals = {}
        for m in re.finditer(r'<values id="([0-9a-f]+)">(.*?)</values>', xml, re.S):
            vs = []
            for v in re.finditer(r"<value ([^>]*)/>", m.group(2)):
                at = dict(re.findall(r'(\w[\w-]*)="([^"]*)"', v.group(1)))
                kind = "known" if at.get("known") == "true" else ("possible" if at.get("possible") == "true" else ("impossible" if at.get("impossible") == "true" else "other"))
                vs.append((at.get("intvalue") or at.get("tokvalue") and "tok" or at.get("floatvalue") or "?", kind))
            vals[m.group(1)] = sorted(vs)
        tl = re.search(r"<tokenlist>(.*?)</tokenlist>", xml, re.S)      # not the tokens of <directivelist>
        for m in re.finditer(r"<token ([^>]*)/>", tl.group(1) if tl else ""):
            at = dict(re.findall(r'(\w[\w-]*)="([^"]*)"', m.group(1)))
            facts.append((at.get("str"), at.get("valueType-type"), at.get("valueType-sign"), at.get("valueType-pointer", "0"), tuple(vals.get(at.get("values"), []))))
    return ids, facts


def facts_norm(facts):
    """token facts with file-scope empty declarations dropped (see norm)"""
    out, depth = [], 0
    for f in facts:
        t = f[0]
        if t == ";" and depth == 0 and (not out or out[-1][0] in ("}", ";")):
            continue
        if t == "{":
            depth += 1
        elif t == "}":
            depth -= 1
        out.append(f)
    return out


def cli_pair(ctx, res, what, a_text, b_text, cpp, replay, facts=True, known=()):
    """the real binary on both texts: same finding ids (and same value-flow facts when the token streams are comparable)"""
    ia, fa = dump_facts(ctx, a_text, cpp, "a")
    ib, fb = dump_facts(ctx, b_text, cpp, "b")
    ok = True
    if ia != ib:
        extra, missing = set(ib) - set(ia), set(ia) - set(ib)
        key = None
        for kk, idset in known:         # a by-design difference: only these ids, only on the expanded side
            if extra and extra <= idset and not missing:
                key = kk
        res.count("cli-deviation:" + str(key))
        ok = key is not None
        if _count(res, key or "cli"):
            res.violation("cppcheck reports different finding ids for %s\n%s-- vs --\n%s%s vs %s" % (what, a_text, b_text, ia, ib), replay, concrete=True, key=key)
    if facts:
        fa, fb = facts_norm(fa), facts_norm(fb)
        if fa != fb:
            i = 0
            while i < len(fa) and i < len(fb) and fa[i] == fb[i]:
                i += 1
            res.count("cli-deviation:facts")
            ok = False
            if _count(res, "facts"):
                res.violation("cppcheck --dump: value-flow facts / value types differ for %s\n%s-- vs --\n%sfirst difference at token %d: %s vs %s" %
                              (what, a_text, b_text, i, fa[i] if i < len(fa) else None, fb[i] if i < len(fb) else None), replay, concrete=True, key=None)
    return ok


def gen_macro_pair(rng):
    """a text that uses object-like / function-like macros in value-relevant positions and its hand expansion"""
    n = rng.choice([2, 4, 8, 16])
    off = rng.choice([0, 0, 1, 2])
    k = rng.randrange(3)
    if k == 0:
        a = "#define N %d\nint a [ N ] ;\nint f ( int i ) {\nif ( i == N + %d ) return a [ i ] ;\na [ N - 1 ] = N ;\nreturn a [ N + %d ] ;\n}\n" % (n, off, off)
        b = "int a [ %d ] ;\nint f ( int i ) {\nif ( i == %d + %d ) return a [ i ] ;\na [ %d - 1 ] = %d ;\nreturn a [ %d + %d ] ;\n}\n" % (n, n, off, n, n, n, off)
    elif k == 1:
        a = "#define SQ(x) ( ( x ) * ( x ) )\n#define N %d\nint f ( void ) {\nint a [ N ] ;\nint j = SQ ( %d ) ;\na [ j ] = 0 ;\nreturn 10 / ( j - SQ ( %d ) ) ;\n}\n" % (n, off + 1, off + 1)
        b = "int f ( void ) {\nint a [ %d ] ;\nint j = ( ( %d ) * ( %d ) ) ;\na [ j ] = 0 ;\nreturn 10 / ( j - ( ( %d ) * ( %d ) ) ) ;\n}\n" % (n, off + 1, off + 1, off + 1, off + 1)
    else:
        a = "#define T int\n#define ZERO ( 1 - 1 )\nT g ( T p ) {\nT * q = 0 ;\nif ( p == ZERO ) return * q ;\nreturn %d / ZERO ;\n}\n" % n
        b = "int g ( int p ) {\nint * q = 0 ;\nif ( p == ( 1 - 1 ) ) return * q ;\nreturn %d / ( 1 - 1 ) ;\n}\n" % n
    return a, b


NESTED = [("INC", 1, "( ( x ) + 1 )", ["x"], lambda v: v[0] + 1), ("DBL", 1, "( ( y ) * 2 )", ["y"], lambda v: v[0] * 2),
          ("ADD", 2, "( ( p ) + ( q ) )", ["p", "q"], lambda v: v[0] + v[1]), ("MAX", 2, "( ( a ) > ( b ) ? ( a ) : ( b ) )", ["a", "b"], lambda v: max(v)),
          ("ABS", 1, "( ( v ) < 0 ? - ( v ) : ( v ) )", ["v"], lambda v: abs(v[0])), ("TWICE", 1, "( w + w )", ["w"], lambda v: 2 * v[0])]


def gen_nested_expr(rng, macros, depth):
    if depth == 0:
        n = rng.randrange(0, 5)
        return [str(n)], n
    nm, ar, body, ps, fn = rng.choice(macros)
    toks, vals = [nm, "("], []
    deep = rng.randrange(ar)
    for i in range(ar):
        if i:
            toks.append(",")
        t, v = gen_nested_expr(rng, macros, depth - 1 if i == deep else rng.choice([0, 0, max(0, depth - 2)]))
        toks += t; vals.append(v)
    toks.append(")")
    return toks, fn(vals)


def gen_nested_macro_pair(rng):
    """nested function-like invocations in argument position (INC ( DBL ( INC ( 3 ) ) ), MAX ( ABS ( MAX ( 1 , 2 ) ) , 3 )) whose value
    indexes an array; the hand expansion is made by gcc -E (independent of simplecpp)"""
    import subprocess

    def call(m, inner):
        """invocation of m with `inner` (tokens, value) in one argument position and small literals elsewhere"""
        nm, ar, body, ps, fn = m
        pos = rng.randrange(ar)
        toks, vals = [nm, "("], []
        for i in range(ar):
            if i:
                toks.append(",")
            if i == pos:
                toks += inner[0]; vals.append(inner[1])
            else:
                n = rng.randrange(0, 4)
                toks.append(str(n)); vals.append(n)
        toks.append(")")
        return toks, fn(vals)

    for _ in range(50):
        macros = rng.sample(NESTED, rng.choice([2, 3]))
        if rng.random() < 0.7:
            # the indirect pattern F ( G ( F ( x ) ) ), F != G: every level has to be replaced (6.10.3.1), optionally wrapped once more
            f, g = macros[0], macros[1]
            n0 = rng.randrange(0, 4)
            e = call(f, call(g, call(f, ([str(n0)], n0))))
            if rng.random() < 0.4:
                e = call(rng.choice(macros), e)
            toks, v = e
        else:
            toks, v = gen_nested_expr(rng, macros, rng.choice([2, 3, 3, 4]))
        if 0 <= v <= 60:
            break
    n = v if rng.random() < 0.6 else v + rng.choice([1, 3])
    n = max(n, 1)
    defs = "".join("#define %s(%s) %s\n" % (nm, " , ".join(ps), body) for nm, ar, body, ps, fn in macros)
    prog = "int f ( int sel ) {\nint a [ %d ] = { 0 } ;\nint i = %s ;\nif ( sel ) return a [ i ] ;\nreturn i ;\n}\n" % (n, " ".join(toks))
    a = defs + prog
    r = subprocess.run(["gcc", "-E", "-P", "-undef", "-nostdinc", "-x", "c", "-"], input=a, stdout=subprocess.PIPE, stderr=subprocess.PIPE, text=True)
    return a, r.stdout


def gen_template_pair(rng):
    """an explicitly instantiated function / class template and the equivalent hand-written entity (same names)"""
    ty = rng.choice(["int", "char", "long", "short"])
    n = rng.choice([2, 3, 5])
    off = rng.choice([0, 1, 2])
    k = rng.randrange(3)
    if k == 0:
        a = "template < class T > T idx ( T x ) {\nT a [ %d ] ;\na [ %d ] = x ;\nreturn a [ 0 ] ;\n}\ntemplate %s idx < %s > ( %s ) ;\n" % (n, n + off, ty, ty, ty)
        b = "%s idx ( %s x ) {\n%s a [ %d ] ;\na [ %d ] = x ;\nreturn a [ 0 ] ;\n}\n" % (ty, ty, ty, n, n + off)
    elif k == 1:
        a = ("template < class T > struct W {\nT v [ %d ] ;\nT get ( ) { return v [ %d ] ; }\n} ;\ntemplate struct W < %s > ;\n" % (n, n + off, ty))
        b = ("struct W {\n%s v [ %d ] ;\n%s get ( ) { return v [ %d ] ; }\n} ;\n" % (ty, n, ty, n + off))
    else:
        a = "template < class T > T dz ( T x ) {\nT z = 0 ;\nif ( x == %d ) return x / z ;\nreturn z ;\n}\ntemplate %s dz < %s > ( %s ) ;\n" % (n, ty, ty, ty)
        b = "%s dz ( %s x ) {\n%s z = 0 ;\nif ( x == %d ) return x / z ;\nreturn z ;\n}\n" % (ty, ty, ty, n)
    return a, b


ASSUMPTIONS = [
    "alias_refines_scoping is a statement about two specifications (undo-log table vs stack of scopes); cppcheck has no alias table, its behaviour enters only through the tie",
    "what a name denotes is validated by g++ -std=c++17 -fsyntax-only (static_assert(__is_same(decltype(x), T))) on every generated program, C programs compiled as C++",
    "templates and macros: sampled CLI pairs only (finding ids), no model",
    "normalisation: empty declarations `;` at file scope are dropped before token streams / facts are compared",
]


def run(ctx, res):
    rng = ctx.rng
    thorough = ctx.tier == "thorough"
    res.assumptions = list(ASSUMPTIONS)
    _seen.clear()
    if not os.environ.get("C06_NOPROVE"):          # development switch only
        core.prove(ctx, res, MODULES, THEOREMS)
    drv = os.environ.get("C06_DRV") or ctx.driver("drv_c06")
    exe = ctx.harness("c06")
    corpus = load_corpus()
    if corpus:
        cmo, cho = tie(ctx, res, exe, drv, [(c["cpp"], c["items"], True) for c in corpus], "tokenizer-corpus")
        for c, m in zip(corpus, cmo):
            if c.get("cli"):
                a, b = m.split()[:2]
                cli_pair(ctx, res, "a program and its alias expansion", unhx(a).decode(), unhx(b).decode(), c["cpp"],
                         dict(kind="cli", cpp=c["cpp"], items=c["items"]), known=[(KEY_CONST, CONST_IDS), (KEY_PORT, PORT_IDS)])
    cases = []
    distinct = []
    for i in range(3000 if thorough else 500):
        cpp = rng.random() < 0.5
        reuse = rng.random() < 0.5
        for _ in range(20):                         # every program uses at least one alias
            items, st = gen_prog(rng, cpp, rng.choice([3, 5, 8, 12]), reuse)
            if st["aliasuse"] >= 1:
                break
        if not reuse:
            distinct.append(len(cases))
        cases.append((cpp, items, st["aliasuse"] >= 1 and (st["redecl"] >= 1 or not reuse)))
        res.count("stream:" + ("hiding" if reuse else "distinct-names"))
        res.count("lang:" + ("cpp" if cpp else "c"))
        res.count("alias-uses:%d" % min(st["aliasuse"], 4))
        res.count("redeclared-names:%d" % min(st["redecl"], 3))
    mo, ho = tie(ctx, res, exe, drv, cases, "tokenizer")
    # ---- the real binary: finding ids and --dump facts (values, value types) of a program == those of its expansion --------
    clean = [k for k in range(len(cases)) if ho[2 * k] == ho[2 * k + 1]]
    cd = [k for k in clean if k in set(distinct)]
    pick = rng.sample(cd, min(40 if thorough else 3, len(cd))) + rng.sample(clean, min(40 if thorough else 2, len(clean)))
    nbad = 0
    for k in pick:
        a, b = mo[k].split()[:2]
        if not cli_pair(ctx, res, "a program and its alias expansion", unhx(a).decode(), unhx(b).decode(), cases[k][0],
                        dict(kind="cli", cpp=cases[k][0], items=cases[k][1]), known=[(KEY_CONST, CONST_IDS), (KEY_PORT, PORT_IDS)]):
            nbad += 1
    res.traces_validated += len(pick) - nbad
    res.extra["cli_alias_pairs"] = len(pick)
    # ---- the other two families of the property, sampled through the real binary only (no model) ---------------------------
    for i in range(40 if thorough else 3):
        a, b = gen_macro_pair(rng)
        res.count("cli-macro-pair")
        cli_pair(ctx, res, "a text with macros and its hand expansion", a, b, False, dict(kind="text", cpp=False, a=a, b=b), facts=False, known=[(KEY_MACRO, MACRO_IDS)])
    for i in range(60 if thorough else 5):
        a, b = gen_nested_macro_pair(rng)
        res.count("cli-nested-macro-pair")
        cli_pair(ctx, res, "a text with nested macro invocations and its expansion (gcc -E)", a, b, False, dict(kind="text", cpp=False, a=a, b=b, facts=True),
                 facts=True, known=[(KEY_MACRO, MACRO_IDS)])
    for i in range(40 if thorough else 3):
        a, b = gen_template_pair(rng)
        res.count("cli-template-pair")
        cli_pair(ctx, res, "an explicitly instantiated template and the hand-written entity", a, b, True, dict(kind="text", cpp=True, a=a, b=b), facts=False)
    dev = sum(n for k, n in res.dist.items() if k.startswith("cli-deviation:None") or k == "cli-deviation:facts")
    res.oblig("correspondence:cli-findings-and-facts", dev == 0, "correspondence", "" if dev == 0 else "%d CLI pairs differ (see the violations)" % dev)


def replay(ctx, res, rp):
    drv = ctx.driver("drv_c06")
    exe = ctx.harness("c06")
    if rp.get("kind") == "text":
        _seen.clear()
        ok = cli_pair(ctx, res, "replayed pair", rp["a"], rp["b"], rp["cpp"], rp, facts=bool(rp.get("facts")), known=[(KEY_MACRO, MACRO_IDS)])
        for v in res.violations:
            print(v["what"])
        print("replay: %s" % ("does not fail" if ok else "still fails"))
        return 0 if ok else 1
    if rp.get("kind") == "cli":
        _seen.clear()
        rc, mo, err = core.run_lines(drv, [], ["ex " + " ".join(rp["items"])])
        a, b = mo[0].split()[:2]
        ok = cli_pair(ctx, res, "replayed pair", unhx(a).decode(), unhx(b).decode(), rp["cpp"], rp)
        for v in res.violations:
            print(v["what"])
        fail = any(v["key"] is None for v in res.violations)
        print("replay: %s" % ("still fails" if fail else "does not fail"))
        return 1 if fail else 0
    if rp.get("kind") != "tk":
        print("replay: not replayable"); return 0
    rc, mo, err = core.run_lines(drv, [], ["ex " + " ".join(rp["items"])])
    a, b, same = mo[0].split()[:3]
    lang = "cpp" if rp["cpp"] else "c"
    rc, ho, err = core.run_lines(exe, [], ["tk %s %s" % (lang, a), "tk %s %s" % (lang, b)])
    print(unhx(a).decode()); print("-- expanded --"); print(unhx(b).decode())
    for l in ho:
        p = l.split(" ")
        print(unhx(p[1]).decode("latin-1") if p[0] == "T" else l)
    fail = ho[0] != ho[1]
    if fail:
        print("VIOLATION property=C06 replay=(replayed)")
    print("replay: %s" % ("still fails" if fail else "does not fail"))
    return 1 if fail else 0

"""C06 — typedef / using-alias expansion is transparent (partial: level "other"; templates not modelled, macros: see C11).

Obligations
  theorems   lean/Cppcheck/Props/C06.lean: alias_ids_refine, alias_refines_scoping (expansion with the undo-log symbol table =
             substitution under lexical scoping, for every program of the modelled language); object_macro_expansion_eq_subst (the macro
             part of the property: object-like macro replacement = substitution, proved for C11)
  C / P_impl real Tokenizer::simplifyTokens1 (in-process) on a generated program and on the program the Lean model expands
             (aliases substituted, alias declarations dropped): the two simplified token streams and the tokenizer diagnostics must
             be equal.  thorough: the real `cppcheck` binary on both files reports the same finding ids.
"""
import json, os, re
from .. import core, build_repo

ID = "C06"
LEVEL = "other"
RULE = ("cases = programs of the modelled language printed as C (typedef) / C++ (typedef and using): file-scope and block-scope "
        "aliases of base types, pointers and other aliases, variables / parameters that hide an alias, aliases that hide a variable "
        "or an outer alias, nested blocks, uses in declarations after the hiding scope is closed; non-trivial = at least one alias "
        "is used and at least one name is declared twice; distinct = canonical op text")
EXPLANATION = ("Lean theorem alias_refines_scoping: alias expansion driven by an undo-log symbol table (the VariableMap structure proved "
               "in C08) equals substitution under lexical scoping (stack of scopes), for every program of the modelled language. "
               "lib/tokenize.cpp has no such table for aliases (simplifyTypedef decides by the neighbouring tokens, simplifyTypedefCpp / "
               "simplifyUsing by brace counting), so the model is the specification side: the tie feeds the program and its model "
               "expansion to the real Tokenizer::simplifyTokens1 and compares the token streams (P_impl of the property). Outside the "
               "model: TemplateSimplifier (explicit instantiation), struct / enum / function-pointer / array typedefs, typedefs in "
               "classes and namespaces, value-flow facts (only finding ids are compared, thorough tier), macro expansion beyond "
               "C11's object-like theorem.")
THEOREMS = ["Cppcheck.AliasScope.alias_ids_refine", "Cppcheck.AliasScope.alias_refines_scoping",
            "Cppcheck.AliasScope.object_macro_expansion_eq_subst"]
MODULES = ["Cppcheck.Props.C06"]

hx, unhx = core.hx, core.unhx
NAMES = 6
ALLNAMES = 14


def gen_ty(rng, scopes, allow_alias=True):
    vis = visible(scopes)
    aliases = [n for n, k in vis.items() if k == "alias"]
    r = rng.random()
    if allow_alias and aliases and r < 0.6:
        t = "n%d." % rng.choice(aliases)
        used = True
    else:
        t = "b%d." % rng.randrange(5)
        used = False
    while rng.random() < 0.25:
        t = "p" + t
    return t, used


def visible(scopes):
    vis = {}
    for sc in scopes:
        vis.update(sc)
    return vis


def gen_ex(rng, scopes, avoid=None):
    vis = visible(scopes)
    vars_ = [n for n, k in vis.items() if k == "var" and n != avoid]
    r = rng.random()
    if vars_ and r < 0.5:
        return "v%d." % rng.choice(vars_)
    if vars_ and r < 0.65:
        return "+v%d.#%d." % (rng.choice(vars_), rng.randrange(10))
    return "#%d." % rng.randrange(100)


def gen_block(rng, scopes, depth, budget, cpp, st):
    items = []
    pool = st["pool"]
    for _ in range(rng.randrange(1, 5)):
        if budget[0] <= 0:
            break
        budget[0] -= 1
        r = rng.random()
        free = [n for n in pool if n not in scopes[-1] and (st["reuse"] or n not in st["declared"])]
        if r < 0.25 and free:
            n = rng.choice(free)
            t, used = gen_ty(rng, scopes)
            st["aliasuse"] += used
            st["redecl"] += n in visible(scopes)
            items.append(("U" if (cpp and rng.random() < 0.5) else "T") + "%d:%s" % (n, t))
            scopes[-1][n] = "alias"; st["declared"].add(n)
        elif r < 0.6 and free:
            n = rng.choice(free)
            t, used = gen_ty(rng, scopes)
            st["aliasuse"] += used
            st["redecl"] += n in visible(scopes)
            init = gen_ex(rng, scopes, avoid=n) if rng.random() < 0.6 else "-"
            items.append("V%d:%s:%s" % (n, t, init))
            scopes[-1][n] = "var"; st["declared"].add(n)
        elif r < 0.8:
            vars_ = [n for n, k in visible(scopes).items() if k == "var"]
            if vars_:
                items.append("A%d:%s" % (rng.choice(vars_), gen_ex(rng, scopes)))
        elif depth < 3:
            items.append("{")
            scopes.append({})
            items += gen_block(rng, scopes, depth + 1, budget, cpp, st)
            scopes.pop()
            items.append("}")
    return items


def gen_prog(rng, cpp, size, reuse=True):
    """reuse = False: every name is declared once in the whole program (no hiding at all)"""
    st = dict(aliasuse=0, redecl=0, reuse=reuse, declared=set(), pool=list(range(NAMES if reuse else ALLNAMES)))
    scopes = [{}]
    items = []
    budget = [size]
    nf = 0
    for _ in range(rng.randrange(1, 4)):
        # file scope: aliases and variables
        for _ in range(rng.randrange(0, 3)):
            free = [n for n in st["pool"] if n not in scopes[0] and (reuse or n not in st["declared"])]
            if not free:
                break
            n = rng.choice(free)
            t, used = gen_ty(rng, scopes)
            st["aliasuse"] += used
            if rng.random() < 0.7:
                items.append(("U" if (cpp and rng.random() < 0.5) else "T") + "%d:%s" % (n, t))
                scopes[0][n] = "alias"
            else:
                items.append("V%d:%s:%s" % (n, t, "-"))
                scopes[0][n] = "var"
            st["declared"].add(n)
        # a function
        scopes.append({})
        cand = [n for n in st["pool"] if reuse or n not in st["declared"]]
        if rng.random() < 0.7 and cand:
            n = rng.choice(cand)
            t, used = gen_ty(rng, scopes)
            st["aliasuse"] += used
            st["redecl"] += n in visible(scopes)
            items.append("F%d:%d:%s" % (nf, n, t))
            scopes[-1][n] = "var"; st["declared"].add(n)
        else:
            items.append("F%d:-" % nf)
        nf += 1
        items += gen_block(rng, scopes, 1, budget, cpp, st)
        items.append("}")
        scopes.pop()
    return items, st


KEY_USING = "using-alias-ignores-hiding-variable"
KEY_SHADOW = "typedef-name-hidden-by-variable"
KEY_CHAIN = "using-alias-of-typedef-name"
KEY_TWICE = "alias-name-declared-twice"
KEY_CONST = "const-suggestion-skipped-for-typedef-pointer"
CONST_IDS = {"constParameterPointer", "constVariablePointer", "constParameter", "constVariable", "constParameterCallback"}
KNOWN = {
    KEY_USING: "F06a simplifyUsing has no notion of hiding: a variable or parameter with the name of a `using` alias (declared anywhere in "
               "the file, even later or in another function) has its uses replaced by the aliased type "
               "(`int f(void){ unsigned n = 1; n = 2; } using n = int;` becomes `int ; int = 1 ; int = 2 ;`)",
    KEY_SHADOW: "F06b a variable / parameter that hides a typedef name is recognised by the neighbouring tokens only: `unsigned T ;`, `T T ;`, "
                "`int f ( unsigned T )` and uses such as `return T ;` are rewritten with the typedef's type (`typedef char T; int f(void){ long T; T = 1; "
                "return T; }` becomes `long T ; T = 1 ; return char ;`)",
    KEY_TWICE: "F06d an alias name that is declared twice in the file (two scopes, e.g. `typedef int T;` in a block and `typedef long * T;` at "
               "file scope) is left out by the one-pass simplification and an alias of it stays unexpanded "
               "(`typedef long * T; typedef T U; int f(U p)` becomes `int f ( T p )` when another scope also declares T)",
    KEY_CONST: "F06e findings differ by design: `constParameterPointer` / `constVariablePointer` are reported for `short * p` but not for `T p` with "
               "`typedef short * T` (tokens of a simplified typedef are skipped by the const checks)",
    KEY_CHAIN: "F06c a `using` alias of a typedef name is expanded to the typedef NAME, which no longer exists: "
               "`typedef unsigned int uint; using Index = uint; int f(Index i)` becomes `int f ( uint i )` (typedef-of-typedef and using-of-using are expanded fully)",
}


def declared(items, kinds):
    out = set()
    for w in items:
        m = None
        if "T" in kinds:
            m = m or re.match(r"T(\d+):", w)
        if "U" in kinds:
            m = m or re.match(r"U(\d+):", w)
        if "V" in kinds:
            m = m or re.match(r"V(\d+):", w) or re.match(r"F\d+:(\d+):", w)
        if m:
            out.add(m.group(1))
    return out


def classify(items):
    """the known-finding class of a program (None = none): specific to what the program contains"""
    if declared(items, "U") & declared(items, "V"):
        return KEY_USING
    if declared(items, "T") & declared(items, "V"):
        return KEY_SHADOW
    al = [re.match(r"[TU](\d+):", w).group(1) for w in items if re.match(r"[TU]\d+:", w)]
    if len(al) != len(set(al)):
        return KEY_TWICE
    ts = declared(items, "T")
    for w in items:
        m = re.match(r"U\d+:(.*)$", w)
        if m and any(("n%s." % t) in m.group(1) for t in ts):
            return KEY_CHAIN
    return None


def using_name_clash(items):
    return classify(items) is not None


def norm(l):
    """a removed file-scope typedef leaves an empty declaration `;` behind a function body: empty statements are dropped
    before the comparison (documented in docs/C06.md)"""
    p = l.split(" ")
    if p[0] != "T":
        return l
    toks = unhx(p[1]).decode("latin-1").split(" ")
    out = []
    for t in toks:
        if t == ";" and (not out or out[-1] in ("}", ";", "{")):
            continue
        out.append(t)
    return "T " + hx(" ".join(out)) + " " + " ".join(p[2:])


def load_corpus():
    p = os.path.join(core.VERIF, "corpus", "C06", "cases.json")
    return json.load(open(p)) if os.path.exists(p) else []


_seen = {}


def _count(res, key):
    """report at most a few replays per class"""
    _seen[key] = _seen.get(key, 0) + 1
    res.count("deviation:" + str(key))
    return _seen[key] <= (2 if key else 8)


def tie(ctx, res, exe, drv, cases, name):
    """cases: list of (cpp, items, nontrivial)"""
    ops = ["ex " + " ".join(items) for cpp, items, nt in cases]
    rc, mo, err = core.run_lines(drv, [], ops, timeout=600)
    if len(mo) != len(ops) or any(m == "bad-op" for m in mo):
        raise core.CheckBroken("drv_c06: %d lines for %d ops (%s) %s" % (len(mo), len(ops), [m for m in mo if m == "bad-op"][:1], err[-300:]))
    hops = []
    for (cpp, items, nt), m in zip(cases, mo):
        a, b, same = m.split()
        hops.append("tk %s %s" % ("cpp" if cpp else "c", a))
        hops.append("tk %s %s" % ("cpp" if cpp else "c", b))
    rc, ho, err = core.run_lines(exe, [], hops, timeout=600)
    if len(ho) != len(hops):
        raise core.CheckBroken("c06 harness: %d lines for %d ops %s" % (len(ho), len(hops), err[-300:]))
    ho = [norm(x) for x in ho]
    selfbad = [ops[k] for k, m in enumerate(mo) if m.split()[2] != "1"]
    res.oblig("model:expandImpl=expandSpec-on-samples", not selfbad, "correspondence", "" if not selfbad else selfbad[0])
    nts = dict((ops[k], cases[k][2]) for k in range(len(ops)))
    keep = [k for k in range(len(ops)) if not (ho[2 * k] != ho[2 * k + 1] and using_name_clash(cases[k][1]))]
    core.correspond(ctx, res, name, [ops[k] for k in keep], [ho[2 * k] for k in keep], [ho[2 * k + 1] for k in keep],
                    nontrivial=lambda op, out: nts.get(op, True))
    # P_impl: every difference is a concrete violation of the property
    for k in range(len(ops)):
        if ho[2 * k] != ho[2 * k + 1]:
            a, b, same = mo[k].split()
            def show(l):
                p = l.split(" ")
                return unhx(p[1]).decode("latin-1") + "  [" + p[2] + "]" if p[0] == "T" else l
            res.violation("the simplified token stream of a program differs from that of its alias expansion\n%s-- expanded --\n%s  program : %s\n  expanded: %s" %
                          (unhx(a).decode(), unhx(b).decode(), show(ho[2 * k]), show(ho[2 * k + 1])),
                          dict(kind="tk", cpp=cases[k][0], items=cases[k][1]), concrete=True,
                          key=classify(cases[k][1])) if _count(res, classify(cases[k][1])) else None
    return mo, ho


def run(ctx, res):
    rng = ctx.rng
    thorough = ctx.tier == "thorough"
    _seen.clear()
    if not os.environ.get("C06_NOPROVE"):          # development switch only
        core.prove(ctx, res, MODULES, THEOREMS)
    drv = os.environ.get("C06_DRV") or ctx.driver("drv_c06")
    exe = ctx.harness("c06")
    corpus = load_corpus()
    if corpus:
        tie(ctx, res, exe, drv, [(c["cpp"], c["items"], True) for c in corpus], "tokenizer-corpus")
    cases = []
    for i in range(3000 if thorough else 500):
        cpp = rng.random() < 0.5
        reuse = rng.random() < 0.5
        items, st = gen_prog(rng, cpp, rng.choice([3, 5, 8, 12]), reuse)
        cases.append((cpp, items, st["aliasuse"] >= 1 and (st["redecl"] >= 1 or not reuse)))
        res.count("stream:" + ("hiding" if reuse else "distinct-names"))
        res.count("lang:" + ("cpp" if cpp else "c"))
        res.count("alias-uses:%d" % min(st["aliasuse"], 4))
        res.count("redeclared-names:%d" % min(st["redecl"], 3))
    mo, ho = tie(ctx, res, exe, drv, cases, "tokenizer")
    if thorough:
        # the real binary on both files: same finding ids
        bad = []
        n = 0
        clean = [k for k in range(len(cases)) if ho[2 * k] == ho[2 * k + 1]]
        for k in rng.sample(clean, min(80, len(clean))):
            cpp = cases[k][0]
            a, b, same = mo[k].split()
            outs = []
            for tag, h in (("p", a), ("e", b)):
                d = os.path.join(ctx.tmp, "cli%d%s" % (k, tag))
                os.makedirs(d)
                fn = "x.cpp" if cpp else "x.c"
                open(os.path.join(d, fn), "wb").write(unhx(h))
                rc, o, e = core.sh([ctx.cppcheck, "--enable=all", "--inconclusive", "-q", "--template={id}", "--suppress=missingIncludeSystem",
                                    "--suppress=checkersReport", "--suppress=unusedFunction", fn], cwd=d, timeout=120)
                outs.append(sorted(l for l in e.split("\n") if l.strip()))
            n += 1
            if outs[0] != outs[1]:
                extra, missing = set(outs[1]) - set(outs[0]), set(outs[0]) - set(outs[1])
                key = KEY_CONST if (extra and extra <= CONST_IDS and not missing) else None
                res.count("cli-deviation:" + str(key))
                if key is None:
                    bad.append("%s\n%s vs %s" % (unhx(a).decode(), outs[0], outs[1]))
                if _count(res, key or "cli"):
                    res.violation("cppcheck reports different finding ids for a program and its alias expansion\n%s%s vs %s" % (unhx(a).decode(), outs[0], outs[1]),
                                  dict(kind="cli", cpp=cpp, items=cases[k][1]), concrete=True, key=key)
        res.traces_validated += n - len(bad)
        res.extra["cli_pairs"] = n
        res.oblig("correspondence:cli-finding-ids", not bad, "correspondence", "" if not bad else "%d of %d pairs differ; first: %s" % (len(bad), n, bad[0]))


def replay(ctx, res, rp):
    drv = ctx.driver("drv_c06")
    exe = ctx.harness("c06")
    if rp.get("kind") != "tk":
        print("replay: not replayable"); return 0
    rc, mo, err = core.run_lines(drv, [], ["ex " + " ".join(rp["items"])])
    a, b, same = mo[0].split()
    lang = "cpp" if rp["cpp"] else "c"
    rc, ho, err = core.run_lines(exe, [], ["tk %s %s" % (lang, a), "tk %s %s" % (lang, b)])
    print(unhx(a).decode()); print("-- expanded --"); print(unhx(b).decode())
    for l in ho:
        p = l.split(" ")
        print(unhx(p[1]).decode("latin-1") if p[0] == "T" else l)
    fail = ho[0] != ho[1]
    if fail:
        print("VIOLATION property=C06 replay=(replayed)")
    print("replay: %s" % ("still fails" if fail else "does not fail"))
    return 1 if fail else 0

"""C32 — compilation-database import reproduces the compiler's options.

Obligations
  theorems   Cppcheck.Shell.split_quote, Cppcheck.GccArgs.parseArgs_eq_spec_partial, defines_normal_form, ...  (Lean)
  C-split    real ImportProject::collectArgs == model Shell.collectArgs on quoted argument vectors and raw strings
  C-parse    real ImportProject::parseArgs (+fsSetDefines) == model GccArgs.parseArgs on generated and hostile vectors
  C-defs     real ImportProject::fsSetDefines == model on generated strings
  C-import   real importCompileCommands (picojson, directory/file handling, fsSetIncludePaths) == model Import.run
  G-quote    the generator's quoting == the model's Shell.quote (the function split_quote is about)
  G-spec     the options the generator put into a command line == Spec.gcc of the vector (spec sanity)
P_impl       options recovered by the real code == options the generator put into the command line
"""
import json, os, posixpath, re
from .. import core, build_repo

ID = "C32"
LEVEL = "proof"
RULE = ("cases = (a) argument vectors rendered from structured GCC option lists (joined/separate -I -isystem -D -U, -std=, -f/-m flags, "
        "other options, -o/-MF/-include operands, input files; absolute paths under roots such as /Users /Downloads /Include; -D values with "
        "quotes, blanks, $, `, ;), (b) the same vectors written as command strings - whole-argument and piecewise quoting in five styles "
        "(bare, double quotes, single quotes, shlex, backslash escapes; CMake-like -DV=\\\"1\\\" and -DMSG=\"a b\") plus the POSIX-only escapes - and "
        "split again, (c) hostile vectors/strings over the option-prefix and quote alphabets, (d) whole compile_commands.json documents "
        "(arguments/command form, repeated files, relative/absolute/option-like/rejected/missing file names), (e) oracle runs of /bin/sh and "
        "gcc -###; non-trivial = the vector contains at least one interpreted option or an argument that needed quoting / the raw string "
        "contains a quote or backslash")
EXPLANATION = ("Lean theorems (unbounded): splitting a command string quoted piecewise in any of five styles returns the arguments "
               "(split_quote_partial; excluded and kept as findings: POSIX escapes of characters other than backslash, quotes and blank); parseArgs "
               "equals the GCC option specification on every vector satisfying the decidable predicate `clean` (parseArgs_eq_spec_partial; "
               "excluded: F12 slash-prefixed paths, counterexample proved; ';' inside a -D value, finding); the model of the whole "
               "importCompileCommands that the driver executes yields per entry exactly the specified settings with -I values de-duplicated and "
               "resolved against `directory` (import_eq_spec_partial). Models are validated against the real functions in-process and through the "
               "CLI; the specification is validated against the real gcc driver (gcc -###) and the generator's quoting against /bin/sh. Not "
               "specified further: simplecpp::simplifyPath (modelled literally, used as the normaliser inside the include-path specification), "
               "picojson, Path::acceptFile's extension table; -fpic/-fPIC/-fpie/-fPIE/-municode map to the one macro cppcheck documents "
               "(GCC defines both spellings with value 1 or 2) - the specification follows the code there.")
ASSUMPTIONS = [
    "include-path specification Import.incSpec resolves a relative -I value with the model of simplecpp::simplifyPath (validated against the real function, not specified independently)",
    "Spec.impliedDefine (-fpic -fPIC -fpie -fPIE -municode => one macro =1) follows cppcheck's table, not GCC's values",
    "Spec.sepOpts lists 38 separate-value options of gcc/clang; for a name missing from the list spec and code both read the value as a free argument (agreement preserved, `clean` clause 4 then does not mention it)",
    "the `$(VAR)` expansion of fsSetIncludePaths is modelled for unset variables only",
]
THEOREMS = [
    "Cppcheck.Shell.split_quote_partial",
    "Cppcheck.Shell.split_quote",
    "Cppcheck.Shell.empty_arg_dropped",
    "Cppcheck.Shell.dollar_escape_kept",
    "Cppcheck.GccArgs.defines_normal_form_partial",
    "Cppcheck.GccArgs.semicolon_define_counterexample",
    "Cppcheck.GccArgs.parseArgs_eq_spec_partial",
    "Cppcheck.GccArgs.spec_of_render",
    "Cppcheck.GccArgs.parseArgs_render_partial",
    "Cppcheck.GccArgs.sepOpts_otherOk",
    "Cppcheck.GccArgs.slash_prefix_counterexample",
    "Cppcheck.GccArgs.parseArgs_eq_spec_counterexample",
    "Cppcheck.GccArgs.slash_prefix_users_example",
    "Cppcheck.GccArgs.trailing_bare_option_ignored",
    "Cppcheck.GccArgs.trailing_bare_option_oob_before_0f74657",
    "Cppcheck.GccArgs.fix_0f74657_conservative",
    "Cppcheck.GccArgs.entryArgs_command_quote",
    "Cppcheck.GccArgs.import_eq_spec_partial",
    "Cppcheck.GccArgs.import_eq_spec_counterexample",
    "Cppcheck.GccArgs.isystem_relative_counterexample",
]
MODULES = ["Cppcheck.Props.C32"]

SLASH = ("/I", "/D", "/U", "/std:")
PREFIXES = ("-I", "/I", "-isystem", "-D", "/D", "-U", "/U", "-std=", "/std:", "-f", "-m")
BARE_NAMES = ("-I", "/I", "-isystem", "-D", "/D", "-U", "/U", "-std=", "/std:", "-f", "-m")   # exactly-the-name arguments take the next one as value
SEP_OPTS = ["-o", "-x", "-include", "-imacros", "-iquote", "-idirafter", "-isysroot", "-MF", "-MT", "-MQ", "-Xlinker", "-L", "-l", "-arch",
            "--param", "-target"]
ROOTS = ["/home/u/proj", "/tmp/b", "/usr/local", "/opt/x", "/srv/w", "/Users/me/src", "/Data/w", "/Downloads", "/Include", "/Library/Dev",
         "/Infra", "/Ubuntu/p", "/var/lib"]
NEUTRAL_ROOTS = ["/home/u/proj", "/tmp/b", "/usr/local", "/opt/x", "/srv/w", "/var/lib"]


def hx(s):
    return core.hx(s)


def enc(s, e):
    return s.encode(e)


# ---- structured command lines ---------------------------------------------------------------------

IDENT0 = "ABCXYZ_abfoo"
IDENTS = ["A", "B", "NDEBUG", "FOO", "BAR_2", "_x", "HAVE_CONFIG_H", "VERSION", "MSG", "REAL", "f", "Q_T", "WIN", "lower"]
VALUES = ["1", "0", "42", "", "\"str\"", "\"a b\"", "(1+2)", "a=b", "'c'", "x\\y", "\"q\\\"uote\"", "it's", "-1", "0x10", "long long", "\\", "é",
          "a\tb", "$HOME", "`x`", "a,b", "<h.h>", "{}", "a#b", "%(X)", "100%", "a;b", "\"x; y\""]
DIRS_REL = ["inc", "include", "src/inc", "../inc", "./gen", "a b/inc", "third party/x", "inc/", "x/../y", "é/inc", "-weird", "I", "D=1"]
OTHER = ["-c", "-O2", "-g", "-Wall", "-Wextra", "-fno-rtti", "-fvisibility=hidden", "-m64", "-march=native", "-pthread", "-MD", "-pipe", "-W",
         "-fPIC2", "-funroll-loops", "-mfpu=neon", "-stdlib=libc++", "-ansi", "-isysrootX", "-i", "-s", "-", "--", "-w"]
FLAGS = ["-fpic", "-fPIC", "-fpie", "-fPIE", "-municode"]
STDS = ["c99", "c11", "gnu11", "c++11", "c++17", "gnu++20", "c++2a", "c89"]
EXTS = [".c", ".cpp", ".cc", ".cxx", ".C", ".c++"]


def gen_path(rng, roots=ROOTS, ext=None):
    r = rng.random()
    base = rng.choice(["a", "main", "x y", "mod/util", "é", "b-1", "t.u"]) + (ext if ext is not None else rng.choice(EXTS + [".o", ".d", ".h", ""]))
    if r < 0.55:
        return rng.choice(roots) + "/" + base
    if r < 0.8:
        return base
    if r < 0.9:
        return "./" + base
    return "../" + base


def gen_define(rng):
    name = rng.choice(IDENTS)
    if rng.random() < 0.15:
        name += rng.choice(["(x)", "(a,b)", "()"])
    if rng.random() < 0.55:
        return name
    return name + "=" + rng.choice(VALUES)


def gen_opts(rng, n=None, hostile_paths=True):
    """structured GCC command line: list of tuples"""
    roots = ROOTS if hostile_paths else NEUTRAL_ROOTS
    n = n if n is not None else rng.choice([2, 3, 4, 6, 8, 12])
    opts = [("other", rng.choice(["cc", "gcc", "/usr/bin/c++", "clang++", "/opt/x/bin/arm-gcc", "ccache"]))]
    for _ in range(n):
        k = rng.random()
        joined = rng.random() < 0.6
        if k < 0.2:
            d = rng.choice(DIRS_REL) if rng.random() < 0.5 else rng.choice(roots) + rng.choice(["", "/include", "/a b", "/inc/"])
            opts.append(("I", d, joined))
        elif k < 0.27:
            d = rng.choice(DIRS_REL) if rng.random() < 0.4 else rng.choice(roots) + rng.choice(["", "/include", "/sys dir"])
            opts.append(("isystem", d, joined))
        elif k < 0.5:
            opts.append(("D", gen_define(rng), joined))
        elif k < 0.58:
            opts.append(("U", rng.choice(IDENTS), joined))
        elif k < 0.64:
            opts.append(("std", rng.choice(STDS)))
        elif k < 0.69:
            opts.append(("flag", rng.choice(FLAGS)))
        elif k < 0.82:
            opts.append(("other", rng.choice(OTHER)))
        elif k < 0.92:
            o = rng.choice(SEP_OPTS)
            v = gen_path(rng, roots) if o not in ("-x", "-arch", "--param", "-target", "-l", "-Xlinker") else rng.choice(["c", "c++", "x86_64", "k=1", "m", "-rpath"])
            opts.append(("sep", o, v))
        else:
            opts.append(("pos", gen_path(rng, roots)))
    if rng.random() < 0.8:
        opts.insert(rng.randrange(1, len(opts) + 1), ("pos", gen_path(rng, roots, ext=rng.choice(EXTS))))
    return opts


def render(opts):
    """argument vector of a structured command line"""
    args = []
    for o in opts:
        if o[0] in ("I", "isystem", "D", "U"):
            name = "-" + o[0]
            if o[2]:
                args.append(name + o[1])
            else:
                args += [name, o[1]]
        elif o[0] == "std":
            args.append("-std=" + o[1])
        elif o[0] in ("flag", "other", "pos"):
            args.append(o[1])
        elif o[0] == "sep":
            args += [o[1], o[2]]
    return args


IMPLIED = {"-fpic": "__pic__", "-fPIC": "__PIC__", "-fpie": "__pie__", "-fPIE": "__PIE__", "-municode": "UNICODE"}


def norm_def(d):
    return d if ("=" in d or "(" in d) else d + "=1"


def intended(opts, e):
    """the settings the structured command line specifies (bytes), independent of any cppcheck code"""
    inc, sysinc, defs, undefs, std = [], [], [], set(), ""
    for o in opts:
        if o[0] == "I":
            if o[1] not in inc:
                inc.append(o[1])
        elif o[0] == "isystem":
            sysinc.append(o[1])
        elif o[0] == "D":
            defs.append(o[1])
        elif o[0] == "U":
            undefs.add(enc(o[1], e))
        elif o[0] == "std":
            std = o[1]
        elif o[0] == "flag":
            defs.append(IMPLIED[o[1]])
    return dict(I=[enc(x, e) for x in inc], S=[enc(x, e) for x in sysinc], D=enc(";".join(norm_def(d) for d in defs), e),
                U=sorted(undefs), T=enc(std, e), defs=defs)


def lst(l):
    return "." if not l else ",".join(hx(x) for x in l)


def fs_line(d):
    return "I %s | S %s | D %s | U %s | T %s" % (lst(d["I"]), lst(d["S"]), hx(d["D"]), lst(d["U"]), hx(d["T"]))


def def_ok(d):
    """the Lean predicate defOk"""
    return bool(d) and ";" not in d and d[0] not in "=(" and not d.startswith("%(")


def def_valid(d):
    """a -D value GCC accepts: starts like an identifier (a ';' in the value is fine for GCC)"""
    return bool(d) and (d[0].isalpha() or d[0] == "_")


def desemi(opts):
    """the same command line with every ';' of a -D value replaced (classification of define-semicolon-split)"""
    return [((o[0], o[1].replace(";", ","), o[2]) if o[0] == "D" else o) for o in opts]


def opts_in_premise(opts):
    """the generator stays inside what the property quantifies over: values non-empty, definitions representable"""
    for o in opts:
        if o[0] == "D" and not def_valid(o[1]):
            return False
        if o[0] in ("I", "isystem", "U") and not o[1]:
            return False
    return True


# ---- quoting --------------------------------------------------------------------------------------

ESCAPABLE = "\\\"' "
SHELL_SAFE = set("abcdefghijklmnopqrstuvwxyzABCDEFGHIJKLMNOPQRSTUVWXYZ0123456789_@%+=:,./-")
MODEL_STYLES = "bdsxe"


def bare_ok(a):
    return not any(c in a for c in " \"'\\")


def quote_arg(sty, a):
    """one piece in one style.  b d s x e are the styles of Shell.quoteArg; pd / pb are what a POSIX quoter writes (double
    quotes in which backslash, double quote, dollar and back quote are escaped; a backslash in front of every character that
    is special to sh) - outside the theorem: cppcheck keeps the backslash in front of characters other than backslash, the
    two quote characters and blank (finding posix-backslash-escape-kept)"""
    if sty == "b":
        return a
    if sty == "d":
        return '"' + a.replace("\\", "\\\\").replace('"', '\\"') + '"'
    if sty == "s":
        return "'" + a.replace("'", "'\\''") + "'"
    if sty == "x":
        return "'" + a.replace("'", "'\"'\"'") + "'"
    if sty == "e":
        return "".join("\\" + c for c in a)
    if sty == "pd":
        return '"' + "".join(("\\" + c) if c in "\\\"$`" else c for c in a) + '"'
    if sty == "pb":
        return "".join(c if (c in SHELL_SAFE or ord(c) > 127) else "\\" + c for c in a)
    raise ValueError(sty)


def piece_ok(sty, a):
    return (sty != "b" or bare_ok(a)) and (sty != "e" or all(c in ESCAPABLE for c in a))


def gen_segs(rng, a, mode):
    """pieces of one argument: list of (style, text)"""
    if not a:
        return [(rng.choice("dsx"), a)]
    if mode == "cmake":           # CMake's Unix style: escapable characters get a backslash, the rest is written as is
        segs, cur, cur_e = [], "", None
        for c in a:
            e = c in ESCAPABLE
            if cur and e != cur_e:
                segs.append(("e" if cur_e else "b", cur)); cur = ""
            cur += c; cur_e = e
        segs.append(("e" if cur_e else "b", cur))
        return segs
    if mode == "mid" and "=" in a[:-1]:      # -DMSG="a b": the quote opens in the middle of the argument
        k = a.index("=") + 1
        if bare_ok(a[:k]):
            return [("b", a[:k]), (rng.choice("dsx"), a[k:])]
    if mode == "random":
        cuts = sorted(set(rng.randrange(1, len(a) + 1) for _ in range(rng.choice([1, 2, 3])))) if len(a) > 1 else []
        segs, prev = [], 0
        for c in cuts + [len(a)]:
            if c > prev:
                piece = a[prev:c]
                cand = [x for x in MODEL_STYLES if piece_ok(x, piece)]
                segs.append((rng.choice(cand), piece)); prev = c
        if rng.random() < 0.1:
            segs.insert(rng.randrange(len(segs) + 1), (rng.choice("dsx"), ""))    # an empty quoted piece adds nothing
        return segs
    sty = "b" if (bare_ok(a) and rng.random() < 0.9) else rng.choice("dsx")
    return [(sty, a)]


def gen_styles(rng, args, mode=None, posix=False):
    """the command string of a vector: list of (pad, pieces)"""
    out = []
    mode = mode or rng.choice(["whole", "whole", "cmake", "mid", "random"])
    for a in args:
        pad = 0 if rng.random() < 0.85 else rng.choice([1, 2, 5])
        if posix and a and rng.random() < 0.5 and "\n" not in a:
            out.append((pad, [(rng.choice(["pd", "pb"]), a)]))
        else:
            out.append((pad, gen_segs(rng, a, mode)))
    return out


def item_text(segs):
    return "".join(t for _, t in segs)


def quote_cmd(items):
    s = ""
    for k, (pad, segs) in enumerate(items):
        if k:
            s += " " + " " * pad
        s += "".join(quote_arg(sty, t) for sty, t in segs)
    return s


def shell_valid(items):
    """the command string is correct input for a POSIX shell (what the build executes): bare pieces hold no shell-special
    character, our plain double-quote style holds no $ or back quote"""
    for _, segs in items:
        for sty, t in segs:
            if sty == "b" and not all((c in SHELL_SAFE or ord(c) > 127) for c in t):
                return False
            if sty == "d" and any(c in "$`" for c in t):
                return False
            if "\n" in t or "\x00" in t:
                return False
    return True


def sh_split(cmd):
    """independent oracle for "shell-quoted": /bin/sh splits the command string"""
    import subprocess
    r = subprocess.run(["/bin/sh", "-c", b"printf '%s\\0' " + cmd.encode("latin-1")], stdout=subprocess.PIPE, stderr=subprocess.PIPE,
                       env={"PATH": "/usr/bin:/bin"}, timeout=20)
    if r.returncode != 0:
        return None
    parts = r.stdout.split(b"\0")
    return [x.decode("latin-1") for x in parts[:-1]]


# ---- hostile inputs -------------------------------------------------------------------------------

def gen_raw_cmd(rng):
    alpha = [" ", " ", '"', "'", "\\", "a", "b", "-", "D", "=", "/", "\t", "\n", "\x00", "é", "$", "I"]
    return "".join(rng.choice(alpha) for _ in range(rng.choice([0, 1, 2, 3, 5, 8, 13, 21])))


def gen_hostile_args(rng):
    tails = ["", "x", "pic", "PIC", "pie", "PIE", "unicode", "c99", "a;b", ";", "=", "(", "%(X)", "A=1", "/p", "ystem", "system", "td=", " "]
    voc = list(PREFIXES) + ["-i", "-", "/", "-s", "-std", "/std", "-is", "", "a.c", "-o", "/Data/a.o", "-include", "-x"]
    n = rng.choice([0, 1, 1, 2, 3, 4, 6])
    args = []
    for _ in range(n):
        r = rng.random()
        if r < 0.45:
            args.append(rng.choice(voc))
        elif r < 0.9:
            args.append(rng.choice(voc) + rng.choice(tails))
        else:
            args.append(rng.choice(tails))
    return args


def gen_defs_string(rng):
    alpha = ["A", "B", ";", ";", "=", "(", ")", "%", "1", "%(", ";%(", ";;", "x"]
    return "".join(rng.choice(alpha) for _ in range(rng.choice([0, 1, 2, 3, 4, 6, 9, 14])))


# ---- classification of P_impl failures ------------------------------------------------------------------

def neutralise(args):
    """rewrite every argument that starts with an MSVC-style prefix so that it no longer does — except the value
    of a separate -I/-isystem/-D/-U (GCC reads that one as the option's value whatever it looks like)"""
    out, skip = [], False
    for a in args:
        if skip:
            out.append(a)
            skip = False
            continue
        if a in ("-I", "-isystem", "-D", "-U"):
            skip = True
        out.append(("/_" + a[1:]) if a.startswith(SLASH) else a)
    return out


def classify_parse_batch(R, fails, e="latin-1"):
    """fails: list of (args, want_line, opts|None).  Returns for each failing vector the list of known classes that
    together explain it, or [] (= unclassified):
      slash-prefixed-path-arg   some argument (not the value of a separate -I/-isystem/-D/-U) starts with /I /D /U /std:
      define-semicolon-split    some -D value contains ';'
    A class is accepted only if the real code recovers exactly the specified options once the offending arguments are
    neutralised (slash arguments rewritten to "/_…", ';' in -D values rewritten to ','); a vector that needs both
    neutralisations belongs to both classes."""
    ops, plan = [], []
    for i, (args, want, opts) in enumerate(fails):
        variants = []
        n1 = neutralise(args)
        if n1 != args:
            variants.append((["slash-prefixed-path-arg"], n1, want))
        if opts is not None and any(o[0] == "D" and ";" in o[1] for o in opts):
            o2 = desemi(opts)
            a2, w2 = render(o2), fs_line(intended(o2, e))
            variants.append((["define-semicolon-split"], a2, w2))
            if neutralise(a2) != a2:
                variants.append((["slash-prefixed-path-arg", "define-semicolon-split"], neutralise(a2), w2))
        for keys, a, w in variants:
            plan.append((i, keys, w))
            ops.append(parse_op(a, e))
    got = R.impl(ops) if ops else []
    out = [[] for _ in fails]
    for (i, keys, w), g in zip(plan, got):
        if g == w and not out[i]:
            out[i] = keys
    return out


def classify_parse(R, args, want_line, opts=None, e="latin-1"):
    return classify_parse_batch(R, [(args, want_line, opts)], e)[0]


# ---- running --------------------------------------------------------------------------------------------

class Runner:
    def __init__(self, ctx):
        self.ctx = ctx
        self.drv = ctx.driver("drv_c32")
        self.exe = ctx.harness("c32")

    def both(self, ops_impl, ops_model=None):
        ops_model = ops_model if ops_model is not None else ops_impl
        rc, impl, err = core.run_lines(self.exe, [], ops_impl, timeout=900)
        if len(impl) != len(ops_impl):
            raise core.CheckBroken("C32 harness produced %d lines for %d ops (rc=%s): %s" % (len(impl), len(ops_impl), rc, err[-800:]))
        rc, model, err = core.run_lines(self.drv, [], ops_model, timeout=900)
        if len(model) != len(ops_model):
            raise core.CheckBroken("C32 driver produced %d lines for %d ops (rc=%s): %s" % (len(model), len(ops_model), rc, err[-800:]))
        return impl, model

    def model(self, ops):
        rc, model, err = core.run_lines(self.drv, [], ops, timeout=900)
        if len(model) != len(ops):
            raise core.CheckBroken("C32 driver produced %d lines for %d ops (rc=%s): %s" % (len(model), len(ops), rc, err[-800:]))
        return model

    def impl(self, ops):
        rc, impl, err = core.run_lines(self.exe, [], ops, timeout=900)
        if len(impl) != len(ops):
            raise core.CheckBroken("C32 harness produced %d lines for %d ops (rc=%s): %s" % (len(impl), len(ops), rc, err[-800:]))
        return impl

    def impl_parse(self, args, e="latin-1"):
        return self.impl([parse_op(args, e)])[0]


def parse_op(args, e="latin-1", op="parse"):
    return (op + " " + " ".join(hx(enc(a, e)) for a in args)).strip()


def ends_bare(args):
    """the vector ends in a bare option name (read out of bounds before commit 0f74657; only counted now)"""
    return bool(args) and args[-1] in BARE_NAMES


def show(args):
    return " ".join(json.dumps(a) for a in args)


def opt_item(o):
    h = lambda x: hx(enc(x, "latin-1"))
    if o[0] in ("I", "isystem", "D", "U"):
        return "%s:%d:%s" % ({"I": "I", "isystem": "S", "D": "D", "U": "U"}[o[0]], 1 if o[2] else 0, h(o[1]))
    if o[0] == "std":
        return "T:0:" + h(o[1])
    if o[0] == "flag":
        return "F:0:" + h(o[1])
    if o[0] == "sep":
        return "P:0:%s:%s" % (h(o[1]), h(o[2]))
    return "O:0:" + h(o[1])


def tie_render(ctx, res, R, vectors):
    """the generator's `render` / `intended` are the Lean definitions `render` / `meaning` the theorems speak about"""
    vs = [(a, o) for a, o in vectors if o is not None]
    out = R.model([("render " + " ".join(opt_item(x) for x in o)).strip() for _, o in vs])
    bad = []
    for (args, opts), l in zip(vs, out):
        m = re.match(r"^(.*) \| (I .*) \| wf ([01])$", l)
        want_args = " ".join(hx(enc(a, "latin-1")) for a in args)
        if not m or m.group(1).strip() != want_args or (opts_in_premise(opts) and m.group(2) != fs_line(intended(opts, "latin-1"))):
            bad.append((args, l))
        elif m.group(3) != "1" and opts_in_premise(opts):
            res.count("generated-list-not-wf")
    res.oblig("G-render:generator-equals-Lean-render-and-meaning", not bad, "translation",
              "" if not bad else "%d lists differ; first: %s -> %s" % (len(bad), show(bad[0][0]), bad[0][1]))


def tie_parse(ctx, res, R, vectors, name):
    """vectors: list of (args, opts|None).  Correspondence impl/model, spec sanity, P_impl."""
    safe = list(vectors)
    res.count("ends-in-bare-option", sum(1 for a, _ in vectors if ends_bare(a)))
    ops = [parse_op(a) for a, _ in safe]
    impl, model = R.both(ops)
    spec = R.model([parse_op(a, op="spec") for a, _ in safe])
    mism, fails = [], []
    for i, ((args, opts), il, ml, sl) in enumerate(zip(safe, impl, model, spec)):
        nt = any(a.startswith(PREFIXES) for a in args)
        samp = dict(tie=name, op=show(args), impl=il, model=ml) if i % max(1, len(safe) // 3) == 0 else None
        res.case(name + "|" + ops[i], nt, samp)
        if il != ml:
            mism.append(i)
        m = re.match(r"^(.*) \| clean ([01]) defok ([01])$", sl)
        if not m:
            raise core.CheckBroken("C32 driver spec line: " + sl)
        sline, cl, dk = m.group(1), m.group(2) == "1", m.group(3) == "1"
        res.count("clean:%d" % cl)
        if cl and dk and ml != sline:
            res.oblig("theorem-instance:parseArgs_eq_spec_partial", False, "correspondence",
                      "model and spec differ on a clean vector: %s model=%s spec=%s" % (show(args), ml, sline))
        if opts is not None:
            want = fs_line(intended(opts, "latin-1"))
            inprem = opts_in_premise(opts)
            res.count("premise:%d" % inprem)
            if inprem and sline != want:
                res.oblig("G-spec:generator-options-equal-Spec.gcc", False, "translation",
                          "Spec.gcc disagrees with the options the generator rendered: %s spec=%s generator=%s" % (show(args), sline, want))
            if inprem and il != want:
                fails.append((args, want, il, opts))
    for (args, want, il, opts), keys in zip(fails, classify_parse_batch(R, [(a, w, o) for a, w, _, o in fails])):
        res.count("P_impl-fail:" + "+".join(keys or ["None"]))
        for key in (keys or [None]):
            res.violation("parseArgs recovers other options than the command line specifies: %s got=[%s] specified=[%s]" % (show(args), il, want),
                          dict(kind="args", args=args, got=il, specified=want, replay_cmd="./check.py C32 --replay <this file>"),
                          concrete=True, key=key)
    res.traces_validated += len(safe) - len(mism)
    res.oblig("correspondence:" + name, not mism, "correspondence",
              "" if not mism else "%d of %d ops differ; first: %s impl=[%s] model=[%s]" % (len(mism), len(safe), show(safe[mism[0]][0]), impl[mism[0]], model[mism[0]]))
    return mism


def tie_split(ctx, res, R, items_list, raws, name, posix_list=(), n_sh=0):
    """items_list: commands in the model's styles [(pad, pieces)]; posix_list: commands that also use the POSIX-only
    styles; raws: raw command strings"""
    rng = ctx.rng
    qops = ["qcmd " + " ".join("%d/%s" % (p, "+".join("%s:%s" % (st, hx(enc(t, "latin-1"))) for st, t in segs)) for p, segs in items) for items in items_list]
    qout = R.model(qops)
    cmds, bad_q = [], []
    for items, o in zip(items_list, qout):
        cmd = quote_cmd(items)
        f = o.split(" ")
        want_args = [hx(enc(item_text(segs), "latin-1")) for _, segs in items]
        if f[0] != hx(enc(cmd, "latin-1")) or f[1] != "1" or f[2:] != want_args:
            bad_q.append((items, o))
        cmds.append(cmd)
    res.oblig("G-quote:generator-quoting-equals-Shell.quoteCmd", not bad_q, "translation",
              "" if not bad_q else "python quoting and the model's quoteCmd differ (or segsOk false): %s -> %s" % (bad_q[0][0], bad_q[0][1]))
    pcmds = [quote_cmd(items) for items in posix_list]
    all_items = list(items_list) + list(posix_list)
    allc = cmds + pcmds + raws
    ops = [("split " + hx(enc(c, "latin-1"))) for c in allc]
    impl, model = R.both(ops)
    mism, fails = [], []
    for i, (c, il, ml) in enumerate(zip(allc, impl, model)):
        nt = any(ch in c for ch in "\"'\\")
        samp = dict(tie=name, op=json.dumps(c), impl=il, model=ml) if i % max(1, len(allc) // 3) == 0 else None
        res.case(name + "|" + ops[i], nt, samp)
        if il != ml:
            mism.append(i)
        if i < len(all_items):
            want = " ".join(["ok"] + [hx(enc(item_text(segs), "latin-1")) for _, segs in all_items[i]])
            for _, segs in all_items[i]:
                for st, _ in segs:
                    res.count("style:" + st)
                if len(segs) > 1:
                    res.count("piecewise-argument")
            if il != want:
                fails.append((i, c, il, want))
        else:
            res.count("raw:" + il.split(" ")[0])
    # classification: the only known class is a POSIX-only escape (pd / pb piece holding a character whose backslash cppcheck
    # keeps); it is confirmed by re-quoting exactly those pieces in single quotes and seeing the real code return the vector
    cand, cops = [], []
    for k, (i, c, il, want) in enumerate(fails):
        items = all_items[i]
        if any(st in ("pd", "pb") for _, segs in items for st, _ in segs):
            alt = [(p, [(("s" if st in ("pd", "pb") else st), t) for st, t in segs]) for p, segs in items]
            cand.append(k)
            cops.append("split " + hx(enc(quote_cmd(alt), "latin-1")))
    cout = R.impl(cops) if cops else []
    keys = [None] * len(fails)
    for k, o in zip(cand, cout):
        if o == fails[k][3]:
            keys[k] = "posix-backslash-escape-kept"
    for (i, c, il, want), key in zip(fails, keys):
        res.count("P_impl-split-fail:" + str(key))
        res.violation("collectArgs does not return the arguments the command string was quoted from: cmd=%s got=[%s] want=[%s]" % (json.dumps(c), il, want),
                      dict(kind="cmd", cmd=c, items=[[p, [list(x) for x in segs]] for p, segs in all_items[i]], got=il, want=want), concrete=True, key=key)
    # independent oracle: /bin/sh splits the generated command strings into the vector (so "quoted by the generator" means
    # "shell-quoted")
    if n_sh:
        idx = [i for i in range(len(all_items)) if shell_valid(all_items[i])]
        rng.shuffle(idx)
        bad_sh, ran = [], 0
        for i in idx[:n_sh]:
            got = sh_split(allc[i])
            ran += 1
            if got != [item_text(segs) for _, segs in all_items[i]]:
                bad_sh.append((allc[i], got))
        res.extra["sh_oracle_runs"] = res.extra.get("sh_oracle_runs", 0) + ran
        res.oblig("O-sh:generated-command-strings-are-shell-quoting", not bad_sh and ran > 0, "translation",
                  "" if not bad_sh else "/bin/sh splits a generated command differently from the vector it was written from: %s -> %s" % (json.dumps(bad_sh[0][0]), bad_sh[0][1]))
    res.traces_validated += len(allc) - len(mism)
    res.oblig("correspondence:" + name, not mism, "correspondence",
              "" if not mism else "%d of %d ops differ; first: %s impl=[%s] model=[%s]" % (len(mism), len(allc), json.dumps(allc[mism[0]]), impl[mism[0]], model[mism[0]]))
    return mism


def tie_defs(ctx, res, R, strings, deflists, name):
    ops = ["defs " + hx(enc(s, "latin-1")) for s in strings] + ["defs " + hx(enc("".join(d + ";" for d in ds), "latin-1")) for ds in deflists]
    impl, model = R.both(ops)
    normal = R.model([("normal " + " ".join(hx(enc(d, "latin-1")) for d in ds)).strip() for ds in deflists])
    mism = [i for i in range(len(ops)) if impl[i] != model[i]]
    for i, op in enumerate(ops):
        res.case(name + "|" + op, ";" in (strings[i] if i < len(strings) else "x;"), dict(tie=name, op=op, impl=impl[i], model=model[i]) if i % max(1, len(ops) // 2) == 0 else None)
    for j, ds in enumerate(deflists):
        h, _, ok = normal[j].split(" ")
        if ok == "1" and impl[len(strings) + j] != h:
            res.violation("fsSetDefines does not produce the normal form of %s: got=%s want=%s" % (ds, impl[len(strings) + j], h),
                          dict(kind="defs", defs=ds, got=impl[len(strings) + j], want=h), concrete=True, key=None)
    res.traces_validated += len(ops) - len(mism)
    res.oblig("correspondence:" + name, not mism, "correspondence",
              "" if not mism else "%d of %d ops differ; first: %s impl=[%s] model=[%s]" % (len(mism), len(ops), ops[mism[0]], impl[mism[0]], model[mism[0]]))




# ---- independent oracle for the specification: the GCC driver itself -----------------------------------------

GCC_STD_ALIAS = {"c89": "c90", "gnu89": "gnu90", "c9x": "c99", "c1x": "c11", "c++0x": "c++11", "c++1y": "c++14", "c++1z": "c++17",
                 "c++2a": "c++20", "gnu++2a": "gnu++20"}


def gcc_reading(args):
    """what the installed gcc driver makes of the vector: `gcc -###` prints COLLECT_GCC_OPTIONS, its own parsed option list
    (joined/separate forms normalised, values of -o -MF -include … consumed, input files removed).  None if gcc rejects it."""
    import subprocess, shlex
    try:
        r = subprocess.run([b"gcc", b"-###"] + [enc(a, "latin-1") for a in args[1:]], stdout=subprocess.PIPE, stderr=subprocess.PIPE,
                           timeout=20, env={"PATH": "/usr/bin:/bin", "LC_ALL": "C"})
    except (ValueError, OSError):
        return None
    if r.returncode != 0:
        return None
    line = None
    for l in r.stderr.split(b"\n"):
        if l.startswith(b"COLLECT_GCC_OPTIONS="):
            line = l[len(b"COLLECT_GCC_OPTIONS="):].decode("latin-1")
            break
    if line is None:
        return None
    toks = shlex.split(line)
    inc, sysinc, defs, undefs, std = [], [], [], set(), ""
    k = 0
    while k < len(toks):
        t = toks[k]
        if t in ("-I", "-isystem", "-D", "-U") and k + 1 < len(toks):
            v = toks[k + 1]
            k += 2
            if t == "-I":
                if v not in inc:
                    inc.append(v)
            elif t == "-isystem":
                sysinc.append(v)
            elif t == "-D":
                defs.append(v)
            else:
                undefs.add(enc(v, "latin-1"))
            continue
        if t.startswith("-std="):
            std = t[5:]
        k += 1
    return dict(I=[enc(x, "latin-1") for x in inc], S=[enc(x, "latin-1") for x in sysinc],
                D=enc(";".join(norm_def(d) for d in defs), "latin-1"), U=sorted(undefs), T=enc(std, "latin-1"))


def tie_gcc_oracle(ctx, res, R, vectors, nmax, name="O-gcc:Spec.gcc-equals-the-gcc-driver-reading"):
    """Spec.gcc is hand-written; here the real GCC driver reads the same vectors.  Only vectors gcc accepts count."""
    import shutil
    if not shutil.which("gcc"):
        res.notes.append("gcc not installed: oracle skipped")
        return
    # the driver prunes repeated -f switches and prints -std aliases canonically: vectors with -fpic… are left to the other
    # ties (their macro is cppcheck's own approximation), aliases are mapped on the spec side
    cand = [a for a, o in vectors if a and not any("\x00" in x or "\n" in x for x in a) and not any(x in IMPLIED for x in a)]
    ctx.rng.shuffle(cand)
    used, ops, readings = 0, [], []
    for args in cand:
        if used >= nmax:
            break
        g = gcc_reading(args)
        if g is None:
            res.count("gcc-oracle-rejected")
            continue
        used += 1
        ops.append(parse_op(args, op="spec"))
        readings.append((args, fs_line(g)))
    out = R.model(ops) if ops else []
    bad = []
    for (args, gl), sl in zip(readings, out):
        m = re.match(r"^(.*) \| clean ([01]) defok ([01])$", sl)
        spec_line = m.group(1) if m else ""
        for alias, canon in GCC_STD_ALIAS.items():
            if spec_line.endswith(" | T " + hx(alias)):
                spec_line = spec_line[: -len(hx(alias))] + hx(canon)
        if spec_line != gl:
            bad.append((args, gl, sl))
    res.extra["gcc_oracle_vectors"] = res.extra.get("gcc_oracle_vectors", 0) + used
    res.oblig(name, not bad and used >= min(nmax, 20), "translation",
              ("only %d vectors accepted by gcc" % used) if not bad else
              "%d of %d vectors: the gcc driver reads other options than Spec.gcc; first: %s gcc=[%s] spec=[%s]" % (len(bad), used, show(bad[0][0]), bad[0][1], bad[0][2]))


# ---- import level: whole compile_commands.json documents ---------------------------------------------------

DIRS_ABS = ["/home/u/proj/build", "/tmp/b", "/srv/w/out/", "/opt/x", "/home/u/my proj/b", "/var/lib/é"]
FILES_REL = ["src/a.c", "a.cpp", "../src/b.cc", "./x.cxx", "-Dfoo.c", "-I.cpp", "m/n/o.C", "t.u.c++", "a b.c", "é.cpp", "UP.CPP", "k.cl"]
FILES_REJECTED = ["a.h", "a.txt", "README", "x.hpp", "y.o", "noext/", "a.c.bak", "A.H"]


def expected_path(directory, f):
    d = directory if directory.endswith("/") else directory + "/"
    return posixpath.normpath(f if f.startswith("/") else d + f)


def expected_incs(directory, dirs):
    d0 = directory if directory.endswith("/") else directory + "/"
    out, seen = [], set()
    for x in dirs:
        if x in seen:
            continue
        seen.add(x)
        if x.startswith("/"):
            out.append(x if x.endswith("/") else x + "/")
        else:
            out.append(posixpath.normpath(d0 + x) + "/")
    return out


def plain_for_intended(directory, opts):
    """P_impl at import level is evaluated where the intended value needs no path algebra beyond normpath"""
    if "\\" in directory or not directory.startswith("/"):
        return False
    for o in opts:
        if o[0] == "I":
            d = o[1]
            if not d or "\\" in d or "$(" in d or d.startswith("%(") or "//" in d or d.startswith("..") or "/../.." in d:
                return False
    return True


def gen_doc(rng):
    """one compile_commands.json document: list of entry dicts with the structured options kept aside"""
    n = rng.choice([1, 1, 2, 3, 4])
    entries = []
    pool = []
    for _ in range(n):
        directory = rng.choice(DIRS_ABS)
        r = rng.random()
        if pool and r < 0.25:
            f = rng.choice(pool)                       # repeated file
        elif r < 0.6:
            f = rng.choice(FILES_REL)
        elif r < 0.85:
            f = rng.choice(ROOTS) + "/" + rng.choice(["a.c", "src/b.cpp", "x y.cc"])
        elif r < 0.95:
            f = rng.choice(FILES_REJECTED)
        else:
            f = None
        if f is not None:
            pool.append(f)
        opts = gen_opts(rng, n=rng.choice([1, 2, 3, 5, 8]))
        opts = [o for o in opts if not (o[0] == "pos" and o[1].endswith(tuple(EXTS))) and not (o[0] == "D" and ";" in o[1])]
        if f is not None:
            opts.append(("pos", ("./" + f) if f.startswith("-") else f))
        form = rng.choice(["A", "A", "C", "C", "C"])
        entries.append(dict(directory=directory, file=f, opts=opts, form=form))
    return entries


def doc_to_json_and_model(rng, entries):
    doc, toks = [], []
    for e in entries:
        args = [a for a in render(e["opts"])]
        obj = {"directory": e["directory"]}
        if e["file"] is not None:
            obj["file"] = e["file"]
        toks += [hx(enc(e["directory"], "utf-8")), hx(enc(e["file"], "utf-8")) if e["file"] is not None else "!"]
        if e["form"] == "A":
            jargs = list(args)
            if rng.random() < 0.1:
                jargs.insert(rng.randrange(len(jargs) + 1), rng.choice([1, None, True, ["x"]]))   # non-strings are skipped
            obj["arguments"] = jargs
            toks += ["A", str(len(args))] + [hx(enc(a, "utf-8")) for a in args]
        else:
            args = [a for a in args if a]
            cmd = quote_cmd(gen_styles(rng, args))
            obj["command"] = cmd
            toks += ["C", hx(enc(cmd, "utf-8"))]
        e["args"] = args
        doc.append(obj)
    text = json.dumps(doc, ensure_ascii=rng.random() < 0.5, indent=rng.choice([None, 1]))
    return text, "import " + " ".join(toks)


def expected_sysincs(directory, dirs):
    """the directories the -isystem values denote for a compiler running in `directory`"""
    d0 = directory if directory.endswith("/") else directory + "/"
    return [x if x.startswith("/") else posixpath.normpath(d0 + x) for x in dirs]


def entry_line(directory, f, opts, k):
    """the file setting line an entry specifies (include and system include directories resolved against `directory`)"""
    it = intended(opts, "utf-8")
    it["I"] = [enc(x, "utf-8") for x in expected_incs(directory, [o[1] for o in opts if o[0] == "I"])]
    it["S"] = [enc(x, "utf-8") for x in expected_sysincs(directory, [o[1] for o in opts if o[0] == "isystem"])]
    return "P %s id %d | %s" % (hx(enc(expected_path(directory, f), "utf-8")), k, fs_line(it))


def absolutise_isystem(directory, opts):
    d0 = directory if directory.endswith("/") else directory + "/"
    return [((o[0], posixpath.normpath(d0 + o[1]), o[2]) if (o[0] == "isystem" and not o[1].startswith("/")) else o) for o in opts]


def intended_entry_lines(entries):
    """(line, in_premise, entry) per accepted entry, in order"""
    out, ids = [], {}
    for e in entries:
        f = e["file"]
        if f is None or not accept_file(f):
            continue
        path = expected_path(e["directory"], f)
        k = ids.get(path, 0)
        ids[path] = k + 1
        ok = opts_in_premise(e["opts"]) and plain_for_intended(e["directory"], e["opts"])
        out.append((entry_line(e["directory"], f, e["opts"], k) if ok else "", ok, e))
    return out


def accept_file(f):
    i = f.rfind(".")
    if i < 0:
        return False
    e = f[i:]
    if e == ".C" or e in (".c", ".cl"):
        return True
    return "".join(chr(ord(c) + 32) if "A" <= c <= "Z" else c for c in e) in (".cpp", ".cxx", ".cc", ".c++", ".tpp", ".txx", ".ipp", ".ixx")


def tie_import(ctx, res, R, docs, name):
    rng = ctx.rng
    hops, mops, keep = [], [], []
    for entries in docs:
        text, mop = doc_to_json_and_model(rng, entries)
        hops.append("json " + hx(text.encode("utf-8")))
        mops.append(mop)
        keep.append((entries, text))
    impl, model = R.both(hops, mops)
    mism, fails = [], []
    for i, ((entries, text), il, ml) in enumerate(zip(keep, impl, model)):
        samp = dict(tie=name, op=text[:300], impl=il[:300], model=ml[:300]) if i % max(1, len(keep) // 2) == 0 else None
        res.case(name + "|" + text, True, samp)
        for e in entries:
            res.count("form:" + e["form"])
        if il != ml:
            mism.append(i)
        parts = il.split(" || ")
        want = intended_entry_lines(entries)
        if not parts[0].startswith("rc 1"):
            res.violation("importCompileCommands rejects a well-formed database: %s -> %s" % (text[:300], il[:200]),
                          dict(kind="json", json=text, got=il), concrete=True, key=None)
            continue
        if len(parts) - 1 != len(want):
            res.violation("importCompileCommands yields %d file settings, the database names %d accepted files: %s" % (len(parts) - 1, len(want), text[:300]),
                          dict(kind="json", json=text, got=il), concrete=True, key=None)
            continue
        for got, (w, ok, e) in zip(parts[1:], want):
            if ok and got != w:
                fails.append((e, got, w, text))
    # classify entry-level failures: each known class is confirmed by neutralising exactly its input on the real code
    #   slash-prefixed-path-arg        arguments starting with /I /D /U /std: rewritten to "/_…"
    #   isystem-relative-not-resolved  relative -isystem values rewritten to the absolute directory they denote
    plan, cops = [], []
    for j, (e, got, w, text) in enumerate(fails):
        variants = []
        n1 = neutralise(e["args"])
        if n1 != e["args"]:
            variants.append((["slash-prefixed-path-arg"], n1, entry_line(e["directory"], e["file"], e["opts"], 0)))
        o2 = absolutise_isystem(e["directory"], e["opts"])
        if o2 != e["opts"]:
            a2, w2 = render(o2), entry_line(e["directory"], e["file"], o2, 0)
            variants.append((["isystem-relative-not-resolved"], a2, w2))
            if neutralise(a2) != a2:
                variants.append((["slash-prefixed-path-arg", "isystem-relative-not-resolved"], neutralise(a2), w2))
        for keys, a, w0 in variants:
            obj = {"directory": e["directory"], "file": e["file"], "arguments": a}
            plan.append((j, keys, w0))
            cops.append("json " + hx(json.dumps([obj]).encode("utf-8")))
    cout = R.impl(cops) if cops else []
    keysof = [[] for _ in fails]
    for (j, keys, w0), o in zip(plan, cout):
        g2 = o.split(" || ")
        if len(g2) == 2 and g2[1] == w0 and not keysof[j]:
            keysof[j] = keys
    for (e, got, w, text), keys in zip(fails, keysof):
        res.count("P_impl-import-fail:" + "+".join(keys or ["None"]))
        for key in (keys or [None]):
            res.violation("import recovers other options than the entry specifies: entry=%s got=[%s] specified=[%s]" %
                          (json.dumps(dict(directory=e["directory"], file=e["file"], arguments=e["args"])), got, w),
                          dict(kind="json", json=text, got=got, specified=w), concrete=True, key=key)
    res.traces_validated += len(keep) - len(mism)
    res.oblig("correspondence:" + name, not mism, "correspondence",
              "" if not mism else "%d of %d documents differ; first: %s impl=[%s] model=[%s]" % (len(mism), len(keep), keep[mism[0]][1][:400], impl[mism[0]][:400], model[mism[0]][:400]))


def gen_path_string(rng):
    parts = ["a", "b", "..", ".", "", "x.y", "..a", "a..", "...", "c d"]
    n = rng.choice([1, 2, 3, 4, 6])
    s = rng.choice(["", "", "/", "//", "./", "../", "C:/", "\\"]) + rng.choice(["/", "/", "/", "\\", "//"]).join(rng.choice(parts) for _ in range(n))
    return s + rng.choice(["", "", "/", "/.", "/.."])


def tie_paths(ctx, res, R, n, name):
    rng = ctx.rng
    ops = ["simplify " + hx(enc(gen_path_string(rng), "latin-1")) for _ in range(n)]
    for _ in range(n // 2):
        base = rng.choice(DIRS_ABS + ["rel/base/", ""])
        base = base if base.endswith("/") or not base else base + "/"
        ins = [rng.choice(DIRS_REL + ["/abs", "/abs/", "C:/x", "C:\\y", "%(Inherit)", "$(C32_UNSET_VAR)/i", "a/$(C32_UNSET_VAR", "", "inc", "inc\\sub", gen_path_string(rng)])
               for _ in range(rng.choice([0, 1, 2, 3, 5]))]
        ops.append(("incs " + hx(enc(base, "latin-1")) + " " + " ".join(hx(enc(x, "latin-1")) for x in ins)).strip())
    impl, model = R.both(ops)
    mism = [i for i in range(len(ops)) if impl[i] != model[i]]
    for i, op in enumerate(ops):
        res.case(name + "|" + op, True, dict(tie=name, op=op, impl=impl[i], model=model[i]) if i % max(1, len(ops) // 2) == 0 else None)
    res.traces_validated += len(ops) - len(mism)
    res.oblig("correspondence:" + name, not mism, "correspondence",
              "" if not mism else "%d of %d ops differ; first: %s (%s) impl=[%s] model=[%s]" %
              (len(mism), len(ops), ops[mism[0]], [core.unhx(x) for x in ops[mism[0]].split(" ")[1:]], impl[mism[0]], model[mism[0]]))



# ---- CLI tie (thorough): the built cppcheck binary prints the imported options with -v ----------------------------

def tie_cli(ctx, res, R, ndocs, name):
    import subprocess
    rng = ctx.rng
    exe = ctx.cppcheck
    bad, fails, ran = [], [], 0
    for k in range(ndocs):
        root = os.path.join(ctx.tmp, "cli%d" % k)
        bdir = os.path.join(root, "build")
        os.makedirs(bdir, exist_ok=True)
        entries = []
        for j in range(rng.choice([1, 2, 3])):
            rel = rng.choice(["../src/a%d.c" % j, "m%d.cpp" % j, "../src/x y%d.cc" % j, "./-Dfoo%d.c" % j])
            absf = os.path.normpath(os.path.join(bdir, rel))
            f = rel if rng.random() < 0.5 else absf
            if f.startswith("./"):
                f = f[2:] if rng.random() < 0.5 else f
            os.makedirs(os.path.dirname(absf), exist_ok=True)
            open(absf, "w").write("int x%d;\n" % j)
            opts = gen_opts(rng, n=rng.choice([2, 4, 6]))
            opts = [o for o in opts if not (o[0] == "pos" and o[1].endswith(tuple(EXTS))) and not (o[0] == "D" and ";" in o[1])]
            opts.append(("pos", ("./" + f) if f.startswith("-") else f))
            entries.append(dict(directory=bdir + rng.choice(["", "/"]), file=f, opts=opts, form=rng.choice(["A", "C"])))
        text, _ = doc_to_json_and_model(rng, entries)
        pj = os.path.join(root, "compile_commands.json")
        open(pj, "w", encoding="utf-8").write(text)
        for attempt in range(30):
            try:
                r = subprocess.run([exe, "--project=" + pj, "-v", "-j1", "--template={id}"], cwd=root, stdout=subprocess.PIPE, stderr=subprocess.PIPE, timeout=120)
                break
            except OSError:          # the shared binary is being relinked by a concurrent check of another property
                import time
                time.sleep(2)
        else:
            raise core.CheckBroken("cppcheck binary %s cannot be executed" % exe)
        lines = r.stdout.split(b"\n")
        cli = []
        for i, l in enumerate(lines):
            if l.startswith(b"Defines:") and i + 2 < len(lines) and lines[i + 1].startswith(b"Undefines:") and lines[i + 2].startswith(b"Includes:"):
                cli.append((l, lines[i + 1], lines[i + 2]))
        il = R.impl(["json " + hx(text.encode("utf-8"))])[0]
        inproc = []
        for part in il.split(" || ")[1:]:
            m = re.match(r"^P (\S+) id (\d+) \| I (\S+) \| S (\S+) \| D (\S+) \| U (\S+) \| T (\S+)$", part)
            unl = lambda x: [] if x == "." else [core.unhx(y) for y in x.split(",")]
            inproc.append((b"Defines:" + core.unhx(m.group(5)), b"Undefines:" + b";".join(b" " + u for u in unl(m.group(6))),
                           b"Includes:" + b"".join(b" -I" + p for p in unl(m.group(3)))))
        ran += 1
        res.case(name + "|" + text, True, dict(tie=name, op=text[:200], impl=repr(cli)[:300], model=repr(inproc)[:300]) if k % max(1, ndocs // 2) == 0 else None)
        if cli != inproc:
            bad.append((text, cli, inproc))
        want = intended_entry_lines(entries)
        if len(want) == len(cli):
            for (w, ok, e), c in zip(want, cli):
                if not ok:
                    continue
                m = re.match(r"^P (\S+) id (\d+) \| I (\S+) \| S (\S+) \| D (\S+) \| U (\S+) \| T (\S+)$", w)
                unl = lambda x: [] if x == "." else [core.unhx(y) for y in x.split(",")]
                wl = (b"Defines:" + core.unhx(m.group(5)), b"Undefines:" + b";".join(b" " + u for u in unl(m.group(6))),
                      b"Includes:" + b"".join(b" -I" + p for p in unl(m.group(3))))
                if ok and c != wl:
                    fails.append((e, c, wl, text))
    # classify CLI P_impl failures with the in-process classifier on the entry's vector
    for e, c, wl, text in fails:
        nargs = neutralise(e["args"])
        key = None
        if nargs != e["args"]:
            want1 = fs_line(intended(e["opts"], "utf-8"))
            got1 = R.impl([parse_op(nargs, "utf-8")])[0]
            # the include paths of `want1` are raw, those of the vector too: compare on the vector level
            if got1 == want1:
                key = "slash-prefixed-path-arg"
        res.count("P_impl-cli-fail:" + str(key))
        res.violation("cppcheck -v prints other options than the entry specifies: entry=%s printed=%s specified=%s" %
                      (json.dumps(dict(directory=e["directory"], file=e["file"], arguments=e["args"])), c, wl),
                      dict(kind="json", json=text, got=repr(c), specified_cli=repr(wl)), concrete=True, key=key)
    res.extra["cli_runs"] = ran
    res.traces_validated += ran - len(bad)
    res.oblig("correspondence:" + name, not bad and ran > 0, "correspondence",
              "" if not bad else "%d of %d databases: `cppcheck --project -v` and the in-process import differ; first: %s cli=%s inproc=%s" %
              (len(bad), ran, bad[0][0][:300], bad[0][1], bad[0][2]))


def load_corpus():
    p = os.path.join(core.VERIF, "corpus", "C32", "cases.json")
    return json.load(open(p)) if os.path.exists(p) else []


def replay_corpus(ctx, res, R):
    """witnesses of known findings: the KNOWN-FINDING line is printed only while they still reproduce on the real code"""
    for c in load_corpus():
        if c["kind"] == "args":
            got = R.impl_parse(c["args"])
            if got != c["specified"]:
                opts = [tuple(o) for o in c["opts"]] if "opts" in c else None
                keys = classify_parse(R, c["args"], c["specified"], opts)
                for key in (keys or [None]):
                    res.violation("corpus witness still reproduces: %s got=[%s] specified=[%s]" % (show(c["args"]), got, c["specified"]),
                                  dict(kind="args", args=c["args"], got=got, specified=c["specified"]), concrete=True, key=key)
                res.count("corpus-reproduced")
            else:
                res.count("corpus-no-longer-reproduces")
        elif c["kind"] == "entry":
            opts = [tuple(o) for o in c["opts"]]
            one = lambda o: R.impl(["json " + hx(json.dumps([{"directory": c["directory"], "file": c["file"], "arguments": render(o)}]).encode("utf-8"))])[0].split(" || ")
            got, want = one(opts), entry_line(c["directory"], c["file"], opts, 0)
            if got[1:] != [want]:
                o2 = absolutise_isystem(c["directory"], opts)
                key = "isystem-relative-not-resolved" if (o2 != opts and one(o2)[1:] == [entry_line(c["directory"], c["file"], o2, 0)]) else None
                res.violation("corpus witness still reproduces: entry %s got=%s specified=[%s]" % (json.dumps(c), got[1:], want),
                              dict(kind="json", json=json.dumps([{"directory": c["directory"], "file": c["file"], "arguments": render(opts)}]), specified=want),
                              concrete=True, key=key)
                res.count("corpus-reproduced")
            else:
                res.count("corpus-no-longer-reproduces")
        elif c["kind"] == "cmd":
            got = R.impl(["split " + hx(enc(c["cmd"], "latin-1"))])[0]
            if got != c["want"]:
                key = None
                if "alt" in c and R.impl(["split " + hx(enc(c["alt"], "latin-1"))])[0] == c["want"]:
                    key = "posix-backslash-escape-kept"     # the same vector written without the POSIX-only escape is split correctly
                res.violation("corpus witness still reproduces: cmd=%s got=[%s] want=[%s]" % (json.dumps(c["cmd"]), got, c["want"]),
                              dict(kind="cmd", cmd=c["cmd"], got=got, want=c["want"]), concrete=True, key=key)
                res.count("corpus-reproduced")
            else:
                res.count("corpus-no-longer-reproduces")


def run(ctx, res):
    import time
    res.assumptions.extend(ASSUMPTIONS)
    rng = ctx.rng
    thorough = ctx.tier == "thorough"
    tm = {}
    t = time.time()

    def lap(k):
        nonlocal t
        tm[k] = round(time.time() - t, 1)
        t = time.time()
    core.prove(ctx, res, MODULES, THEOREMS)
    lap("prove")
    R = Runner(ctx)
    lap("driver+harness build")
    replay_corpus(ctx, res, R)

    n = 4000 if thorough else 400
    structured = []
    for _ in range(n):
        opts = gen_opts(rng)
        if rng.random() < 0.04:
            # a bare option name as the very last argument specifies nothing (GCC: error); read out of bounds before 0f74657
            opts.append(("other", rng.choice(["-I", "-D", "-U", "-isystem", "-std="])))
        structured.append((render(opts), opts))
    hostile = [(gen_hostile_args(rng), None) for _ in range(n)]
    tie_render(ctx, res, R, structured)
    tie_parse(ctx, res, R, structured, "parseArgs-structured")
    tie_parse(ctx, res, R, hostile, "parseArgs-hostile")
    lap("parse")
    oracle_vs = [(render(o), o) for o in (gen_opts(rng, hostile_paths=True) for _ in range(6 * (400 if thorough else 60)))]
    oracle_vs = [(a, [x for x in o]) for a, o in oracle_vs]
    tie_gcc_oracle(ctx, res, R, oracle_vs + structured, 400 if thorough else 60)
    lap("gcc-oracle")

    items_list = []
    for args, opts in structured[: n // 2]:
        args = [a for a in args if a]
        items_list.append(gen_styles(rng, args))
    posix_list = [gen_styles(rng, [a for a in args if a], posix=True) for args, _ in structured[n // 2: n // 2 + n // 4]]
    raws = [gen_raw_cmd(rng) for _ in range(n)]
    tie_split(ctx, res, R, items_list, raws, "collectArgs", posix_list=posix_list, n_sh=(600 if thorough else 80))
    lap("split")

    strings = [gen_defs_string(rng) for _ in range(n)]
    deflists = [[gen_define(rng) for _ in range(rng.choice([0, 1, 2, 3, 5]))] for _ in range(n // 2)]
    tie_defs(ctx, res, R, strings, deflists, "fsSetDefines")
    lap("defs")

    tie_paths(ctx, res, R, n, "simplifyPath+fsSetIncludePaths")
    lap("paths")
    docs = [gen_doc(rng) for _ in range(n // 2)]
    tie_import(ctx, res, R, docs, "importCompileCommands")
    lap("import")
    if thorough:
        tie_cli(ctx, res, R, 150, "cli-verbose-lines")
        lap("cli")
    res.extra["phase_s"] = tm

    # ---- violation search: an obligation broke and no concrete failing input is known yet ------------------------
    if any(not o["ok"] for o in res.obligations) and not any(v["concrete"] and v.get("key") is None for v in res.violations):
        search(ctx, res, R)
        lap("search")


def search(ctx, res, R):
    """P_impl on the real code over a much wider sample (theorem hypotheses satisfied: no slash-prefixed paths), so that a
    change that broke a theorem / the correspondence is reported with a concrete command line whenever one is reachable"""
    rng = ctx.rng
    res2 = core.Result(ctx, res.level)
    n = 6000
    structured = []
    for _ in range(n):
        opts = gen_opts(rng, hostile_paths=False)
        structured.append((render(opts), opts))
    try:
        tie_parse(ctx, res2, R, structured, "search-parse")
        items_list = [gen_styles(rng, [a for a in args if a]) for args, _ in structured[:3000]]
        tie_split(ctx, res2, R, items_list, [], "search-split")
        tie_defs(ctx, res2, R, [], [[gen_define(rng) for _ in range(rng.choice([1, 2, 3, 5]))] for _ in range(2000)], "search-defs")
        tie_import(ctx, res2, R, [gen_doc(rng) for _ in range(1500)], "search-import")
    except core.CheckBroken as ex:
        res.notes.append("search aborted: %s" % ex)
    res.extra["search_cases"] = res2.evaluations
    for v in res2.violations:
        if v["concrete"] and v.get("key") is None:
            res.violations.append(dict(v, what="search: " + v["what"]))
            if sum(1 for x in res.violations if x.get("key") is None) > 10:
                break


def replay(ctx, res, rp):
    R = Runner(ctx)
    bad = 0
    if rp.get("kind") == "args":
        got = R.impl_parse(rp["args"])
        print("args      : %s\nrecovered : %s\nspecified : %s" % (show(rp["args"]), got, rp["specified"]))
        bad = int(got != rp["specified"])
    elif rp.get("kind") == "cmd":
        got = R.impl(["split " + hx(enc(rp["cmd"], "latin-1"))])[0]
        print("cmd  : %s\ngot  : %s\nwant : %s" % (json.dumps(rp["cmd"]), got, rp["want"]))
        bad = int(got != rp["want"])
    elif rp.get("kind") == "defs":
        got = R.impl(["defs " + hx(enc("".join(d + ";" for d in rp["defs"]), "latin-1"))])[0]
        print("defs : %s\ngot  : %s\nwant : %s" % (rp["defs"], got, rp["want"]))
        bad = int(got != rp["want"])
    elif rp.get("kind") == "json":
        got = R.impl(["json " + hx(rp["json"].encode("utf-8"))])[0]
        print("json      : %s\nimport    : %s" % (rp["json"], got))
        if "specified" in rp:
            print("specified : %s" % rp["specified"])
            bad = int(rp["specified"] not in got.split(" || "))
        else:
            bad = int(got == rp.get("got"))
    else:
        print("replay: nothing to replay in this file (no concrete input)")
    if bad:
        print("VIOLATION property=C32 replay=(replayed) the stored input still fails on the real code")
    print("replay: %d discrepancy" % bad)
    return 1 if bad else 0

"""C34 — addon results are relayed faithfully.

theorems   Cppcheck.Addon.relay_wellformed (each well-formed line of an enabled severity exactly once, fields preserved, for any
           output length), relay_sound (nothing invented), convert_report_props (id = <addon>-<errorId>, severity enabled,
           message preserved), relay_failed_iff (failure <=> non-zero exit / non-'{' line / ill-typed member), convert_mkLine,
           convert_mkLine_filtered
C1         the real cppcheck binary runs a scripted addon (an executable printing generated lines and exiting with a chosen
           status); findings reported in --xml form (id, severity, message, all locations, cwe) and the presence of an
           internalError are compared with the model's relay of the same lines
P_impl     independent of the model: every well-formed line of an enabled severity appears exactly once with its fields; no
           crash (exit status is a normal cppcheck status), malformed output only ever yields skipped lines or internalError
"""
import json, os, re, stat, subprocess, shutil
import xml.etree.ElementTree as ET
from concurrent.futures import ThreadPoolExecutor
from .. import core

ID = "C34"
LEVEL = "proof"
RULE = ("one case = one addon output (1..10 lines: well-formed findings with one or several locations, disabled/none/internal "
        "severities, summaries, metrics, ill-typed or missing members, empty / Checking / non-JSON / non-brace lines) x addon exit "
        "status x enabled severities x optional suppression; non-trivial = at least 2 object lines")
EXPLANATION = ("Lean: relay of any addon output = exactly the well-formed enabled lines in order, failure iff exit!=0 / non-brace "
               "line / ill-typed member. Tie: scripted addon through the real binary, per-file and whole-program (ctu) phase. "
               "Outside the model: picojson's own JSON grammar (lines are generated from a grammar whose classification is "
               "unambiguous), addon process spawning, premium ids, file-list mode with >= 2 files per invocation.")
THEOREMS = ["Cppcheck.Addon.relay_wellformed", "Cppcheck.Addon.relay_sound", "Cppcheck.Addon.convert_report_props",
            "Cppcheck.Addon.relay_failed_iff", "Cppcheck.Addon.convert_mkLine", "Cppcheck.Addon.convert_mkLine_filtered",
            "Cppcheck.Addon.ctuInfo_all_addons"]
MODULES = ["Cppcheck.Props.C34"]

SEVS = ["error", "warning", "style", "performance", "portability", "information", "debug", "none", "internal", "bogus", ""]
SEVBIT = dict(error=0, warning=1, style=2, performance=3, portability=4, information=5, debug=6)
STRS = ["m1", "msg two", "a<b>&\"c'", "tab\\there", "é", "x" * 40, "", "see {line}"]


def gen_obj(rng, addon):
    """a JSON object (python dict, insertion order kept) + expected classification is left to the model"""
    k = rng.random()
    o = {}
    if k < 0.08:
        return {"summary": rng.choice(["s1", "s2"]), "data": [1, 2]}
    if k < 0.13:
        o["metric"] = {"fileName": "t.c", "function": "f", "id": "HIS-x", "lineNumber": 3, "value": 7} if rng.random() < 0.7 else 5
        if rng.random() < 0.5:
            o.update(file="t.c", linenr=1, column=1)
        return o
    # locations
    lk = rng.random()
    if lk < 0.6:
        o["file"] = rng.choice(["t.c", "t.c", "other.h", "dir/x.c"])
        o["linenr"] = rng.choice([1, 2, 3, 0, 77])
        o["column"] = rng.choice([0, 1, 5])
    elif lk < 0.85:
        o["loc"] = [dict(file=rng.choice(["t.c", "h.h"]), linenr=rng.choice([1, 2, 9]), column=rng.choice([1, 4]), info=rng.choice(["", "note", "a<b"]))
                    for _ in range(rng.choice([1, 2, 3]))]
    o["severity"] = rng.choice(SEVS[:6]) if rng.random() < 0.7 else rng.choice(SEVS)
    o["message"] = rng.choice(STRS)
    o["addon"] = addon
    o["errorId"] = rng.choice(["e1", "e2", "rule-1.2", "logChecker", "x"])
    o["extra"] = rng.choice(["", "Advisory"])
    if rng.random() < 0.2:
        o["cwe"] = rng.choice([398, 0, 476])
    if rng.random() < 0.1:
        o["hash"] = rng.choice([1, 123456789])
    # damage
    d = rng.random()
    if d < 0.22:
        kind = rng.choice(["drop", "type", "loc"])
        if kind == "drop":
            key = rng.choice([x for x in o if x not in ("extra",)])
            del o[key]
        elif kind == "type":
            key = rng.choice(list(o))
            o[key] = rng.choice([None, True, 1.5, [1], {"a": 1}, "str", 3]) if key != "loc" else rng.choice(["x", 3, {"file": "t.c"}])
        elif "loc" in o and o["loc"]:
            it = rng.randrange(len(o["loc"]))
            o["loc"][it] = rng.choice([5, "s", {"file": "t.c", "linenr": 1, "column": 1}, {"file": 3, "linenr": 1, "column": 1, "info": ""}])
    return o


def scalar(v):
    if isinstance(v, bool) or v is None:
        return "o"
    if isinstance(v, int):
        return "i%d" % v
    if isinstance(v, str):
        return "s" + core.hx(v.encode("utf-8").decode("latin-1"))
    return "o"


def enc_fields(d, skip=()):
    items = ["%s=%s" % (core.hx(k), scalar(v)) for k, v in d.items() if k not in skip]
    return ",".join(items) if items else "."


def enc_line(l):
    if l["kind"] != "obj":
        return dict(empty="E", checking="C", notbrace="N", badjson="B")[l["kind"]]
    o = l["obj"]
    if "loc" not in o:
        loc = "a"
    elif not isinstance(o["loc"], list):
        loc = "n"
    else:
        loc = "r" + ";".join(enc_fields(it) if isinstance(it, dict) else "x" for it in o["loc"])
    met = "-" if "metric" not in o else ("t" if isinstance(o["metric"], dict) else "f")
    return "O:%s:%s:%s" % (enc_fields(o, skip=()), loc, met)


def gen_lines(rng, addon):
    out = []
    for _ in range(rng.choice([1, 2, 3, 4, 6, 10])):
        k = rng.random()
        if k < 0.07:
            out.append(dict(kind="empty", text=""))
        elif k < 0.13:
            out.append(dict(kind="checking", text="Checking t.c..."))
        elif k < 0.17:
            out.append(dict(kind="notbrace", text=rng.choice(["hello world", "[1,2]", " {\"a\":1}", "Traceback (most recent call last):"])))
        elif k < 0.23:
            out.append(dict(kind="badjson", text=rng.choice(['{"a":}', '{"file":"t.c"', "{'a':1}", '{"a" 1}'])))
        else:
            o = gen_obj(rng, addon)
            out.append(dict(kind="obj", obj=o, text=json.dumps(o, ensure_ascii=False)))
    return out


def write_addon(d, name, lines, exitcode, ctu_lines=None):
    open(os.path.join(d, "lines.txt"), "w", encoding="utf-8").write("".join(l["text"] + "\n" for l in lines))
    open(os.path.join(d, "ctu.txt"), "w", encoding="utf-8").write("".join(l["text"] + "\n" for l in (ctu_lines or [])))
    sh = os.path.join(d, name + ".sh")
    open(sh, "w").write("#!/bin/sh\nfor a in \"$@\"; do last=\"$a\"; done\ncase \"$last\" in\n *.ctu-info) cat '%s/ctu.txt'; exit 0;;\nesac\ncat '%s/lines.txt'\nexit %d\n" % (d, d, exitcode))
    os.chmod(sh, os.stat(sh).st_mode | stat.S_IEXEC)
    cfg = dict(executable=sh)
    if ctu_lines is not None:
        cfg["ctu"] = True
    open(os.path.join(d, name + ".json"), "w").write(json.dumps(cfg))


def parse_xml(err_text, addon):
    """findings of the addon (and internalError) from --xml output on stderr"""
    start = err_text.find("<?xml")
    if start < 0:
        return None
    try:
        root = ET.fromstring(err_text[start:])
    except ET.ParseError:
        return None
    res = []
    for e in root.iter("error"):
        i = e.get("id")
        if not (i.startswith(addon + "-") or i == "internalError"):
            continue
        locs = [(l.get("file"), l.get("line"), l.get("column"), l.get("info") or "") for l in e.findall("location")]
        res.append(dict(id=i, sev=e.get("severity"), msg=e.get("msg"), cwe=e.get("cwe"), locs=locs))
    return res


def model_findings(mo):
    """driver output -> (failed, [finding dicts in the xml vocabulary])"""
    parts = mo.split(" ")
    failed = parts[0] == "failed"
    fs = []
    for p in parts[1:]:
        if not p:
            continue
        i, sev, msg, locs, cwe, h = p.split("|")
        L = []
        for l in [x for x in locs.split(",") if x]:
            f, ln, c, info = l.split("@")
            L.append((core.unhx(f).decode("latin-1").encode("latin-1").decode("utf-8"), ln, c, core.unhx(info).decode("latin-1").encode("latin-1").decode("utf-8")))
        # XML lists the call stack newest first
        L = list(reversed(L))
        fs.append(dict(id=core.unhx(i).decode("latin-1").encode("latin-1").decode("utf-8"), sev=sev,
                       msg=core.unhx(msg).decode("latin-1").encode("latin-1").decode("utf-8"), cwe=None if cwe in ("~", "0") else cwe, locs=L))
    return failed, fs


def fix_invalid(s):
    """ErrorMessage::fixInvalidChars as applied by toXML to the message (the XML channel's own sanitising, property C26)"""
    out = ""
    for b in s.encode("utf-8"):
        out += chr(b) if 0x20 <= b < 0x7f else "\\%03o" % b
    return out


def norm(f, model=False):
    return (f["id"], f["sev"], fix_invalid(f["msg"]) if model else f["msg"], tuple(f["locs"]), f["cwe"])


def run_case(ctx, k, case):
    d = os.path.join(ctx.tmp, "c%d" % k)
    os.makedirs(d, exist_ok=True)
    open(os.path.join(d, "t.c"), "w").write("void f(void)\n{\n  int x = 1;\n  (void)x;\n}\n")
    write_addon(d, case["addon"], case["lines"], case["exitcode"], case.get("ctu"))
    args = [ctx.cppcheck, "-q", "--xml", "--error-exitcode=9", "--addon=%s.json" % case["addon"]]
    en = [s for s in ("warning", "style", "performance", "portability", "information") if s in case["enabled"]]
    if en:
        args.append("--enable=" + ",".join(en))
    if "debug" in case["enabled"]:
        args.append("--debug-warnings")
    if case.get("suppress"):
        args.append("--suppress=" + case["suppress"])
    if case.get("builddir"):
        os.makedirs(os.path.join(d, "bd"), exist_ok=True)
        args.append("--cppcheck-build-dir=bd")
    args += case.get("extra", [])
    args.append("t.c")
    rc, so, se = core.sh(args, cwd=d, timeout=120)
    return d, rc, so, se


def evaluate(ctx, res, drv, case, k, run):
    d, rc, so, se = run
    addon = case["addon"]
    desc = dict(lines=[l["text"] for l in case["lines"]], exitcode=case["exitcode"], enabled=sorted(case["enabled"]), suppress=case.get("suppress"))
    if rc not in (0, 9):
        res.violation("cppcheck terminated abnormally (status %s) on addon output" % rc, dict(case=desc, stderr=se[-1500:]), concrete=True, key=None)
        return None
    got = parse_xml(se, addon)
    if got is None:
        res.violation("cppcheck --xml output not parsable after addon run", dict(case=desc, stderr=se[-1500:]), concrete=True, key=None)
        return None
    # cppcheck's CLI: --enable=style also enables warning, performance and portability
    eff = set(case["enabled"]) | {"error"}
    if "style" in eff:
        eff |= {"warning", "performance", "portability"}
    case = dict(case, enabled=eff)
    mask = sum(1 << SEVBIT[s] for s in eff)
    op = "relay %d %d %s" % (case["exitcode"], mask, " ".join(enc_line(l) for l in case["lines"]))
    rc2, mo, me = core.run_lines(drv, [], [op])
    if not mo or mo[0] == "bad-op":
        raise core.CheckBroken("C34 driver rejected op: " + op[:300])
    failed, want = model_findings(mo[0])
    # findings of severity internal (-logChecker notes) are consumed by the checkers report and never printed
    want = [f for f in want if f["sev"] != "internal"]
    sup = case.get("suppress")
    if sup:
        want = [f for f in want if f["id"] != sup]
    got_add = [f for f in got if f["id"] != "internalError"]
    got_int = [f for f in got if f["id"] == "internalError"]
    ok = [norm(f) for f in got_add] == [norm(f, True) for f in want] and (len(got_int) > 0) == failed
    nobj = sum(1 for l in case["lines"] if l["kind"] == "obj")
    res.case("relay|" + op + "|" + str(sup), nobj >= 2, dict(case=desc, impl=[norm(f) for f in got], model=mo[0][:300]) if k % 9 == 0 else None)
    res.count("lines:%d" % len(case["lines"]))
    res.count("failed" if failed else "ok")
    for l in case["lines"]:
        res.count("kind:" + l["kind"])
    # exit status: 9 iff something non-internal was reported (addon finding or internalError); other built-in findings none for t.c
    reported = [f for f in got if f["sev"] != "internal"]
    # other built-in findings (e.g. debug messages, unmatchedSuppression) also set the status: only judge runs without them
    start = se.find("<?xml")
    others = [e.get("id") for e in ET.fromstring(se[start:]).iter("error")
              if not (e.get("id").startswith(addon + "-") or e.get("id") in ("internalError", "checkersReport"))]
    if not others and (rc == 9) != (len(reported) > 0):
        res.violation("exit status %d does not reflect the reported addon findings (%d)" % (rc, len(reported)), dict(case=desc), concrete=True, key=None)
    # P_impl (independent): each well-formed single-location line of an enabled severity exactly once
    if case["exitcode"] == 0 and not any(l["kind"] == "notbrace" for l in case["lines"]):
        cut = False
        for l in case["lines"]:
            if l["kind"] != "obj":
                continue
            o = l["obj"]
            good = (set(o) >= {"file", "linenr", "column", "severity", "message", "addon", "errorId"} and "summary" not in o and "metric" not in o
                    and isinstance(o["file"], str) and type(o["linenr"]) is int and type(o["column"]) is int and all(isinstance(o[x], str) for x in ("severity", "message", "addon", "errorId"))
                    and type(o.get("cwe", 0)) is int and type(o.get("hash", 0)) is int)
            if not good:
                if "summary" in o:
                    continue
                cut = True    # later lines may legitimately be lost after an ill-typed one
                continue
            if cut:
                continue
            sev = o["severity"]
            if sev in case["enabled"] | {"error"} and sev in SEVBIT:
                i = addon + "-" + o["errorId"]
                if i == sup:
                    continue
                n = sum(1 for f in got_add if f["id"] == i and f["sev"] == sev and f["msg"] == fix_invalid(o["message"]) and f["locs"] and f["locs"][0][:3] == (o["file"], str(o["linenr"]), str(o["column"])))
                if n != 1:
                    res.violation("well-formed addon line of enabled severity reported %d times: %s" % (n, l["text"][:200]), dict(case=desc, got=[norm(f) for f in got]), concrete=True, key=None)
    return ok, dict(case=desc, impl=[norm(f) for f in got], model=mo[0][:600])


def gen_case(rng):
    addon = rng.choice(["myaddon", "misra2", "y2038x"])
    enabled = set(s for s in ("warning", "style", "performance", "portability", "information") if rng.random() < 0.7)
    if rng.random() < 0.1:
        enabled.add("debug")
    case = dict(addon=addon, lines=gen_lines(rng, addon), exitcode=rng.choice([0, 0, 0, 0, 0, 1, 3]), enabled=enabled)
    if rng.random() < 0.25:
        ids = [addon + "-" + l["obj"].get("errorId") for l in case["lines"] if l["kind"] == "obj" and isinstance(l["obj"].get("errorId"), str)]
        if ids:
            case["suppress"] = rng.choice(ids)
    if rng.random() < 0.3:
        case["builddir"] = True
    return case


def run(ctx, res):
    core.prove(ctx, res, MODULES, THEOREMS)
    drv = ctx.driver("drv_c34")
    rng = ctx.rng
    n = 300 if ctx.tier == "thorough" else 45
    cases = load_corpus() + [gen_case(rng) for _ in range(n)]
    with ThreadPoolExecutor(max_workers=8) as ex:
        runs = list(ex.map(lambda kc: run_case(ctx, kc[0], kc[1]), list(enumerate(cases))))
    bad = []
    for k, case in enumerate(cases):
        r = evaluate(ctx, res, drv, case, k, runs[k])
        shutil.rmtree(runs[k][0], ignore_errors=True)
        if r is not None:
            if r[0]:
                res.traces_validated += 1
            else:
                bad.append(r[1])
    res.oblig("correspondence:addon-relay", not bad, "correspondence",
              "" if not bad else "%d of %d addon outputs relayed differently from the model; first: %s" % (len(bad), len(cases), json.dumps(bad[0], ensure_ascii=False)[:1800]))
    # summaries of several addons must all reach the whole-program phase (with and without build dir)
    bad_s = []
    nsum = 12 if ctx.tier == "thorough" else 4
    for k in range(nsum):
        r = summary_case(ctx, res, drv, rng, 7000 + k, builddir=(k % 2 == 0))
        if r is not None:
            bad_s.append(r)
    res.oblig("correspondence:summaries-forwarded", not bad_s, "correspondence",
              "" if not bad_s else "%d of %d multi-addon runs: ctu-info seen by the whole-program phase differs from the model; first: %s" % (len(bad_s), nsum, json.dumps(bad_s[0])[:1200]))
    # whole-program phase: ill-typed output of a ctu addon must not terminate the process (fixed by 9260697)
    ctu_cases = [dict(addon="ctuaddon", lines=[], exitcode=0, enabled={"style"},
                      ctu=[dict(kind="obj", text='{"file":"t.c","linenr":"1","column":3,"severity":"style","message":"illtyped","addon":"ctuaddon","errorId":"e2"}')],
                      builddir=b) for b in (False, True)]
    for k, case in enumerate(ctu_cases):
        d, rc, so, se = run_case(ctx, 9000 + k, case)
        res.case("ctu|%s" % case["builddir"], True, None)
        got = parse_xml(se, "ctuaddon")
        if rc not in (0, 9) or got is None or not any(f["id"] == "internalError" for f in got):
            res.violation("ill-typed addon output in the whole-program phase: status %s, internalError reported: %s" % (rc, bool(got) and any(f["id"] == "internalError" for f in got)),
                          dict(case="ctu addon prints linenr as string", builddir=case["builddir"], stderr=se[-800:]), concrete=True, key=None)
        shutil.rmtree(d, ignore_errors=True)


def summary_case(ctx, res, drv, rng, k, builddir):
    """2..3 scripted ctu addons, each printing some summary lines (canonical JSON) and some findings in the per-file phase;
    in the whole-program phase each script copies the ctu-info it is given.  P_impl: every summary of every addon is there."""
    d = os.path.join(ctx.tmp, "s%d" % k)
    os.makedirs(d, exist_ok=True)
    open(os.path.join(d, "t.c"), "w").write("void f(void)\n{\n  int x = 1;\n  (void)x;\n}\n")
    naddons = rng.choice([2, 2, 3])
    outs, args = [], [ctx.cppcheck, "-q", "--xml", "--enable=style"]
    for a in range(naddons):
        name = "sa%d" % a
        lines = []
        for j in range(rng.choice([1, 1, 2, 3])):      # every addon prints at least one summary: losing an earlier addon's is visible
            lines.append(dict(kind="obj", obj={"summary": "%s_%d" % (name, j)}, text='{"summary":"%s_%d"}' % (name, j)))
        if rng.random() < 0.5:
            o = dict(file="t.c", linenr=1, column=1, severity="style", message="m", addon=name, errorId="e", extra="")
            lines.insert(rng.randrange(len(lines) + 1), dict(kind="obj", obj=o, text=json.dumps(o)))
        outs.append(lines)
        open(os.path.join(d, name + ".txt"), "w").write("".join(l["text"] + "\n" for l in lines))
        sh = os.path.join(d, name + ".sh")
        open(sh, "w").write("#!/bin/sh\nfor a in \"$@\"; do last=\"$a\"; done\ncase \"$last\" in\n *.ctu-info) cat \"$last\" > '%s/seen_%s.txt'; exit 0;;\n *filelist*|*.txt) while read f; do cat \"$f\"; done < \"$last\" > '%s/seen_%s.txt'; exit 0;;\nesac\ncat '%s/%s.txt'\nexit 0\n" % (d, name, d, name, d, name))
        os.chmod(sh, os.stat(sh).st_mode | stat.S_IEXEC)
        open(os.path.join(d, name + ".json"), "w").write(json.dumps(dict(executable=sh, ctu=True)))
        args.append("--addon=%s.json" % name)
    if builddir:
        os.makedirs(os.path.join(d, "bd"), exist_ok=True)
        args.append("--cppcheck-build-dir=bd")
    args.append("t.c")
    rc, so, se = core.sh(args, cwd=d, timeout=120)
    op = "ctuinfo 63 " + " / ".join(" ".join(enc_line(l) for l in ls) or "E" for ls in outs)
    rc2, mo, me = core.run_lines(drv, [], [op])
    want = [core.unhx(x).decode() for x in (mo[0].split(" ")[1:] if mo and mo[0].startswith("ctu") else []) if x]
    seen = {}
    for a in range(naddons):
        p = os.path.join(d, "seen_sa%d.txt" % a)
        seen["sa%d" % a] = [json.loads(l)["summary"] for l in open(p).read().split("\n") if l.strip().startswith("{")] if os.path.exists(p) else None
    res.case("summaries|" + op + "|%s" % builddir, sum(len(x) for x in outs) >= 2, dict(addons=[[l["text"] for l in ls] for ls in outs], builddir=builddir, seen=seen, model=want) if k % 2 == 0 else None)
    shutil.rmtree(d, ignore_errors=True)
    all_expected = [l["obj"]["summary"] for ls in outs for l in ls if "summary" in l["obj"]]
    problems = []
    for a, got in seen.items():
        if got is None:
            if all_expected:
                problems.append("%s was not called for the whole-program phase" % a)
            continue
        if sorted(got) != sorted(all_expected):
            res.violation("addon summaries lost on the way to whole-program analysis (builddir=%s): %s received %s, the addons printed %s" % (builddir, a, got, all_expected),
                          dict(addons=[[l["text"] for l in ls] for ls in outs], builddir=builddir, seen=seen), concrete=True, key=None)
        # the addons run in the iteration order of Settings::addons (an unordered_set): compare up to the order of the addon
        # groups, but the summaries of ONE addon must keep their order
        within = all([x for x in got if x.startswith(n + "_")] == [x for x in want if x.startswith(n + "_")] for n in seen)
        if sorted(got) != sorted(want) or not within:
            problems.append("%s: impl %s model %s" % (a, got, want))
    return dict(problems=problems, builddir=builddir) if problems else None


def load_corpus():
    p = os.path.join(core.VERIF, "corpus", "C34", "cases.json")
    if not os.path.exists(p):
        return []
    cs = json.load(open(p))
    for c in cs:
        c["enabled"] = set(c["enabled"])
    return cs


def replay(ctx, res, rp):
    print("replay: re-run ./check.py C34 (cases are regenerated from VERIF_SEED=%s)" % rp.get("seed"))
    return 0

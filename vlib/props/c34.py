"""C34 — addon results are relayed faithfully.

theorems   Cppcheck.Addon.*  (Props/C34.lean): relayShown_spec / relayShown_wellformed / relayShown_complete (what the binary
           prints = relay, then suppressions, then the duplicate filter), relay_general / relay_ok_general (every output),
           convert_file_general / convert_general / convert_noloc_general / convert_report_props (one object, any shape),
           relayShown_suppressions, relay_failed_iff / outClass_failed_iff, ctuInfo_general, lineOf_notBrace_iff, ...
C1         the real cppcheck binary runs a scripted addon (an executable printing a generated text and exiting with a chosen
           status); findings reported in --xml form (id, severity, message, all locations, cwe), the presence of an
           internalError and the exit status are compared with the model run on the RAW TEXT of the same output
C2         the JSON reader (picojson of the working tree, harness/c34.cpp) turns every line that starts with `{` into the
           member view the model consumes; python's own view of the lines it generated is compared with it on every line
P_impl     independent of the model: every well-formed line of an enabled, unsuppressed severity is reported with its fields,
           once per rendered text; no crash (exit status is a normal cppcheck status) for every class of malformed output
"""
import json, os, stat, shutil, time
import xml.etree.ElementTree as ET
from concurrent.futures import ThreadPoolExecutor
from .. import core

ID = "C34"
LEVEL = "proof"
RULE = ("one case = one addon output as raw text (0..10 lines: well-formed findings with file members / a loc array / no location, "
        "disabled/none/internal severities, summaries, metrics, ill-typed or missing members, duplicate lines, near-JSON, empty / "
        "Checking / non-JSON / non-brace lines, CR, missing final newline) x addon exit status x enabled severities x suppressions "
        "(id / id:file / id:file:line / *:file); non-trivial = at least 2 object lines")
EXPLANATION = ("Lean (proved): what is printed for one addon invocation = relay (conversion of every object line in front of the first "
               "ill-typed one, in order), then the suppression matcher (abstract: any function of id / last location / hash), then the "
               "duplicate filter (first finding per rendered text); failure iff exit!=0 / non-brace line / ill-typed member; summaries of "
               "all addons reach the ctu-info when no object is ill-typed. Clause by clause: 'reports each finding ... with location, "
               "severity, message' = theorem (once per rendered text; finding F34a: cwe/info of a later finding with the same rendered "
               "text are lost); 'applies suppressions like any other finding' = theorem over an abstract matcher + tie on the glob-free "
               "fragment (the matcher itself is C23's); 'summaries forwarded' = theorem + tie; 'malformed output = skipped lines or "
               "internal error' = theorem; 'never a crash' = NOT a theorem (the model has no such outcome): observed exit status / signal "
               "of the real binary for every malformed-output class on every run. Tie: scripted addon through the real binary, raw text "
               "classified by the Lean model, JSON member view by the real picojson (harness). Outside the model: picojson's grammar "
               "itself (a parameter of the model, supplied by the real reader), addon process spawning, premium ids, file-list mode "
               "with >= 2 files per invocation, templates other than the default one.")
THEOREMS = ["Cppcheck.Addon.relayShown_spec", "Cppcheck.Addon.relayShown_wellformed", "Cppcheck.Addon.relayShown_complete",
            "Cppcheck.Addon.relayShown_once_per_line_counterexample", "Cppcheck.Addon.relayShown_once_per_line_partial",
            "Cppcheck.Addon.relayShown_loses_cwe_counterexample", "Cppcheck.Addon.relayShown_suppressions",
            "Cppcheck.Addon.relay_general", "Cppcheck.Addon.relay_ok_general",
            "Cppcheck.Addon.relay_wellformed", "Cppcheck.Addon.relay_sound", "Cppcheck.Addon.convert_report_props",
            "Cppcheck.Addon.convert_file_general", "Cppcheck.Addon.convert_general", "Cppcheck.Addon.convert_noloc_general",
            "Cppcheck.Addon.locsOf_cases",
            "Cppcheck.Addon.relay_failed_iff", "Cppcheck.Addon.outClass_failed_iff", "Cppcheck.Addon.exitStatus_iff",
            "Cppcheck.Addon.convert_mkLine", "Cppcheck.Addon.convert_mkLine_filtered",
            "Cppcheck.Addon.ctuInfo_general", "Cppcheck.Addon.ctuInfo_all_addons",
            "Cppcheck.Addon.lineOf_notBrace_iff", "Cppcheck.Addon.lineOf_brace"]
MODULES = ["Cppcheck.Props.C34"]
ASSUMPTIONS = [
    "the duplicate filters compare the text rendered from the DEFAULT templates (the tie runs with --xml and no --template); the model's "
    "Finding.key is injective exactly as far as that text is: messages containing template placeholders ({line}, {file} ...) or a "
    "newline, and file names that Path::simplifyPath rewrites, are not generated",
    "duplicate member names inside one JSON object: picojson keeps the last one (std::map), the harness reports what picojson kept",
    "the suppression matcher is a parameter of the theorems; the tie instantiates it with the glob-free fragment "
    "<id|*>[:<file>[:<line>]] (property C23 owns the matcher)",
    "'never a crash' is observed, not proved: exit status in {0, error-exitcode} and no signal for every class of outClass",
]

SEVS = ["error", "warning", "style", "performance", "portability", "information", "debug", "none", "internal", "bogus", ""]
SEVBIT = dict(error=0, warning=1, style=2, performance=3, portability=4, information=5, debug=6)
STRS = ["m1", "msg two", "a<b>&\"c'", "tab\\there", "é", "x" * 40, "", "see line"]
FILE0 = "t.c"


def names(j):
    """file names of case j inside a multi-file process (None: a process of its own); no name is a suffix of another"""
    if j is None:
        return dict(t="t.c", o="other.h", d="dir/x.c", h="h.h", tag="")
    return dict(t="t%02d.c" % j, o="o%02d.h" % j, d="d%02d/x.c" % j, h="h%02d.h" % j, tag=" #%02d" % j)
INT64 = (-(1 << 63), (1 << 63) - 1)


def is_int(v):
    return type(v) is int and INT64[0] <= v <= INT64[1]


def gen_obj(rng, addon, nm):
    """a JSON object (python dict, insertion order kept)"""
    k = rng.random()
    o = {}
    if k < 0.08:
        return {"summary": rng.choice(["s1", "s2"]), "data": [1, 2]}
    if k < 0.13:
        o["metric"] = {"fileName": nm["t"], "function": "f", "id": "HIS-x", "lineNumber": 3, "value": 7} if rng.random() < 0.7 else 5
        if rng.random() < 0.5:
            o.update(file=nm["t"], linenr=1, column=1)
        return o
    # locations
    lk = rng.random()
    if lk < 0.55:
        o["file"] = rng.choice([nm["t"], nm["t"], nm["o"], nm["d"]])
        o["linenr"] = rng.choice([1, 2, 3, 0, 77])
        o["column"] = rng.choice([0, 1, 5])
    elif lk < 0.85:
        o["loc"] = [dict(file=rng.choice([nm["t"], nm["h"]]), linenr=rng.choice([1, 2, 9]), column=rng.choice([1, 4]), info=rng.choice(["", "note", "a<b"]))
                    for _ in range(rng.choice([0, 1, 1, 2, 3]))]
    o["severity"] = rng.choice(SEVS[:6]) if rng.random() < 0.7 else rng.choice(SEVS)
    # (inside a multi-file process the executor's duplicate filter spans the files: messages are made case-specific there)
    o["message"] = rng.choice(STRS) + nm["tag"]
    o["addon"] = addon
    o["errorId"] = rng.choice(["e1", "e2", "rule-1.2", "logChecker", "x"])
    o["extra"] = rng.choice(["", "Advisory"])
    if rng.random() < 0.2:
        o["cwe"] = rng.choice([398, 0, 476])
    if rng.random() < 0.1:
        o["hash"] = rng.choice([1, 123456789])
    # damage
    d = rng.random()
    if d < 0.2:
        kind = rng.choice(["drop", "type", "loc"])
        if kind == "drop":
            key = rng.choice([x for x in o if x not in ("extra",)])
            del o[key]
        elif kind == "type":
            key = rng.choice(list(o))
            o[key] = rng.choice([None, True, 1.5, [1], {"a": 1}, "str", 3, 1 << 63, 1.0]) if key != "loc" else rng.choice(["x", 3, {"file": nm["t"]}])
        elif "loc" in o and o["loc"]:
            it = rng.randrange(len(o["loc"]))
            o["loc"][it] = rng.choice([5, "s", {"file": nm["t"], "linenr": 1, "column": 1}, {"file": 3, "linenr": 1, "column": 1, "info": ""}])
    if rng.random() < 0.15:
        # another member order: nothing may depend on it
        ks = list(o)
        rng.shuffle(ks)
        o = {k2: o[k2] for k2 in ks}
    return o


def scalar(v):
    if isinstance(v, bool) or v is None:
        return "o"
    if isinstance(v, int):
        return "i%d" % v if is_int(v) else "o"      # picojson: out of int64 range => double
    if isinstance(v, str):
        return "s" + core.hx(v.encode("utf-8").decode("latin-1"))
    return "o"


def enc_fields(d):
    items = ["%s=%s" % (core.hx(k.encode("utf-8").decode("latin-1")), scalar(d[k])) for k in sorted(d, key=lambda x: x.encode("utf-8"))]
    return ",".join(items) if items else "."


def enc_obj(o):
    """python's own member view of an object (the encoding harness/c34.cpp prints for what picojson read)"""
    if "loc" not in o:
        loc = "a"
    elif not isinstance(o["loc"], list):
        loc = "n"
    else:
        loc = "r" + ";".join(enc_fields(it) if isinstance(it, dict) else "x" for it in o["loc"])
    met = "-" if "metric" not in o else ("t" if isinstance(o["metric"], dict) else "f")
    return "O:%s:%s:%s" % (enc_fields(o), loc, met)


def enc_line(l):
    """encoding of an abstract line for the ctuinfo op"""
    if l["kind"] != "obj":
        return dict(empty="E", checking="C", notbrace="N", badjson="B")[l["kind"]]
    return enc_obj(l["obj"])


KINDCH = dict(empty="E", checking="C", notbrace="N", badjson="B", obj="O")
NOTBRACE = ["hello world", "[1,2]", " {\"a\":1}", "Traceback (most recent call last):", "Checking", "Checkingx t.c", "\r", "\t{}", "}", "x{",
            "checking t.c...", "1", "\"{\""]
CHECKING = ["Checking t.c...", "Checking ", "Checking {\"a\":1}", "Checking  x"]
BADJSON = ['{"a":}', '{"file":"t.c"', "{'a':1}", '{"a" 1}', "{", '{"a":1,}', '{"a":tru}', '{"a":"\x01"}', '{,}', '{"a":1 "b":2}']


def obj_text(rng, o):
    """JSON text of the object, sometimes in a spelling python would not choose (near-JSON that picojson accepts)"""
    k = rng.random()
    if k < 0.70:
        return json.dumps(o, ensure_ascii=False)
    if k < 0.78:
        return json.dumps(o, ensure_ascii=True)                    # \uXXXX escapes
    if k < 0.84:
        return json.dumps(o, ensure_ascii=False, separators=(" , ", " : "))
    if k < 0.90:
        return json.dumps(o, ensure_ascii=False) + rng.choice([" x", "}", " {\"a\":1}", "\r", "\t", ",1"])   # picojson stops after the value
    if k < 0.95:
        return json.dumps(o, ensure_ascii=False, indent=None).replace("{", "{ ", 1)
    # a duplicate member: the last one wins
    t = json.dumps(o, ensure_ascii=False)
    return '{"severity":"bogus",' + t[1:] if "severity" in o else t


def gen_lines(rng, addon, nm):
    out = []
    for _ in range(rng.choice([0, 1, 2, 3, 4, 6, 10])):
        k = rng.random()
        if k < 0.07:
            out.append(dict(kind="empty", text=""))
        elif k < 0.13:
            out.append(dict(kind="checking", text=rng.choice(CHECKING)))
        elif k < 0.17:
            out.append(dict(kind="notbrace", text=rng.choice(NOTBRACE)))
        elif k < 0.24:
            out.append(dict(kind="badjson", text=rng.choice(BADJSON)))
        elif k < 0.32 and any(l["kind"] == "obj" for l in out):
            # a duplicate of an earlier line: identical, or differing only in what is not rendered (cwe / info of a single loc)
            src = rng.choice([l for l in out if l["kind"] == "obj"])["obj"]
            o = json.loads(json.dumps(src))
            m = rng.random()
            if m < 0.4 and isinstance(o.get("loc"), list) and len(o["loc"]) == 1 and isinstance(o["loc"][0], dict):
                o["loc"][0]["info"] = rng.choice(["", "other", "note"])
            elif m < 0.7:
                o["cwe"] = rng.choice([398, 476, 1])
            elif m < 0.8 and isinstance(o.get("loc"), list) and len(o["loc"]) >= 2 and isinstance(o["loc"][0], dict) and isinstance(o.get("message"), str):
                o["loc"][0]["info"] = rng.choice(["", o["message"]])
            out.append(dict(kind="obj", obj=o, text=obj_text(rng, o)))
        else:
            o = gen_obj(rng, addon, nm)
            out.append(dict(kind="obj", obj=o, text=obj_text(rng, o)))
    return out


def case_text(case):
    t = "\n".join(l["text"] for l in case["lines"])
    if case["lines"] and not case.get("no_final_newline"):
        t += "\n"
    return t


def write_addon(d, name, cases, ctu_lines=None):
    """one executable serving every case of the process: the output is chosen by the name of the dump file (last argument)"""
    open(os.path.join(d, "ctu.txt"), "w", encoding="utf-8").write("".join(l["text"] + "\n" for l in (ctu_lines or [])))
    branches = ""
    for c in cases:
        stem = names(c.get("idx"))["t"][:-2]
        open(os.path.join(d, "lines_%s.txt" % stem), "w", encoding="utf-8", newline="").write(case_text(c))
        branches += " *%s.*) cat '%s/lines_%s.txt'; exit %d;;\n" % (stem, d, stem, c["exitcode"])
    sh = os.path.join(d, name + ".sh")
    open(sh, "w").write("#!/bin/sh\nfor a in \"$@\"; do last=\"$a\"; done\ncase \"$last\" in\n *.ctu-info) cat '%s/ctu.txt'; exit 0;;\n%sesac\nexit 0\n" % (d, branches))
    os.chmod(sh, os.stat(sh).st_mode | stat.S_IEXEC)
    cfg = dict(executable=sh)
    if ctu_lines is not None:
        cfg["ctu"] = True
    open(os.path.join(d, name + ".json"), "w").write(json.dumps(cfg))


def parse_xml(err_text, addon, files=("t.c",)):
    """per checked file: the findings of the addon and internalError from --xml output on stderr (attributed through file0 / the
    location); also the ids of all other findings"""
    start = err_text.find("<?xml")
    if start < 0:
        return None, None
    try:
        root = ET.fromstring(err_text[start:])
    except ET.ParseError:
        return None, None
    res, others = {f: [] for f in files}, []
    for e in root.iter("error"):
        i = e.get("id")
        # (the id is built from the "addon" MEMBER of the line: the generator's type damage can set it to "str")
        if not (i.startswith(addon + "-") or i.startswith("str-") or i == "internalError"):
            if i != "checkersReport":
                others.append(i)
            continue
        locs = [(l.get("file"), l.get("line"), l.get("column"), l.get("info") or "") for l in e.findall("location")]
        f0 = e.get("file0") or (locs[0][0] if locs else None)
        if f0 not in res:
            others.append("%s attributed to %s" % (i, f0))
            continue
        res[f0].append(dict(id=i, sev=e.get("severity"), msg=e.get("msg"), cwe=e.get("cwe"), locs=locs))
    return res, others


def u8(hexs):
    return core.unhx(hexs).decode("latin-1").encode("latin-1").decode("utf-8")


def model_findings(parts):
    """driver finding fields -> finding dicts in the xml vocabulary"""
    fs = []
    for p in parts:
        if not p:
            continue
        i, sev, msg, locs, cwe, h = p.split("|")
        L = []
        for l in [x for x in locs.split(",") if x]:
            f, ln, c, info = l.split("@")
            L.append((u8(f), ln, c, u8(info)))
        # XML lists the call stack newest first
        L = list(reversed(L))
        fs.append(dict(id=u8(i), sev=sev, msg=u8(msg), cwe=None if cwe in ("~", "0") else cwe, locs=L))
    return fs


def fix_invalid(s):
    """ErrorMessage::fixInvalidChars as applied by toXML to the message (the XML channel's own sanitising, property C26)"""
    out = ""
    for b in s.encode("utf-8"):
        out += chr(b) if 0x20 <= b < 0x7f else "\\%03o" % b
    return out


def norm(f, model=False):
    return (f["id"], f["sev"], fix_invalid(f["msg"]) if model else f["msg"], tuple(f["locs"]), f["cwe"])


def supp_args(supps):
    out = []
    for (i, f, n) in supps:
        s = i if i is not None else "*"
        if f is not None:
            s += ":" + f
            if n is not None:
                s += ":%d" % n
        out.append("--suppress=" + s)
    return out


def enc_supps(supps):
    def h(x):
        return "~" if x is None else core.hx(x)
    return ",".join("%s/%s/%s" % (h(i), h(f), "~" if n is None else str(n)) for (i, f, n) in supps) or "."


def run_proc(ctx, k, cases):
    """one cppcheck process checking the files of all the given cases (they share addon name, severities, suppressions, build dir)"""
    c0 = cases[0]
    d = os.path.join(ctx.tmp, "c%d" % k)
    os.makedirs(d, exist_ok=True)
    files = [names(c.get("idx"))["t"] for c in cases]
    for f in files:
        open(os.path.join(d, f), "w").write("void f(void)\n{\n  int x = 1;\n  (void)x;\n}\n")
    write_addon(d, c0["addon"], cases, c0.get("ctu"))
    args = [ctx.cppcheck, "-q", "--xml", "--error-exitcode=9", "--addon=%s.json" % c0["addon"]]
    en = [s for s in ("warning", "style", "performance", "portability", "information") if s in c0["enabled"]]
    if en:
        args.append("--enable=" + ",".join(en))
    if "debug" in c0["enabled"]:
        args.append("--debug-warnings")
    args += supp_args(c0.get("supps", []))
    if c0.get("builddir"):
        os.makedirs(os.path.join(d, "bd"), exist_ok=True)
        args.append("--cppcheck-build-dir=bd")
    args += c0.get("extra", [])
    args += files
    rc, so, se = core.sh(args, cwd=d, timeout=300)
    shutil.rmtree(d, ignore_errors=True)
    return rc, so, se


def eff_enabled(case):
    # cppcheck's CLI: --enable=style also enables warning, performance and portability
    # --debug-warnings does not enable Severity::debug in Settings::severity: an addon finding of severity debug is never shown
    eff = (set(case["enabled"]) - {"debug"}) | {"error"}
    if "style" in eff:
        eff |= {"warning", "performance", "portability"}
    return eff


def brace_lines(text):
    """the lines std::getline yields that go to the JSON reader (python's own reading of executeAddon's loop)"""
    ls = text.split("\n")
    if ls and ls[-1] == "":
        ls.pop()
    return [l for l in ls if l and not l.startswith("Checking ") and l[0] == "{"]


def hexu(s):
    return core.hx(s.encode("utf-8").decode("latin-1"))


def py_supp(supps, f, file0=FILE0):
    """python's own reading of the glob-free suppression fragment for a finding tuple"""
    for (i, fl, n) in supps:
        if i is not None and i != f["id"]:
            continue
        last = f["xlocs"][-1] if f["xlocs"] else None
        if fl is not None and fl != (last[0] if last else file0):
            continue
        if n is not None and (last is None or last[1] != n):
            continue
        return True
    return False


def good_finding(o, addon):
    """the finding a well-formed object line describes (python's own reading), None if the line is not a well-formed finding"""
    if "summary" in o or "metric" in o:
        return None
    if not all(isinstance(o.get(x), str) for x in ("severity", "message", "addon", "errorId")):
        return None
    if "cwe" in o and not is_int(o["cwe"]) or "hash" in o and not is_int(o["hash"]):
        return None
    if "file" in o:
        if not (isinstance(o["file"], str) and is_int(o.get("linenr")) and is_int(o.get("column"))):
            return None
        xlocs = [(o["file"], o["linenr"], o["column"], "")]
    elif "loc" in o:
        if not isinstance(o["loc"], list):
            return None
        xlocs = []
        for it in o["loc"]:
            if not (isinstance(it, dict) and isinstance(it.get("file"), str) and is_int(it.get("linenr")) and is_int(it.get("column")) and isinstance(it.get("info"), str)):
                return None
            xlocs.append((it["file"], it["linenr"], it["column"], it["info"]))
    else:
        xlocs = []
    return dict(id=o["addon"] + "-" + o["errorId"], sev=o["severity"], msg=o["message"], xlocs=xlocs,
                cwe=str(o["cwe"]) if o.get("cwe") else None)


def render_key(f):
    if len(f["xlocs"]) >= 2:
        L = tuple((a, b, c, i or f["msg"]) for (a, b, c, i) in f["xlocs"])
    else:
        L = tuple((a, b, c) for (a, b, c, i) in f["xlocs"])
    return (f["id"], f["sev"], f["msg"], L)


def xml_tuple(f):
    return (f["id"], f["sev"], fix_invalid(f["msg"]), tuple((a, str(b), str(c), i) for (a, b, c, i) in reversed(f["xlocs"])), f["cwe"])


def p_impl(res, case, got_add, desc):
    """model-free: every well-formed line of an enabled, unsuppressed severity in front of the first ill-formed object is reported
    with all its fields, once per rendered text"""
    if case["exitcode"] != 0 or any(l["kind"] == "notbrace" for l in case["lines"]):
        return
    eff = eff_enabled(case)
    groups, order = {}, []
    for l in case["lines"]:
        if l["kind"] != "obj":
            continue
        o = l["obj"]
        f = good_finding(o, case["addon"])
        if f is None:
            if "summary" in o:
                continue
            break           # a metric or an ill-formed object: later lines may legitimately be lost - not judged
        if f["sev"] not in SEVBIT or f["sev"] not in eff or py_supp(case.get("supps", []), f, names(case.get("idx"))["t"]):
            continue
        k = render_key(f)
        if k not in groups:
            groups[k] = []
            order.append(k)
        groups[k].append((f, l["text"]))
    got = [norm(g) for g in got_add]
    for k in order:
        first, text = groups[k][0]
        n = got.count(xml_tuple(first))
        if n != 1:
            res.violation("well-formed addon line of an enabled severity reported %d times: %s" % (n, text[:200]), dict(case=desc, got=got), concrete=True, key=None)
        for (f, t) in groups[k][1:]:
            if xml_tuple(f) != xml_tuple(first) and xml_tuple(f) not in got:
                res.violation("addon finding not reported because an earlier one renders to the same text (differs in cwe / info): %s" % t[:200],
                              dict(case=desc, got=got), concrete=True, key="dup-text-loses-cwe-or-info")


def gen_supps(rng, addon, cases):
    fs = [(f, names(c.get("idx"))["t"]) for c in cases for f in (good_finding(l["obj"], addon) for l in c["lines"] if l["kind"] == "obj") if f]
    supps = []
    for _ in range(rng.choice([1, 1, 2])):
        if fs and rng.random() < 0.85:
            f, file0 = rng.choice(fs)
            last = f["xlocs"][-1] if f["xlocs"] else (file0, 0, 0, "")
            m = rng.random()
            if m < 0.5:
                s1 = (f["id"], None, None)
            elif m < 0.7:
                s1 = (f["id"], last[0], None)
            elif m < 0.9:
                s1 = (f["id"], last[0], rng.choice([last[1], last[1], 2]))
            else:
                s1 = (None, last[0], None)
        else:
            s1 = (rng.choice([addon + "-nothing", "internalError"]), None, None)
        if s1 not in supps:          # the command line rejects a suppression given twice
            supps.append(s1)
    return supps


def gen_batch(rng, size):
    """cases that run in ONE cppcheck process: same addon name, severities, suppressions, build dir; own files and output each"""
    addon = rng.choice(["myaddon", "misra2", "y2038x"])
    enabled = set(s for s in ("warning", "style", "performance", "portability", "information") if rng.random() < 0.7)
    if rng.random() < 0.1:
        enabled.add("debug")
    cases = []
    for j in range(size):
        c = dict(addon=addon, idx=j if size > 1 else None, exitcode=rng.choice([0, 0, 0, 0, 0, 0, 1, 3]), enabled=enabled)
        c["lines"] = gen_lines(rng, addon, names(c["idx"]))
        if rng.random() < 0.15 and c["lines"] and c["lines"][-1]["text"] != "":
            c["no_final_newline"] = True          # (a final empty line without newline does not exist for getline)
        cases.append(c)
    supps = gen_supps(rng, addon, cases) if rng.random() < 0.35 else []
    bd = rng.random() < 0.3
    for c in cases:
        c["supps"] = supps
        c["builddir"] = bd
    return cases


MALFORMED = ("exit", "nonbrace", "illtyped", "skipped")


def model_ops(cases, view):
    ops = []
    for c in cases:
        t = case_text(c)
        mask = sum(1 << SEVBIT[s] for s in eff_enabled(c))
        ops.append("relay %d %d %s %s %s %s" % (c["exitcode"], mask, core.hx(names(c.get("idx"))["t"]), enc_supps(c.get("supps", [])), hexu(t),
                                                " ".join(view[b] for b in brace_lines(t))))
    return ops


def run(ctx, res):
    res.assumptions = list(ASSUMPTIONS)
    core.prove(ctx, res, MODULES, THEOREMS)
    drv = ctx.driver("drv_c34")
    hexe = ctx.harness("c34")
    rng = ctx.rng
    nb, size, nsingle = (60, 20, 60) if ctx.tier == "thorough" else (8, 20, 4)
    # processes: every corpus case and some generated ones on their own (exit status per case), the rest 20 files per process
    procs = [[c] for c in load_corpus()] + [gen_batch(rng, 1) for _ in range(nsingle)] + [gen_batch(rng, size) for _ in range(nb)]
    cases = [c for p in procs for c in p]
    texts = [case_text(c) for c in cases]

    t0 = time.time()
    # C2: the real JSON reader on every brace line (+ python's own view of the lines it built)
    blines = []
    for t in texts:
        blines += brace_lines(t)
    uniq = sorted(set(blines))
    rc, hv, he = core.run_lines(hexe, [], ["parse " + hexu(b) for b in uniq])
    if len(hv) != len(uniq):
        raise core.CheckBroken("C34 harness answered %d of %d lines: %s" % (len(hv), len(uniq), he[-300:]))
    view = dict(zip(uniq, hv))
    bad_v = []
    for c in cases:
        for l in c["lines"]:
            if l["kind"] in ("obj", "badjson"):
                want = "B" if l["kind"] == "badjson" else enc_obj(l["obj"])
                res.count("json:" + ("object" if want != "B" else "rejected"))
                if view.get(l["text"]) != want:
                    bad_v.append(dict(text=l["text"], picojson=view.get(l["text"]), python=want))
    res.oblig("correspondence:json-member-view", not bad_v, "correspondence",
              "" if not bad_v else "%d lines: the member view python assumes differs from what picojson reads; first: %s" % (len(bad_v), json.dumps(bad_v[0], ensure_ascii=False)[:900]))

    # model on the raw text
    ops = model_ops(cases, view)
    rc2, mo, me = core.run_lines(drv, [], ops)
    if len(mo) != len(ops) or any(x.startswith("bad-op") for x in mo):
        badi = next((i for i, x in enumerate(mo) if x.startswith("bad-op")), 0)
        raise core.CheckBroken("C34 driver rejected an op (%s): %s" % (mo[badi] if mo else me[-200:], ops[badi][:300]))

    # the real binary
    t1 = time.time()
    with ThreadPoolExecutor(max_workers=8) as ex:
        runs = list(ex.map(lambda kp: run_proc(ctx, kp[0], kp[1]), list(enumerate(procs))))
    res.extra["phase_s"] = dict(harness_and_model=round(t1 - t0, 1), binary=round(time.time() - t1, 1))

    bad, bad_k = [], []
    seen_class = {}
    k = -1
    for pi, proc in enumerate(procs):
        rc, so, se = runs[pi]
        files = [names(c.get("idx"))["t"] for c in proc]
        pdesc = [dict(text=case_text(c), exitcode=c["exitcode"], enabled=sorted(c["enabled"]), supps=c.get("supps"), builddir=bool(c.get("builddir")), file=f) for c, f in zip(proc, files)]
        res.count("process:%d-files:rc%s" % (len(proc), rc))
        gotall, others = parse_xml(se, proc[0]["addon"], files) if rc in (0, 9) else (None, None)
        if rc not in (0, 9):
            cls = sorted(set(mo[k + 1 + j].split(" ")[1] for j in range(len(proc))))
            res.violation("cppcheck terminated abnormally (status %s) on addon output (classes in the process: %s)" % (rc, cls),
                          dict(case=pdesc[0], cases=pdesc if len(proc) > 1 else None, stderr=se[-1500:]), concrete=True, key=None)
        elif gotall is None:
            res.violation("cppcheck --xml output not parsable after addon run", dict(case=pdesc[0], cases=pdesc if len(proc) > 1 else None, stderr=se[-1500:]), concrete=True, key=None)
        any_reported, want_exit = False, 0
        for j, case in enumerate(proc):
            k += 1
            parts = mo[k].split(" ")
            failed, cls, mexit, ie, kinds = parts[0] == "failed", parts[1], int(parts[2]), parts[3] == "1", parts[4][1:]
            want = model_findings(parts[5:])
            desc = pdesc[j]
            # line classification: python's construction against the Lean classification of the raw text
            pk = "".join(KINDCH[l["kind"]] for l in case["lines"])
            if pk != kinds:
                bad_k.append(dict(text=desc["text"], python=pk, lean=kinds))
            nobj = kinds.count("O")
            res.count("lines:%d" % len(case["lines"]))
            res.count("class:" + cls)
            for ch in kinds:
                res.count("kind:" + ch)
            if case.get("supps"):
                res.count("with-suppressions")
            if gotall is None:
                continue
            # never a crash: the observed status, per class of malformed output
            res.count("class:%s:normal-exit" % cls)
            seen_class[cls] = seen_class.get(cls, 0) + 1
            got = gotall[files[j]]
            got_add = [f for f in got if f["id"] != "internalError"]
            got_int = [f for f in got if f["id"] == "internalError"]
            ok = [norm(f) for f in got_add] == [norm(f, True) for f in want] and (len(got_int) > 0) == ie
            any_reported = any_reported or len(got) > 0
            want_exit = max(want_exit, mexit)
            res.case("relay|" + ops[k], nobj >= 2, dict(case=desc, impl=[norm(f) for f in got], model=mo[k][:300]) if k % 40 == 0 else None)
            p_impl(res, case, got_add, desc)
            if ok:
                res.traces_validated += 1
            else:
                bad.append(dict(case=desc, rc=rc, impl=[norm(f) for f in got], model=mo[k][:600]))
        # exit status (other built-in findings - debug messages, unmatchedSuppression - also set it: only judged without them)
        if gotall is not None and not others:
            if rc != want_exit:
                bad.append(dict(case=pdesc[0], cases=len(proc), rc=rc, model="exit status %d" % want_exit))
            if (rc == 9) != any_reported:
                res.violation("exit status %d does not reflect the reported addon findings" % rc, dict(case=pdesc[0], cases=pdesc if len(proc) > 1 else None), concrete=True, key=None)
    res.oblig("correspondence:addon-relay", not bad, "correspondence",
              "" if not bad else "%d of %d addon outputs relayed differently from the model; first: %s" % (len(bad), len(cases), json.dumps(bad[0], ensure_ascii=False)[:1800]))
    res.oblig("correspondence:line-classification", not bad_k, "correspondence",
              "" if not bad_k else "%d outputs: the Lean classification of the raw lines differs from the generator's; first: %s" % (len(bad_k), json.dumps(bad_k[0])[:1600]))
    missing = [c for c in MALFORMED if not seen_class.get(c)]
    res.oblig("coverage:malformed-classes-observed", not missing, "correspondence",
              "" if not missing else "no run with a normal exit status observed for malformed-output class(es) %s" % missing)
    # the disagreements are concrete failing inputs: store the first ones for replay
    for b in bad[:3]:
        res.violation("addon output relayed differently from the model (rc=%s)" % b["rc"], dict(case=b["case"], impl=b.get("impl"), model=b["model"]), concrete=True, key=None)

    # a broken implementation fails on most cases: keep the first few new failing inputs, every known-finding observation
    _new = [v for v in res.violations if v.get("key") is None]
    res.violations = [v for v in res.violations if v.get("key") is not None] + _new[:6]
    if len(_new) > 6:
        res.extra["further_failing_inputs_not_stored"] = len(_new) - 6
    # summaries of several addons must all reach the whole-program phase (with and without build dir)
    bad_s = []
    nsum = 40 if ctx.tier == "thorough" else 8
    t2 = time.time()
    with ThreadPoolExecutor(max_workers=6) as ex:
        rs = list(ex.map(lambda k: summary_run(ctx, rng_fork(rng, k), 7000 + k, builddir=(k % 2 == 0)), range(nsum)))
    res.extra["phase_s"]["summaries"] = round(time.time() - t2, 1)
    for k, r in enumerate(rs):
        b = summary_eval(ctx, res, drv, r, k)
        if b is not None:
            bad_s.append(b)
    for b in bad_s[:2]:
        res.violation("ctu-info seen by the whole-program phase differs from the model: %s" % "; ".join(b["problems"])[:300], dict(addons=b["addons"], builddir=b["builddir"]), concrete=True, key=None)
    res.oblig("correspondence:summaries-forwarded", not bad_s, "correspondence",
              "" if not bad_s else "%d of %d multi-addon runs: ctu-info seen by the whole-program phase differs from the model; first: %s" % (len(bad_s), nsum, json.dumps(bad_s[0])[:1200]))
    # whole-program phase: ill-typed output of a ctu addon must not terminate the process (fixed by 9260697)
    ctu_cases = [dict(addon="ctuaddon", lines=[], exitcode=0, enabled={"style"},
                      ctu=[dict(kind="obj", text='{"file":"t.c","linenr":"1","column":3,"severity":"style","message":"illtyped","addon":"ctuaddon","errorId":"e2"}')],
                      builddir=b) for b in (False, True)]
    for k, case in enumerate(ctu_cases):
        rc, so, se = run_proc(ctx, 9000 + k, [case])
        res.case("ctu|%s" % case["builddir"], True, None)
        res.count("class:wholeprogram-illtyped:rc%s" % rc)
        ie = "internalError" in se and "<?xml" in se
        if rc not in (0, 9) or not ie:
            res.violation("ill-typed addon output in the whole-program phase: status %s, internalError reported: %s" % (rc, ie),
                          dict(case="ctu addon prints linenr as string", builddir=case["builddir"], stderr=se[-800:]), concrete=True, key=None)


def rng_fork(rng, k):
    import random
    return random.Random(rng.getrandbits(48) * 1000 + k)


def summary_run(ctx, rng, k, builddir):
    """2..3 scripted ctu addons, each printing summary lines interleaved with findings, skipped lines and now and then an
    ill-typed object or a non-brace line; in the whole-program phase each script copies the ctu-info it is given.  Every
    script appends its name to order.txt when it runs in the per-file phase (Settings::addons is an unordered_set)."""
    d = os.path.join(ctx.tmp, "s%d" % k)
    os.makedirs(d, exist_ok=True)
    open(os.path.join(d, "t.c"), "w").write("void f(void)\n{\n  int x = 1;\n  (void)x;\n}\n")
    naddons = rng.choice([2, 2, 3])
    hard = rng.random() < 0.4
    outs, args = {}, [ctx.cppcheck, "-q", "--xml", "--enable=style"]
    for a in range(naddons):
        name = "sa%d" % a
        lines = []
        for j in range(rng.choice([1, 1, 2, 3])):      # every addon prints at least one summary: losing an earlier addon's is visible
            lines.append(dict(kind="obj", obj={"summary": "%s_%d" % (name, j)}, text='{"summary":"%s_%d"}' % (name, j)))
        if rng.random() < 0.5:
            o = dict(file="t.c", linenr=1, column=1, severity="style", message="m", addon=name, errorId="e", extra="")
            lines.insert(rng.randrange(len(lines) + 1), dict(kind="obj", obj=o, text=json.dumps(o)))
        if rng.random() < 0.3:
            lines.insert(rng.randrange(len(lines) + 1), rng.choice([dict(kind="empty", text=""), dict(kind="checking", text="Checking t.c..."), dict(kind="badjson", text='{"a":}')]))
        if hard and rng.random() < 0.5:
            if rng.random() < 0.6:
                o = dict(file="t.c", linenr="1", column=1, severity="style", message="ill", addon=name, errorId="e")
                lines.insert(rng.randrange(len(lines) + 1), dict(kind="obj", obj=o, text=json.dumps(o)))
            else:
                lines.insert(rng.randrange(len(lines) + 1), dict(kind="notbrace", text="oops"))
        outs[name] = lines
        open(os.path.join(d, name + ".txt"), "w").write("".join(l["text"] + "\n" for l in lines))
        sh = os.path.join(d, name + ".sh")
        open(sh, "w").write("#!/bin/sh\nfor a in \"$@\"; do last=\"$a\"; done\ncase \"$last\" in\n *.ctu-info) cat \"$last\" > '%s/seen_%s.txt'; exit 0;;\n *filelist*|*.txt) while read f; do cat \"$f\"; done < \"$last\" > '%s/seen_%s.txt'; exit 0;;\nesac\necho %s >> '%s/order.txt'\ncat '%s/%s.txt'\nexit 0\n" % (d, name, d, name, name, d, d, name))
        os.chmod(sh, os.stat(sh).st_mode | stat.S_IEXEC)
        open(os.path.join(d, name + ".json"), "w").write(json.dumps(dict(executable=sh, ctu=True)))
        args.append("--addon=%s.json" % name)
    if builddir:
        os.makedirs(os.path.join(d, "bd"), exist_ok=True)
        args.append("--cppcheck-build-dir=bd")
    args.append("t.c")
    rc, so, se = core.sh(args, cwd=d, timeout=120)
    p = os.path.join(d, "order.txt")
    order = open(p).read().split() if os.path.exists(p) else []
    seen = {}
    for name in outs:
        p = os.path.join(d, "seen_%s.txt" % name)
        seen[name] = [json.loads(l)["summary"] for l in open(p).read().split("\n") if l.strip().startswith("{")] if os.path.exists(p) else None
    shutil.rmtree(d, ignore_errors=True)
    return dict(outs=outs, order=order, seen=seen, rc=rc, builddir=builddir, k=k)


def summary_eval(ctx, res, drv, r, k):
    """P_impl: without an ill-typed object every summary of every addon (that is not discarded by a non-brace line) is there.
    Correspondence: the ctu-info equals the model's (addons in the order they ran)."""
    outs, order, seen, builddir = r["outs"], r["order"], r["seen"], r["builddir"]
    names = [n for n in order if n in outs] + [n for n in outs if n not in order]
    op = "ctuinfo %d 63 " % (1 if builddir else 0) + " / ".join(" ".join(enc_line(l) for l in outs[n]) or "E" for n in names)
    rc2, mo, me = core.run_lines(drv, [], [op])
    if not mo or not mo[0].startswith("ctu"):
        raise core.CheckBroken("C34 driver rejected op: " + op[:300])
    want = [core.unhx(x).decode() for x in mo[0].split(" ")[1:] if x]
    illtyped = any(l["kind"] == "obj" and "summary" not in l["obj"] and good_finding(l["obj"], n) is None for n in outs for l in outs[n])
    res.case("summaries|" + op, sum(len(x) for x in outs.values()) >= 2,
             dict(addons={n: [l["text"] for l in outs[n]] for n in names}, builddir=builddir, seen=seen, model=want) if k % 4 == 0 else None)
    res.count("ctu:" + ("illtyped" if illtyped else "plain") + (":builddir" if builddir else ""))
    if r["rc"] not in (0, 9):
        res.violation("cppcheck terminated abnormally (status %s) in a multi-addon run" % r["rc"], dict(addons={n: [l["text"] for l in outs[n]] for n in names}, builddir=builddir), concrete=True, key=None)
        return None
    all_expected = [l["obj"]["summary"] for n in names if not any(x["kind"] == "notbrace" for x in outs[n]) for l in outs[n] if l["kind"] == "obj" and "summary" in l["obj"]]
    problems = []
    for a, got in seen.items():
        if got is None:
            if all_expected and not illtyped:
                problems.append("%s was not called for the whole-program phase" % a)
            continue
        if not illtyped:
            if sorted(got) != sorted(all_expected) or len(order) != len(outs):
                res.violation("addon summaries lost on the way to whole-program analysis (builddir=%s): %s received %s, the addons printed %s" % (builddir, a, got, all_expected),
                              dict(addons={n: [l["text"] for l in outs[n]] for n in names}, builddir=builddir, seen=seen), concrete=True, key=None)
        if got != want:
            problems.append("%s: impl %s model %s" % (a, got, want))
    return dict(problems=problems, builddir=builddir, addons={n: [l["text"] for l in outs[n]] for n in names}) if problems else None


def load_corpus():
    p = os.path.join(core.VERIF, "corpus", "C34", "cases.json")
    if not os.path.exists(p):
        return []
    cs = json.load(open(p))
    for c in cs:
        c["enabled"] = set(c["enabled"])
        c["supps"] = [tuple(s) for s in c.get("supps", [])]
    return cs


def replay(ctx, res, rp):
    """re-run one stored addon output (raw text) on the real binary, in a process of its own, and compare with the model"""
    c = rp.get("case")
    if not isinstance(c, dict) or "text" not in c:
        print("replay: re-run ./check.py C34 (cases are regenerated from VERIF_SEED=%s)" % rp.get("seed"))
        return 0
    drv = ctx.driver("drv_c34")
    hexe = ctx.harness("c34")
    text = c["text"]
    f0 = c.get("file") or "t.c"
    idx = int(f0[1:3]) if f0 != "t.c" else None
    case = dict(addon="myaddon", idx=idx, lines=[dict(kind="raw", text=text)], exitcode=c["exitcode"], enabled=set(c["enabled"]),
                supps=[tuple(s) for s in (c.get("supps") or [])], builddir=c.get("builddir"), no_final_newline=True)
    for a in ("misra2", "y2038x"):
        if '"addon": "%s"' % a in text or '"addon":"%s"' % a in text or '"addon" : "%s"' % a in text:
            case["addon"] = a
    bl = brace_lines(text)
    rc, hv, he = core.run_lines(hexe, [], ["parse " + hexu(b) for b in bl])
    op = model_ops([case], dict(zip(bl, hv)))[0]
    rc2, mo, me = core.run_lines(drv, [], [op])
    rc, so, se = run_proc(ctx, 0, [case])
    gotall, others = parse_xml(se, case["addon"], [f0])
    parts = mo[0].split(" ")
    want = model_findings(parts[5:])
    print("replay: status %s; model: %s" % (rc, mo[0][:300]))
    if rc not in (0, 9) or gotall is None:
        print("replay: " + se[-400:])
        return 1
    got = gotall[f0]
    print("replay: impl : %s" % [norm(f) for f in got])
    ok = [norm(f) for f in got if f["id"] != "internalError"] == [norm(f, True) for f in want] and any(f["id"] == "internalError" for f in got) == (parts[3] == "1")
    return 0 if ok and (others or rc == int(parts[2])) else 1

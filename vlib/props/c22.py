"""C22 — whole-program results do not depend on how summaries are stored.

Obligations
  theorems   Cppcheck.Ctu.* / Cppcheck.Unused.* in lean/Cppcheck/Props/C22.lean (round trips through the real text
             layer for every summary kind, whole cache file, storage independence of the CTU walk, build-dir unused-function
             algorithm = in-memory algorithm under explicit hypotheses, counterexamples for every hypothesis)
  T1         element / attribute name literals of lib/ctu.cpp (writers and readers) = the literals of the Lean model
  C1..C8     in-process correspondence harness/c22.cpp (real code) vs lean/Driver/C22.lean (model):
             esc (toxml + tinyxml2 attribute reader), raw (attribute reader / sscanf on arbitrary text), doc (tinyxml2 parser on
             generated and damaged documents), fi / uu / chk (writers + readers of every summary kind), ld (readers on damaged
             summaries), file (real AnalyzerInformation cache file + processFilesTxt), path (getCallsMap/findPath/getErrorPath),
             unused (parseTokens effects on generated C programs -> in-memory check() and build-dir analyseWholeProgram())
  C9         CLI: generated multi-file programs; findings of -j1, -j1 --cppcheck-build-dir (cold), -j2 --cppcheck-build-dir
             (cold) and a fully cached re-run compared as multisets
P_impl       load(toString v) == v on the real code for every generated summary value; M == B for the unused-function
             algorithms; the four CLI modes report the same multiset
"""
import hashlib, json, os, re, shutil, subprocess
from .. import core, build_repo

ID = "C22"
LEVEL = "proof"
RULE = ("cases = summary values (function calls with value paths, nested calls, unsafe usages, class definitions, unused-function "
        "summaries) with strings drawn from byte classes (plain, XML specials, TAB/LF/CR, NUL, controls, >=0x80, entity look-alikes) "
        "and numbers at the type boundaries; damaged documents / summaries for the readers; call graphs with cycles for the walk; "
        "generated C programs for the unused-function algorithms and multi-file call chains through a shared header for the CLI. "
        "non-trivial = the value has at least one element and contains a byte that toxml rewrites, a value path, a nested call or a "
        "boundary number (in-process), or the program produces at least one whole-program finding (CLI)")
EXPLANATION = ("Lean theorems: for every summary value whose strings satisfy the stated byte-class hypotheses and whose numbers are in "
               "the C++ types' ranges, reading back the text the writers produce (through the modelled tinyxml2 lexer/tree builder/"
               "attribute reader and the cache-file wrapper) yields the value again, for each summary kind and for the whole cache file; "
               "hence every whole-program function of the summaries is storage independent (also on the real six-element cache file, where "
               "the whole-program handler and the unused-function handler each read their part); the build-dir unused-function algorithm, "
               "run through the written text exactly as the driver and the code run it, equals the in-memory one under explicit hypotheses; each hypothesis has a counterexample theorem that is replayed on the "
               "real code. Model tied to the code by byte-exact in-process correspondence of all writers/readers (incl. damaged input) "
               "(the objects of the main theorem - fromBuildDir, inMemory, six-element cache files - are executed against the real "
               "AnalyzerInformation / processFilesTxt / handler / CheckUnusedFunctions::analyseWholeProgram; the handler and the in-memory "
               "aggregation of lib/cppcheck.cpp, which cannot be called in-process, are compared as source, fail closed) "
               "and a CLI comparison of the storage modes on 12 generated programs per run (chains, ODR classes, unused functions). Not modelled: per-file analysis that produces the summaries, "
               "parseTokens' token patterns, comments/CDATA/DTD in XML, Path::simplifyPath (parameter), cached <error> elements.")
THEOREMS = [
    "Cppcheck.Ctu.attrDecode_toxml", "Cppcheck.Ctu.lossy_eq_self_iff", "Cppcheck.Ctu.toxml_lossy_counterexample",
    "Cppcheck.Ctu.scanInt64_showInt",
    "Cppcheck.Ctu.functionCall_roundtrip", "Cppcheck.Ctu.nestedCall_roundtrip", "Cppcheck.Ctu.fileInfo_roundtrip",
    "Cppcheck.Ctu.nestedCall_lost_before_fix", "Cppcheck.Ctu.nestedCall_old_counterexample",
    "Cppcheck.Ctu.unsafeUsage_roundtrip", "Cppcheck.Ctu.bufferInfo_roundtrip", "Cppcheck.Ctu.classInfo_roundtrip",
    "Cppcheck.Ctu.cacheFile_roundtrip", "Cppcheck.Ctu.wholeProgram_storage_independent",
    "Cppcheck.Ctu.rawField_counterexample", "Cppcheck.Ctu.roundtrip_unrestricted_counterexample", "Cppcheck.Ctu.pathFile_counterexample",
    "Cppcheck.Unused.unusedInfo_roundtrip", "Cppcheck.Unused.unusedBuildDir_via_text", "Cppcheck.Unused.unused_wp_equiv",
    "Cppcheck.Unused.unused_collected_equiv", "Cppcheck.Unused.realCacheFile_both", "Cppcheck.Unused.wholeProgram_storage_independent_realFiles",
    "Cppcheck.Unused.unused_templatename_counterexample",
    "Cppcheck.Unused.unused_dupname_counterexample", "Cppcheck.Unused.static_counterexample", "Cppcheck.Unused.unused_retattr_counterexample",
]
MODULES = ["Cppcheck.Props.C22"]

CHECKS = ["Null pointer", "Uninitialized variables", "Bounds checking", "Class"]


# ---------------------------------------------------------------------------------------------
# developer aid: run against a patched lib_ctu.o / cppcheck binary (the proposed fix) without touching /repo
def harness_exe(ctx, res):
    alt = os.environ.get("VERIF_C22_ALT_CTU_OBJ")
    if not alt:
        return ctx.harness("c22")
    objs = [alt if o.endswith("/lib_ctu.o") else o for o in build_repo.lib_objs(ctx.variant)]
    exe = os.path.join(ctx.tmp, "c22_alt")
    cmd = ["g++"] + build_repo.harness_cxxflags(ctx.variant) + ["-I" + os.path.join(core.VERIF, "harness"),
                                                                os.path.join(core.VERIF, "harness", "c22.cpp"), "-o", exe] + objs + ["-lpthread"]
    r = subprocess.run(cmd, stdout=subprocess.PIPE, stderr=subprocess.STDOUT, text=True)
    if r.returncode != 0:
        raise core.CheckBroken("alt harness does not build:\n" + r.stdout[-3000:])
    res.notes.append("harness linked against VERIF_C22_ALT_CTU_OBJ=%s instead of the tree's lib_ctu.o" % alt)
    res.extra["alt_ctu_obj"] = alt
    return exe


def cppcheck_bin(ctx, res):
    alt = os.environ.get("VERIF_C22_ALT_BIN")
    if alt:
        res.extra["alt_bin"] = alt
        return alt
    return ctx.cppcheck


# ---------------------------------------------------------------------------------------------
# byte classes
def is_xmlsafe(b):
    return all(c in (9, 10, 13) or 32 <= c <= 127 for c in b)


def is_rawsafe(b):
    return not any(c in (0x22, 0x26, 13, 0) for c in b)


IDENTS = [b"f", b"g", b"h", b"main", b"foo_bar", b"ns::fn", b"operator+", b"a.b->c", b"T<int>::m"]
FILES = [b"a.c", b"dir/b.c", b"x.h", b"/abs/p.cpp", b"sp ace.c", b"a&b.c", b"q'1.c", b"lt<gt>.c", b"t.c"]
EXPRS = [b"p", b"&x", b"a<b", b"\"str\"", b"p->q", b"'c'", b"0", b"buf+1", b"x&&y", b"a>b?a:b", b"s[\"k\"]"]
INFOS = [b"Assignment 'p=0', assigned value is 0", b"Calling function 'f', 1st argument '&x' value is <uninit>",
         b"Assuming condition 'a<b' is false", b"", b"x", b"tab\there", b"two\nlines", b"cr\rlf\r\n"]
FRAGS = [b"&amp;", b"&lt;", b"&#65;", b"&#x41;", b"&#10;", b"&#;", b"&#x;", b"&bogus;", b"&", b"&#", b";", b"\"", b"'", b"<", b">",
         b"\r\n", b"\n\r", b"\r", b"\n", b"\t", b"\x00", b"\x01", b"\x1f", b"\x7f", b"\x80", b"\xc3\xa9", b"\xff", b"\\0", b"x", b" "]


def rnd_plain(rng, n=None):
    n = rng.randrange(0, 7) if n is None else n
    return bytes(rng.choice(b"abcxyz019 _-.:/()*[]=,+") for _ in range(n))


def rnd_xmlsafe(rng):
    parts = []
    for _ in range(rng.randrange(0, 6)):
        k = rng.random()
        if k < 0.4:
            parts.append(rnd_plain(rng, rng.randrange(1, 4)))
        elif k < 0.85:
            parts.append(rng.choice([b"<", b">", b"&", b"\"", b"'", b"\t", b"\n", b"\r", b"\r\n", b"\n\r", b"&amp;", b"&#65;", b";", b"#", b"\\0", b"\x7f", b" "]))
        else:
            parts.append(bytes([rng.randrange(32, 128)]))
    return b"".join(parts)


def rnd_rawsafe(rng):
    parts = []
    for _ in range(rng.randrange(0, 6)):
        k = rng.random()
        if k < 0.5:
            parts.append(rnd_plain(rng, rng.randrange(1, 4)))
        elif k < 0.9:
            parts.append(rng.choice([b"<", b">", b"'", b"\t", b"\n", b"\n\n", b";", b"#", b"\x01", b"\x1f", b"\x7f", b"\x80", b"\xc3\xa9", b"\xff", b"amp;", b"\\0"]))
        else:
            parts.append(bytes([rng.choice([c for c in range(1, 256) if c not in (0x22, 0x26, 13)])]))
    return b"".join(parts)


def rnd_wild(rng):
    return b"".join(rng.choice(FRAGS) if rng.random() < 0.7 else rnd_plain(rng, 2) for _ in range(rng.randrange(0, 7)))


I32 = [0, 1, 2, 3, 7, 15, 100, 65535, 2147483647, -1, -2147483648, -7]
I64 = [0, 1, -1, 10, 4096, 2147483648, -2147483649, 9223372036854775807, -9223372036854775808, 4294967296]


def rnd_i32(rng):
    k = rng.random()
    if k < 0.5:
        return rng.randrange(0, 400)
    if k < 0.8:
        return rng.choice(I32)
    return rng.randrange(-2 ** 31, 2 ** 31)


def rnd_i64(rng):
    k = rng.random()
    if k < 0.4:
        return rng.randrange(-3, 200)
    if k < 0.8:
        return rng.choice(I64)
    return rng.randrange(-2 ** 63, 2 ** 63)


def pick_str(rng, mode, pool, escaped=True):
    """mode: domain | lossy | raw | wild.  escaped: the field goes through toxml; otherwise it is written raw"""
    k = rng.random()
    if mode == "domain":
        if k < 0.5:
            return rng.choice(pool)
        return rnd_xmlsafe(rng) if escaped else rnd_rawsafe(rng)
    if mode == "lossy" and escaped and k < 0.6:
        return rnd_plain(rng, 2) + rng.choice([b"\x00", b"\x01", b"\x1f", b"\x80", b"\xc3\xa9", b"\xff", b"\x0b"]) + rnd_plain(rng, 2)
    if mode == "raw" and not escaped and k < 0.7:
        return rnd_plain(rng, 2) + rng.choice([b"\"", b"&amp;", b"&lt;x", b"&#65;", b"\r", b"\r\n", b"\n\r", b"\x00", b"&#;", b"a&b&amp;&c", b"&#"]) + rnd_plain(rng, 2)
    if mode == "wild" and k < 0.6:
        return rnd_wild(rng)
    if k < 0.8:
        return rng.choice(pool)
    return rnd_xmlsafe(rng) if escaped else rnd_rawsafe(rng)


def func_id(rng, mode):
    f = pick_str(rng, mode, [b"x.h", b"a.c", b"inc/y.h", b"\xc3\xa9.h"], escaped=False)
    if rng.random() < 0.85:
        return f + b":" + str(rng.randrange(1, 90)).encode() + b":" + str(rng.randrange(1, 40)).encode()
    return f


def gen_loc(rng, mode):
    return (pick_str(rng, mode, FILES), rnd_i32(rng), rnd_i32(rng))


PATHFILES = [b"a.c", b"dir/b.c", b"x.h", b"/abs/p.cpp", b"sp ace.c", b"a&b.c", b"t.c"]


def gen_fc(rng, mode):
    paths = []
    for _ in range(rng.choice([0, 0, 1, 1, 2, 3])):
        if mode == "wild" and rng.random() < 0.3:
            pf = rng.choice([b"./a.c", b"d/../e.c", b"a//b.c", b"c:\\x\\y.c", b"."])
        else:
            pf = rng.choice(PATHFILES) if rng.random() < 0.7 else bytes(rng.choice(b"abcxyz_-:<>&\"' ") for _ in range(rng.randrange(1, 5)))
            if mode == "lossy" and rng.random() < 0.3:
                pf += b"\xc3\xa9"
        col = rng.choice([0, 1, 5, 80, 4294967295, 2147483648]) if rng.random() < 0.4 else rng.randrange(0, 200)
        paths.append((pf, pick_str(rng, mode, INFOS), rnd_i32(rng), col))
    vt = rng.choice([0, 0, 0, 4, 7, 1, 5, 10]) if rng.random() < 0.85 else rng.randrange(0, 256)
    ufr = rng.choice([0, 0, 0, 1, 2, 3]) if rng.random() < 0.9 else rng.randrange(0, 256)
    return dict(callId=func_id(rng, mode), fname=pick_str(rng, mode, IDENTS), argnr=rnd_i32(rng), loc=gen_loc(rng, mode),
                argexpr=pick_str(rng, mode, EXPRS), vt=vt, val=rnd_i64(rng), ufr=ufr, warn=rng.random() < 0.4, path=paths)


def gen_nc(rng, mode):
    return dict(callId=func_id(rng, mode), fname=pick_str(rng, mode, IDENTS), argnr=rnd_i32(rng), loc=gen_loc(rng, mode),
                myId=func_id(rng, mode), myArgNr=rnd_i32(rng))


def gen_uu(rng, mode):
    return dict(myId=func_id(rng, mode), myArgNr=rnd_i32(rng), name=pick_str(rng, mode, [b"p", b"buf", b"q_1", b"arr"], escaped=False),
                loc=gen_loc(rng, mode), value=rnd_i64(rng))


def gen_cd(rng, mode):
    return dict(name=pick_str(rng, mode, [b"S", b"ns::C", b"A<int>", b"Outer::Inner"]), file=pick_str(rng, mode, FILES),
                cfg=pick_str(rng, mode, [b"", b"A", b"A;B=1", b"X=\"s\""]), line=rnd_i32(rng), col=rnd_i32(rng),
                hash=rng.choice([0, 1, 2 ** 64 - 1, 2 ** 63, 12345678901234567890 % 2 ** 64]) if rng.random() < 0.4 else rng.randrange(0, 2 ** 64))


hx = core.hx


def enc_loc(l):
    return "%s %d %d" % (hx(l[0]), l[1], l[2])


def enc_fc(c):
    s = "FC %s %s %d %s %s %d %d %d %d %d" % (hx(c["callId"]), hx(c["fname"]), c["argnr"], enc_loc(c["loc"]), hx(c["argexpr"]), c["vt"], c["val"], c["ufr"],
                                            1 if c["warn"] else 0, len(c["path"]))
    for p in c["path"]:
        s += " %s %s %d %d" % (hx(p[0]), hx(p[1]), p[2], p[3])
    return s


def enc_nc(c):
    return "NC %s %s %d %s %s %d" % (hx(c["callId"]), hx(c["fname"]), c["argnr"], enc_loc(c["loc"]), hx(c["myId"]), c["myArgNr"])


def enc_uu(u):
    return "UU %s %d %s %s %d" % (hx(u["myId"]), u["myArgNr"], hx(u["name"]), enc_loc(u["loc"]), u["value"])


def enc_cd(c):
    return "CD %s %s %s %d %d %d" % (hx(c["name"]), hx(c["file"]), hx(c["cfg"]), c["line"], c["col"], c["hash"])


def enc_fi(fcs, ncs):
    return " ".join([str(len(fcs))] + [enc_fc(c) for c in fcs] + [str(len(ncs))] + [enc_nc(c) for c in ncs])


def enc_uus(l):
    return " ".join([str(len(l))] + [enc_uu(u) for u in l])


def fi_strings(fcs, ncs):
    """(escaped fields, raw fields, path files)"""
    esc, raw, pf = [], [], []
    for c in fcs:
        esc += [c["fname"], c["loc"][0], c["argexpr"]] + [p[1] for p in c["path"]] + [p[0] for p in c["path"]]
        raw += [c["callId"]]
        pf += [p[0] for p in c["path"]]
    for c in ncs:
        esc += [c["fname"], c["loc"][0]]
        raw += [c["callId"], c["myId"]]
    return esc, raw, pf


def classify_strings(esc, raw):
    if any(not is_xmlsafe(s) for s in esc):
        return "toxml-lossy-byte"
    if any(not is_rawsafe(s) for s in raw):
        return "raw-field-special"
    return None


# ---------------------------------------------------------------------------------------------
# T1: literals of lib/ctu.cpp vs the model
EXPECT_ATTR = {
    "ATTR_CALL_ID": "call-id", "ATTR_CALL_FUNCNAME": "call-funcname", "ATTR_CALL_ARGNR": "call-argnr", "ATTR_CALL_ARGEXPR": "call-argexpr",
    "ATTR_CALL_ARGVALUETYPE": "call-argvaluetype", "ATTR_CALL_ARGVALUE": "call-argvalue", "ATTR_CALL_UNKNOWN_FUNCTION_RETURN": "call-argvalue-ufr",
    "ATTR_WARNING": "warning", "ATTR_LOC_FILENAME": "file", "ATTR_LOC_LINENR": "line", "ATTR_LOC_COLUMN": "col", "ATTR_INFO": "info",
    "ATTR_MY_ID": "my-id", "ATTR_MY_ARGNR": "my-argnr", "ATTR_MY_ARGNAME": "my-argname", "ATTR_VALUE": "value",
}


def body_of(src, signature):
    i = src.find(signature)
    if i < 0:
        return None
    j = src.find("{", i)
    depth, k = 0, j
    while k < len(src):
        if src[k] == "{":
            depth += 1
        elif src[k] == "}":
            depth -= 1
            if depth == 0:
                return src[j:k + 1]
        k += 1
    return None


def translator_checks(ctx, res):
    src = open(os.environ.get("VERIF_C22_ALT_CTU_SRC") or os.path.join(core.REPO, "lib", "ctu.cpp"), encoding="utf-8", errors="replace").read()
    model = open(os.path.join(core.LEAN, "Cppcheck", "Model", "Ctu.lean"), encoding="utf-8").read()
    problems = []
    attrs = dict(re.findall(r'static constexpr char (ATTR_\w+)\[\] = "([^"]*)";', src))
    if attrs != EXPECT_ATTR:
        problems.append("attribute table differs: %s" % sorted(set(attrs.items()) ^ set(EXPECT_ATTR.items()))[:4])
    for v in EXPECT_ATTR.values():
        if ('"%s"' % v) not in model:
            problems.append("model lacks attribute literal %s" % v)
    want = [
        ("std::string CTU::FileInfo::FunctionCall::toXmlString() const", ['"<function-call"', '"  <path"', '"</function-call>"', '">\\n"', '"/>"']),
        ("std::string CTU::FileInfo::NestedCall::toXmlString() const", ['"<nested-call"', '"/>"']),
        ("std::string CTU::FileInfo::UnsafeUsage::toString() const", ['"    <unsafe-usage"', '"/>\\n"']),
        ("void CTU::FileInfo::loadFromXml(const tinyxml2::XMLElement *xmlElement)", ['"function-call"', '"nested-call"']),
        ("bool CTU::FileInfo::FunctionCall::loadFromXml(const tinyxml2::XMLElement *xmlElement)", ['"path"', '"true"']),
        ("std::list<CTU::FileInfo::UnsafeUsage> CTU::loadUnsafeUsageListFromXml(const tinyxml2::XMLElement *xmlElement)", ['"unsafe-usage"']),
    ]
    for sig, lits in want:
        b = body_of(src, sig)
        if b is None:
            problems.append("unrecognised shape: function not found: " + sig)
            continue
        found = set(re.findall(r'"(?:[^"\\]|\\.)*"', b))
        elementish = set(l for l in found if re.match(r'^"\s*</?[a-z-]+"?$', l) or l in ('"function-call"', '"nested-call"', '"path"', '"unsafe-usage"'))
        for l in lits:
            if l not in found:
                problems.append("%s: literal %s not found (found element literals: %s)" % (sig.split("::")[-2] + "::" + sig.split("::")[-1][:14], l, sorted(elementish)))
    # the model's post-fix element name
    if 'def NestedCall.toXml (c : NestedCall) : Str := c.toXmlWith "nested-call"' not in model:
        problems.append("model: NestedCall.toXml is not the <nested-call> writer")
    res.oblig("T1:ctu.cpp-literals-equal-model", not problems, "translation", "; ".join(problems))
    return problems


HANDLER_EXPECT = """const auto handler = [&fileInfoList, &ctuFileInfo](const char* checkattr, const tinyxml2::XMLElement* e, const AnalyzerInformation::Info& filesTxtInfo) {
if (std::strcmp(checkattr, "ctu") == 0) {
ctuFileInfo.loadFromXml(e);
return;
}
for (const Check *check : CheckInstances::get()) {
if (checkattr == check->name()) {
if (Check::FileInfo* fi = check->loadFileInfoFromXml(e)) {
fi->file0 = filesTxtInfo.sourceFile;
fileInfoList.push_back(fi);
}
}
}
};"""


def norm_src(t):
    return "\n".join(l.strip() for l in t.strip().split("\n") if l.strip())


def translator_checks_wp(ctx, res):
    """T2: the parts of the whole-program plumbing the harness cannot call (private / fixed check registry) are compared as source:
    the handler of analyseWholeProgram(buildDir) = the copy in harness/c22.cpp (op wpload), the setFileInfo names, the in-memory
    aggregation, and 'nullptr for an empty summary' in the four getFileInfo functions."""
    repo = os.environ.get("VERIF_REPO") or core.REPO
    problems = []
    src = open(os.path.join(repo, "lib", "cppcheck.cpp"), encoding="utf-8", errors="replace").read()
    b = body_of(src, "unsigned int CppCheck::analyseWholeProgram(const std::string &buildDir")
    if b is None:
        problems.append("unrecognised shape: analyseWholeProgram(buildDir) not found")
    else:
        i = b.find("const auto handler =")
        j = b.find("};", i)
        if i < 0 or j < 0 or norm_src(b[i:j + 2]) != norm_src(HANDLER_EXPECT):
            problems.append("handler of analyseWholeProgram(buildDir) differs from the copy the harness runs: %r" % (norm_src(b[i:j + 2])[:300] if i >= 0 else "not found"))
        if "c->analyseWholeProgram(ctuFileInfo, fileInfoList, mSettings, mErrorLogger);" not in b:
            problems.append("analyseWholeProgram(buildDir): the call of the checks changed")
    b = body_of(src, "bool CppCheck::analyseWholeProgram()")
    want = ["ctu.functionCalls.insert(ctu.functionCalls.end(), fi2->functionCalls.cbegin(), fi2->functionCalls.cend());",
            "ctu.nestedCalls.insert(ctu.nestedCalls.end(), fi2->nestedCalls.cbegin(), fi2->nestedCalls.cend());",
            "c->analyseWholeProgram(ctu, mFileInfo, mSettings, mErrorLogger)"]
    if b is None or any(w not in b for w in want):
        problems.append("in-memory analyseWholeProgram(): aggregation of the CTU infos changed")
    for lit in ['analyzerInformation->setFileInfo("ctu", fi1->toString());', 'analyzerInformation->setFileInfo(c->name(), fi->toString());',
                'setFileInfo("CheckUnusedFunctions", unusedFunctionsChecker.analyzerInfo(tokenizer));',
                "if (Check::FileInfo * const fi = c->getFileInfo(tokenizer, mSettings, currentConfig)) {"]:
        if lit not in src:
            problems.append("cppcheck.cpp: statement not found: " + lit)
    ai = open(os.path.join(repo, "lib", "analyzerinfo.cpp"), encoding="utf-8", errors="replace").read()
    if "if (mOutputStream.is_open() && !fileInfo.empty())" not in ai:
        problems.append("AnalyzerInformation::setFileInfo: the empty-text test changed")
    names = {"checkbufferoverrun": ("Bounds checking", ["if (unsafeArrayIndex.empty() && unsafePointerArith.empty()) {", "return nullptr;"]),
             "checkclass": ("Class", ["if (classDefinitions.empty())", "return nullptr;"]),
             "checknullpointer": ("Null pointer", ["if (unsafeUsage.empty())", "return nullptr;"]),
             "checkuninitvar": ("Uninitialized variables", ["if (unsafeUsage.empty())", "return nullptr;"])}
    for f, (name, lits) in names.items():
        h = open(os.path.join(repo, "lib", f + ".h"), encoding="utf-8", errors="replace").read()
        if ('return "%s";' % name) not in h:
            problems.append("%s.h: check name is not %r" % (f, name))
        c = open(os.path.join(repo, "lib", f + ".cpp"), encoding="utf-8", errors="replace").read()
        m = re.search(r"Check::FileInfo \*\s*Check\w+::getFileInfo\(", c)
        gb = body_of(c, m.group(0)) if m else None
        if gb is None or any(l not in gb for l in lits):
            problems.append("%s.cpp: getFileInfo no longer returns nullptr for an empty summary in the recognised form" % f)
    model = open(os.path.join(core.LEAN, "Cppcheck", "Model", "Ctu.lean"), encoding="utf-8").read()
    for name in ["ctu", "Bounds checking", "Class", "Null pointer", "Uninitialized variables"]:
        if ('c = "%s".toList' % name) not in model:
            problems.append("model checkKind lacks %r" % name)
    res.oblig("T2:whole-program-plumbing-equals-model", not problems, "translation", "; ".join(problems))
    return problems


# ---------------------------------------------------------------------------------------------
# running the two sides
def run_pair(ctx, res, exe, drv, name, ops, hops=None, canon_impl=None, nontrivial=None, skip_impl=None):
    """ops: driver op lines; hops: harness op lines (default: the same).  Returns (impl_out, model_out, mismatch indices)"""
    if not ops:
        return [], [], []
    hops = hops or ops
    rc, impl, err = core.run_lines([exe, ctx.tmp], [], hops, timeout=900)
    if len(impl) != len(hops):
        raise core.CheckBroken("C22 harness produced %d lines for %d ops (%s) rc=%s: %s" % (len(impl), len(hops), name, rc, err[-400:]))
    rc, model, err = core.run_lines(drv, [], ops, timeout=900)
    if len(model) != len(ops):
        raise core.CheckBroken("C22 driver produced %d lines for %d ops (%s): %s" % (len(model), len(ops), name, err[-400:]))
    impl_c = [canon_impl(o) if canon_impl else o for o in impl]
    mism = []
    for i, op in enumerate(ops):
        if model[i].endswith("unmodelled") or model[i] == "unmodelled" or (skip_impl and skip_impl(impl[i])):
            res.count("outside-model:" + name)
            continue
        nt = True if nontrivial is None else nontrivial(i)
        samp = None
        if len(res.samples) < 12 and i % max(1, len(ops) // 2) == 0:
            samp = dict(tie=name, op=op[:300], impl=impl_c[i][:300], model=model[i][:300])
        res.case(name + "|" + op, nt, samp)
        res.count("op:" + name)
        if impl_c[i] != model[i]:
            mism.append(i)
        else:
            res.traces_validated += 1
    res.oblig("correspondence:" + name, not mism, "correspondence",
              "" if not mism else "%d of %d ops differ; first: op=%s impl=%s model=%s" % (len(mism), len(ops), ops[mism[0]][:500], impl_c[mism[0]][:700], model[mism[0]][:700]))
    return impl, model, mism


def strip_sp(o):
    return re.sub(r" \| sp=[01]$", "", o)


def field(o, key):
    m = re.search(r"(?:^| )%s=(\S*)" % key, o)
    return m.group(1) if m else None


# ---------------------------------------------------------------------------------------------
# generators for documents
XNAMES = ["a", "b", "FileInfo", "x-y", "n.1", "_u", ":c", "\u00e9", "analyzerinfo", "path"]
XVALS = ["", "1", "a b", "&amp;", "&lt;&gt;", "&#65;", "&#x41;b", "&bogus;", "a&b", "x\ny", "x\r\ny", "\r", "'", "<", ">", "&#", "&#;", "&quot;", "-12", "0x1F"]


def gen_xml(rng, depth=0, err=0.0):
    out = []
    for _ in range(rng.choice([0, 1, 1, 2, 3]) if depth else rng.choice([1, 1, 2])):
        k = rng.random()
        ws = rng.choice(["", " ", "\n", "\n  ", "\t"])
        if k < 0.12 and depth:
            out.append(ws + rng.choice(["text", "t&amp;x", " x ", "a>b"]))
            continue
        if k < 0.15:
            out.append(ws + rng.choice(["<!-- c -->", "<![CDATA[x]]>", "<!DOCTYPE a>", "<?pi x?>"]))
            continue
        n = rng.choice(XNAMES)
        attrs, used = "", set()
        for _ in range(rng.choice([0, 1, 2, 3])):
            an = rng.choice(["a", "b", "check", "x-y", "file", "_1"])
            if an in used and rng.random() > err:
                continue
            used.add(an)
            v = rng.choice(XVALS)
            q = "'" if ("'" not in v and rng.random() < 0.3) else '"'
            if q == '"' and '"' in v:
                v = v.replace('"', "")
            if q == "'" and "'" in v:
                v = v.replace("'", "")
            eq = rng.choice(["=", "=", " = ", "= "])
            attrs += rng.choice([" ", " ", "  ", "\n"]) + an + eq + q + v + q
        if rng.random() < 0.45 or depth > 3:
            out.append(ws + "<" + n + attrs + rng.choice(["/>", " />"]))
        else:
            close = n if rng.random() > err else rng.choice(XNAMES)
            out.append(ws + "<" + n + attrs + ">" + gen_xml(rng, depth + 1, err) + rng.choice(["", "\n", " "]) + "</" + close + rng.choice(["", " "]) + ">")
    return "".join(out)


def damage(rng, b):
    """one small edit of a byte string"""
    if not b:
        return b
    k = rng.random()
    i = rng.randrange(len(b))
    if k < 0.3:
        return b[:i]
    if k < 0.5:
        return b[:i] + b[i + 1:]
    if k < 0.7:
        return b[:i] + rng.choice([b"<", b">", b"\"", b"/", b"&", b"'", b"=", b" ", b"\x00", b"</a>", b"<b>", b"<?x?>", b"<!"]) + b[i:]
    if k < 0.85:
        j = rng.randrange(len(b))
        i, j = min(i, j), max(i, j)
        return b[:i] + b[j:]
    return b[:i] + b[i:i + 6] + b[i:]


ATTR_RE = re.compile(rb' ([A-Za-z-]+)="([^"]*)"')
JUNKNUM = [b"", b" 7", b"7 ", b"12x", b"x", b"0x10", b"0X", b"-", b"+5", b"-0", b"007", b"99999999999999999999", b"-99999999999999999999", b"4294967297",
           b"1e3", b"\t9", b"3.5", b"&#49;", b"2147483648"]


def mutate_summary(rng, text):
    ms = list(ATTR_RE.finditer(text))
    k = rng.random()
    if not ms or k < 0.1:
        return damage(rng, text)
    m = rng.choice(ms)
    if k < 0.35:      # drop an attribute
        return text[:m.start()] + text[m.end():]
    if k < 0.6:       # junk value
        return text[:m.start(2)] + rng.choice(JUNKNUM + [b"true", b"TRUE", b"&amp;", b"a\"b"]) + text[m.end(2):]
    if k < 0.7:       # duplicate an attribute
        return text[:m.end()] + m.group(0) + text[m.end():]
    if k < 0.8:       # rename an element
        for a, b in rng.sample([(b"function-call", b"nested-call"), (b"nested-call", b"function-call"), (b"<path", b"<pth"), (b"unsafe-usage", b"unsafe"),
                                (b"<path", b"<x/><path"), (b"function-call", b"Function-call")], 6):
            if a in text:
                return text.replace(a, b, 1)
        return damage(rng, text)
    if k < 0.9:       # move an attribute to the front of the next one (order change)
        m2 = rng.choice(ms)
        if m2.start() > m.end():
            return text[:m.start()] + text[m.end():m2.end()] + m.group(0) + text[m2.end():]
        return damage(rng, text)
    return text[:m.start(1)] + m.group(1).upper() + text[m.end(1):]   # attribute name case


# ---------------------------------------------------------------------------------------------
# unused-function programs
def gen_unused_program(rng, allow_dup=True, allow_nonstatic_local=True):
    """returns (files [(name, code)], tus (event lists), meta)"""
    nfiles = rng.choice([1, 2, 2, 3])
    names = ["f%d" % i for i in range(8)] + ["main", "helper", "operator_x"]
    fnames = ["u%d.c" % i for i in range(nfiles)]
    defined = {}          # name -> list of files
    files, tus = [], []
    plan = []
    for fi in range(nfiles):
        k = rng.choice([1, 2, 3, 4])
        mine = []
        for _ in range(k):
            n = rng.choice(names)
            if n in [m[0] for m in mine]:
                continue
            if n in defined and not allow_dup:
                continue
            static = rng.random() < 0.5 if n != "main" else False
            if n in defined and n != "main":
                static = True      # two external definitions of one name would not link; keep the program sensible
                if not all(s for (_, s) in defined[n]):
                    continue
            if not allow_nonstatic_local:
                pass
            defined.setdefault(n, []).append((fi, static))
            mine.append((n, static))
        plan.append(mine)
    ext = sorted(n for n, l in defined.items() if any(not s for (_, s) in l))
    for fi in range(nfiles):
        mine = plan[fi]
        lines = []
        for n in ext:
            if n not in [m[0] for m in mine] and n != "main":
                lines.append("void %s(void);" % n)
        for (n, s) in mine:
            if s:
                lines.append("static void %s(void);" % n)
        decls, calls = [], []
        for (n, s) in mine:
            callable_here = [m[0] for m in mine] + [e for e in ext if e not in [m[0] for m in mine]]
            body = []
            for _ in range(rng.choice([0, 0, 1, 2])):
                c = rng.choice(callable_here)
                if c == n or c == "main":
                    continue
                body.append(c)
            head = ("static " if s else "") + ("int " if n == "main" else "void ") + n
            line = head + "(void) { " + "".join("%s(); " % c for c in body) + ("return 0; " if n == "main" else "") + "}"
            lines.append(line)
            col = len(head) - len(n) + 1
            decls.append((n, fnames[fi], len(lines), col, True, s, False))
            for c in body:
                calls.append((c, fnames[fi]))
        files.append((fnames[fi], "\n".join(lines) + "\n"))
        tus.append((decls, calls))
    dup = any(len(l) > 1 for l in defined.values())
    return files, tus, dict(dup=dup)


def enc_unused_model(tus):
    s = [str(len(tus))]
    for decls, calls in tus:
        s.append(str(len(decls)))
        for (n, f, l, c, isc, st, ru) in decls:
            s += [hx(n), hx(f), str(l), str(c), "1" if isc else "0", "1" if st else "0", "1" if ru else "0"]
        s.append(str(len(calls)))
        for (n, f) in calls:
            s += [hx(n), hx(f)]
    return "unused " + " ".join(s)


def enc_unused_src(files):
    return "unusedsrc %d " % len(files) + " ".join("%s %s" % (hx(n), hx(c)) for n, c in files)


# ---------------------------------------------------------------------------------------------
# CLI tie
TEMPLATE = "{id}|{severity}|{file}|{line}|{column}|{message}|{callstack}"


def run_cli(binary, cwd, files, extra, jobs, bd):
    cmd = [binary, "-q", "--template=" + TEMPLATE, "-j%d" % jobs] + extra
    if bd:
        cmd.append("--cppcheck-build-dir=" + bd)
    rc, out, err = core.sh(cmd + files, cwd=cwd, timeout=300)
    lines = sorted(l for l in err.split("\n") if l.strip() and "|" in l)
    return rc, lines


def four_modes(ctx, binary, files, extra, tag, full=False):
    """files: dict name -> text.  Returns dict mode -> sorted finding lines"""
    d = os.path.join(ctx.tmp, "cli_" + tag)
    shutil.rmtree(d, ignore_errors=True)
    os.makedirs(d)
    for n, t in files.items():
        p = os.path.join(d, n)
        os.makedirs(os.path.dirname(p), exist_ok=True)
        open(p, "wb").write(t if isinstance(t, bytes) else t.encode())
    srcs = sorted(n for n in files if not n.endswith(".h"))
    res = {}
    res["j1"] = run_cli(binary, d, srcs, extra, 1, None)[1]
    os.makedirs(os.path.join(d, "bd1"))
    res["j1-bd-cold"] = run_cli(binary, d, srcs, extra, 1, "bd1")[1]
    res["j1-bd-warm"] = run_cli(binary, d, srcs, extra, 1, "bd1")[1]
    os.makedirs(os.path.join(d, "bd2"))
    res["j2-bd-cold"] = run_cli(binary, d, srcs, extra, 2, "bd2")[1]
    if full:
        res["j2-bd-warm"] = run_cli(binary, d, srcs, extra, 2, "bd2")[1]
    shutil.rmtree(d, ignore_errors=True)
    return res


def gen_cli_program(rng, k):
    """call chains across 3-4 files through a shared header; returns (files, extra options, description)"""
    nfiles = rng.choice([3, 3, 4])
    hdr = []
    bodies = ["#include \"x.h\"\n" for _ in range(nfiles)]
    nchains = rng.choice([1, 2, 2, 3])
    maxlen = 2
    kinds = []
    for c in range(nchains):
        kind = rng.choice(["null", "null", "uninit", "index"])
        length = rng.choice([2, 3, 3, 4]) if kind != "index" else rng.choice([2, 3])
        maxlen = max(maxlen, length)
        kinds.append("%s%d" % (kind, length))
        # functions c{c}_0 (entry, no pointer parameter) ... c{c}_{length-1} (the unsafe one)
        order = [rng.randrange(nfiles) for _ in range(length)]
        for i in range(1, length):
            hdr.append("void c%d_%d(int *p);" % (c, i))
        last = length - 1
        if kind == "index":
            bodies[order[last]] += "void c%d_%d(int *p) { p[%d] = 0; }\n" % (c, last, rng.choice([10, 20]))
        elif kind == "uninit":
            bodies[order[last]] += "void c%d_%d(int *p) { int v = *p; (void)v; }\n" % (c, last)
        else:
            bodies[order[last]] += "void c%d_%d(int *p) { *p = %d; }\n" % (c, last, c)
        for i in range(last - 1, 0, -1):
            bodies[order[i]] += "void c%d_%d(int *p) { c%d_%d(p); }\n" % (c, i, c, i + 1)
        if kind == "index":
            bodies[order[0]] += "void c%d_0(void) { int a[%d]; c%d_1(a); }\n" % (c, rng.choice([5, 10, 30]), c)
        elif kind == "uninit":
            bodies[order[0]] += "void c%d_0(void) { int x; c%d_1(&x); }\n" % (c, c)
        else:
            bodies[order[0]] += "void c%d_0(void) { c%d_1(%s); }\n" % (c, c, rng.choice(["0", "0", "(int*)0"]))
    files = {"x.h": "\n".join(hdr) + "\n"}
    for i in range(nfiles):
        files["m%d.c" % i] = bodies[i]
    extra = ["--max-ctu-depth=%d" % max(2, maxlen)] if (maxlen > 3 or rng.random() < 0.3) else []
    if rng.random() < 0.4:
        extra.append("--enable=warning")
    return files, extra, "chains=" + ",".join(kinds)


def gen_cli_classes(rng):
    a = "struct S%d { int a; int f() { return a; } };\nint ua(S%d *s) { return s->f(); }\n" % (1, 1)
    b = "struct S%d { %s b; int f() { return 0; } };\nint ub(S%d *s) { return s->f(); }\n" % (1, rng.choice(["char", "long", "int"]), 1)
    c = "struct T { int t; };\n"
    return {"k1.cpp": a, "k2.cpp": b, "k3.cpp": c}, [], "odr"


def gen_cli_unused(rng):
    files = {"x.h": "void used1(void);\nvoid used2(void);\n",
             "n0.c": "#include \"x.h\"\nvoid used1(void) { }\nvoid lonely%d(void) { }\nint main(void) { used1(); used2(); return 0; }\n" % rng.randrange(10),
             "n1.c": "#include \"x.h\"\nvoid used2(void) { used1(); }\nvoid alone%d(void) { }\n" % rng.randrange(10),
             "n2.c": "#include \"x.h\"\nstatic void priv(void) { }\nvoid caller(void) { priv(); }\n"}
    return files, ["--enable=unusedFunction"], "unused"


MAX_PER_CLASS = 3


def report(res, cls, what, replay, key=None):
    """register a concrete violation; at most MAX_PER_CLASS replays per class, the rest is only counted"""
    n = res.dist.get("violations:" + cls, 0)
    res.count("violations:" + cls)
    if n < MAX_PER_CLASS:
        res.violation(what, replay, concrete=True, key=key)


def corpus():
    p = os.path.join(core.VERIF, "corpus", "C22", "cases.json")
    return json.load(open(p)) if os.path.exists(p) else {}


# ---------------------------------------------------------------------------------------------
def roundtrip_check(ctx, res, kind, ops_vals, impl, known_counter):
    """P_impl on the implementation: loaded value == input value.  ops_vals: list of (op line, expected L, class key or None, desc)"""
    for (op, expect, key, sp_expected), o in zip(ops_vals, impl):
        L = re.search(r" L=(.*?)(?: \| sp=([01]))?$", o)
        got = L.group(1) if L else "?"
        sp = L.group(2) if L else None
        if got == expect:
            res.count("roundtrip-ok:" + kind)
            if key:
                res.count("roundtrip-ok-despite:" + key)
            continue
        k = key
        if k is None and sp == "0":
            k = "path-file-not-simplified"
        res.count("roundtrip-fails:" + (k or "UNCLASSIFIED"))
        if k in ("raw-field-special", "path-file-not-simplified"):
            known_counter[k] = known_counter.get(k, 0) + 1       # outside the summaries the analysis can produce; hypothesis of the theorem
            continue
        report(res, "roundtrip:%s:%s" % (kind, k), "summary does not survive the build dir (%s): load(toString v) != v on the real code; op=%s got L=%s" % (kind, op[:400], got[:400]),
               dict(kind="roundtrip", op=op, expected=expect, got=got, replay_cmd="./check.py C22 --replay <this file>"), key=k)


def run(ctx, res):
    rng = ctx.rng
    thorough = ctx.tier == "thorough"
    core.prove(ctx, res, MODULES, THEOREMS)
    res.assumptions += [
        "strings written through ErrorLogger::toxml are XML-safe (TAB, LF, CR, 0x20..0x7f); otherwise finding F18 (toxml-lossy-byte)",
        "strings written raw (function ids = file:line:col, argument names) contain no '\"', '&', CR, NUL (counterexample rawField_counterexample; in-process witness)",
        "numbers are values of their C++ field types; value-path file names are Path::simplifyPath fixpoints (FileLocation stores the simplified name)",
        "unusedFunction: UnusedHyp (no '<' in defined names, no unused attribute on the return-type token, real locations, one location per name; "
        "otherwise findings F19 / counterexample theorems) and TextOk (names / files XML-safe)",
        "the whole-program checks are functions of the loaded summaries (file0 of loaded infos, Settings, 'one or several jobs' are outside the Lean model: jobs only change "
        "which summaries are kept in memory, compared on the CLI)",
        "Path::simplifyPath is a parameter; comments/CDATA/DTD in cache files and cached <error> elements are outside the model",
    ]
    drv = ctx.driver("drv_c22")
    exe = harness_exe(ctx, res)
    binary = cppcheck_bin(ctx, res)
    translator_checks(ctx, res)
    translator_checks_wp(ctx, res)
    scale = 6 if thorough else 1
    import time
    t_last = [time.time()]

    def lap(name):
        res.extra.setdefault("stage_s", {})[name] = round(time.time() - t_last[0], 1)
        t_last[0] = time.time()
    corp = corpus()
    hyp_counter = {}

    # ---- corpus first: witnesses of the counterexample theorems and past disagreements ---------------------
    replay_corpus(ctx, res, exe, drv, binary, corp, hyp_counter)

    lap("corpus")
    # ---- C1 esc / C2 raw ------------------------------------------------------------------------------------
    ops = ["esc " + hx(bytes(range(0, 256)))]
    for _ in range(150 * scale):
        ops.append("esc " + hx(rng.choice([rnd_wild, rnd_xmlsafe, rnd_rawsafe])(rng)))
    impl, model, _ = run_pair(ctx, res, exe, drv, "esc", ops, nontrivial=lambda i: len(ops[i]) > 8)
    for op, o in zip(ops, impl):      # P_impl of the text layer: decode(toxml s) == s exactly on the safe class
        s = core.unhx(op.split()[1])
        d = field(o, "D")
        if is_xmlsafe(s) and d != hx(s):
            report(res, "esc", "toxml followed by the attribute reader changes an XML-safe string: %r -> %s" % (s, d), dict(kind="esc", op=op, got=o))
    ops = []
    for _ in range(250 * scale):
        k = rng.random()
        if k < 0.25:
            ops.append("raw " + hx(rng.choice(JUNKNUM + [b"12", b"-5", b"  42", b"0x7fffffffffffffff", b"0xffffffffffffffff", b"0x1ffffffffffffffff", b"9223372036854775808"])))
        else:
            ops.append("raw " + hx(rng.choice([rnd_wild, rnd_wild, rnd_rawsafe])(rng)))
    run_pair(ctx, res, exe, drv, "raw", ops, nontrivial=lambda i: len(ops[i]) > 8)

    lap("esc-raw")
    # ---- C3 doc -------------------------------------------------------------------------------------------
    ops = []
    for _ in range(200 * scale):
        t = gen_xml(rng, 0, rng.choice([0.0, 0.0, 0.15])).encode("latin-1", "replace")
        if rng.random() < 0.25:
            t = b"<?xml version=\"1.0\"?>\n" + t
        if rng.random() < 0.35:
            t = damage(rng, t)
        ops.append("doc " + hx(t))
    run_pair(ctx, res, exe, drv, "doc", ops, nontrivial=lambda i: len(ops[i]) > 30)

    lap("doc")
    # ---- C4 fi / uu : writers + readers, P_impl ---------------------------------------------------------------------
    ops, vals = [], []
    for _ in range(160 * scale):
        mode = rng.choice(["domain", "domain", "domain", "domain", "lossy", "raw", "wild"])
        fcs = [gen_fc(rng, mode) for _ in range(rng.choice([0, 1, 1, 2, 3]))]
        ncs = [gen_nc(rng, mode) for _ in range(rng.choice([0, 1, 1, 2]))]
        op = "fi " + enc_fi(fcs, ncs)
        esc, raw, pf = fi_strings(fcs, ncs)
        ops.append(op)
        vals.append((op, enc_fi(fcs, ncs), classify_strings(esc, raw), None))
        res.count("fi-mode:" + mode)
    impl, model, _ = run_pair(ctx, res, exe, drv, "fi", ops, canon_impl=strip_sp, skip_impl=lambda o: o.endswith("sp=0"),
                              nontrivial=lambda i: (" FC " in ops[i] or " NC " in ops[i]) and any(x in ops[i] for x in ("3c", "26", "22", " NC ", "2147483647", "922337")))
    roundtrip_check(ctx, res, "ctu", vals, impl, hyp_counter)
    fi_texts = [core.unhx(field(o, "T")) for o in model if field(o, "T") not in (None, "-")]
    ops, vals = [], []
    for _ in range(80 * scale):
        mode = rng.choice(["domain", "domain", "domain", "lossy", "raw", "wild"])
        l = [gen_uu(rng, mode) for _ in range(rng.choice([0, 1, 2, 3]))]
        op = "uu " + enc_uus(l)
        esc = [u["loc"][0] for u in l]
        raw = [u["myId"] for u in l] + [u["name"] for u in l]
        ops.append(op)
        vals.append((op, enc_uus(l), classify_strings(esc, raw), None))
    impl, model, _ = run_pair(ctx, res, exe, drv, "uu", ops, nontrivial=lambda i: " UU " in ops[i])
    roundtrip_check(ctx, res, "unsafe-usage", vals, impl, hyp_counter)
    uu_texts = [core.unhx(field(o, "T")) for o in model if field(o, "T") not in (None, "-")]

    lap("fi-uu")
    # ---- C5 chk : the four checks' loadFileInfoFromXml + toString on model-written text --------------------------
    pre, meta = [], []
    for _ in range(60 * scale):
        mode = rng.choice(["domain", "domain", "domain", "lossy", "wild"])
        l = [gen_cd(rng, mode) for _ in range(rng.choice([0, 1, 2, 3]))]
        pre.append("cdtext %d %s" % (len(l), " ".join(enc_cd(c) for c in l)))
        esc = [x for c in l for x in (c["name"], c["file"], c["cfg"])]
        meta.append(("Class", classify_strings(esc, []), len(l)))
    for _ in range(40 * scale):
        mode = rng.choice(["domain", "domain", "lossy", "raw"])
        a = [gen_uu(rng, mode) for _ in range(rng.choice([0, 1, 2]))]
        b = [gen_uu(rng, mode) for _ in range(rng.choice([0, 0, 1, 2]))]
        pre.append("bitext %s %s" % (enc_uus(a), enc_uus(b)))
        meta.append(("Bounds checking", classify_strings([u["loc"][0] for u in a + b], [u["myId"] for u in a + b] + [u["name"] for u in a + b]), len(a) + len(b)))
    rc, pout, err = core.run_lines(drv, [], pre, timeout=600)
    ops, keys = [], []
    for (chk, key, n), o in zip(meta, pout):
        t = field(o, "T")
        if t is None:
            raise core.CheckBroken("driver pre-pass: " + o)
        ops.append("chk %s %s" % (hx(chk), t))
        keys.append((chk, key, n, t))
    for t in rng.sample(uu_texts, min(len(uu_texts), 30 * scale)):
        for chk in ("Null pointer", "Uninitialized variables"):
            ops.append("chk %s %s" % (hx(chk), hx(t)))
            keys.append((chk, "n/a", 1, hx(t)))
    for _ in range(40 * scale):       # damaged class / buffer summaries
        base = core.unhx(rng.choice([k_ for k_ in keys if k_[3]])[3]) if any(k_[3] for k_ in keys) else b""
        ops.append("chk %s %s" % (hx(rng.choice(CHECKS)), hx(mutate_summary(rng, base))))
        keys.append((None, "n/a", 0, None))
    impl, model, _ = run_pair(ctx, res, exe, drv, "chk", ops, nontrivial=lambda i: len(ops[i]) > 40)
    for (chk, key, n, t), o, op in zip(keys, impl, ops):      # P_impl: toString(load(text)) == text
        if chk in ("Class", "Bounds checking") and key != "n/a" and n > 0:
            r = field(o, "R")
            if r != t:
                res.count("roundtrip-fails:" + (key or "UNCLASSIFIED"))
                if key == "raw-field-special":
                    hyp_counter[key] = hyp_counter.get(key, 0) + 1
                    continue
                report(res, "chk:%s:%s" % (chk, key), "check summary (%s) does not survive the build dir: toString(load(text)) != text; got %s" % (chk, (r or "")[:300]),
                       dict(kind="chk", op=op, got=o), key=key)
            else:
                res.count("roundtrip-ok:" + chk)

    lap("chk")
    # ---- C6 ld : readers on damaged summaries ------------------------------------------------------------------
    ops = []
    for _ in range(150 * scale):
        if fi_texts and rng.random() < 0.6:
            ops.append("ld ctu " + hx(mutate_summary(rng, rng.choice(fi_texts))))
        elif uu_texts:
            ops.append("ld uu " + hx(mutate_summary(rng, rng.choice(uu_texts))))
    run_pair(ctx, res, exe, drv, "ld", ops, nontrivial=lambda i: len(ops[i]) > 60)

    lap("ld")
    # ---- C7 file : the real cache file -------------------------------------------------------------------------
    ops = []
    for _ in range(25 * scale):
        infos = []
        for _ in range(rng.choice([0, 1, 2, 3])):
            k = rng.random()
            if k < 0.4 and fi_texts:
                infos.append((b"ctu", rng.choice(fi_texts)))
            elif k < 0.7 and uu_texts:
                infos.append((rng.choice([b"Null pointer", b"Uninitialized variables"]), rng.choice(uu_texts)))
            elif k < 0.8:
                infos.append((rng.choice([b"ctu", b"Class"]), b""))
            elif keys:
                t = rng.choice([k_ for k_ in keys if k_[3]])[3]
                infos.append((b"Class", core.unhx(t)))
        ops.append("file %d %d %s" % (rng.choice([0, 1, 2 ** 64 - 1, rng.randrange(2 ** 64)]), len(infos), " ".join("%s %s" % (hx(c), hx(t)) for c, t in infos)))
    run_pair(ctx, res, exe, drv, "file", [o.rstrip() for o in ops], nontrivial=lambda i: len(ops[i]) > 60)

    lap("file")
    # ---- C8 path : the walk ------------------------------------------------------------------------------------
    ops = []
    ids = [b"A", b"B", b"C", b"D"]
    for _ in range(300 * scale):
        fcs, ncs = [], []
        for _ in range(rng.choice([1, 2, 3, 4])):
            c = gen_fc(rng, "domain")
            c.update(callId=rng.choice(ids), argnr=rng.choice([1, 1, 1, 2]), vt=rng.choice([0, 0, 4, 7, 7]), val=rng.choice([0, 0, 0, 1, -1, 10, 40]),
                     ufr=rng.choice([0, 0, 0, 1]), warn=rng.random() < 0.3)
            fcs.append(c)
        for _ in range(rng.choice([0, 1, 2, 3, 4, 5])):
            c = gen_nc(rng, "domain")
            c.update(callId=rng.choice(ids), argnr=rng.choice([1, 1, 1, 2]), myId=rng.choice(ids), myArgNr=rng.choice([1, 1, 1, 2]))
            ncs.append(c)
        u = gen_uu(rng, "domain")
        u.update(myId=rng.choice(ids), myArgNr=rng.choice([1, 1, 1, 2]), value=rng.choice([-1, 0, 5, 10, 20, 100]))
        inv, warn, depth = rng.randrange(3), rng.randrange(2), rng.choice([0, 1, 2, 2, 3, 5, 10])
        if rng.random() < 0.5:
            # a deliberate chain: unsafe function <- nested <- ... <- function call that supplies the bad value
            k = rng.choice([1, 2, 2, 3, 4])
            chain = rng.sample([b"A", b"B", b"C", b"D", b"E"], k)
            args = [rng.choice([1, 1, 2]) for _ in range(k)]
            u.update(myId=chain[0], myArgNr=args[0])
            for j in range(k - 1):
                c = gen_nc(rng, "domain")
                c.update(callId=chain[j], argnr=args[j], myId=chain[j + 1], myArgNr=args[j + 1])
                ncs.insert(rng.randrange(len(ncs) + 1), c)
            c = gen_fc(rng, "domain")
            c.update(callId=chain[-1], argnr=args[-1], vt=[0, 4, 7][inv], val=rng.choice([0, 0, 0, 10]), ufr=rng.choice([0, 0, 0, 1]), warn=rng.random() < 0.2)
            fcs.insert(rng.randrange(len(fcs) + 1), c)
            depth = rng.choice([k - 1, k, k, k + 1, 10]) if k > 1 else depth
        ops.append("path %d %d %d %s %s" % (inv, warn, max(0, min(10, depth)), enc_fi(fcs, ncs), enc_uu(u)))
    impl, model, _ = run_pair(ctx, res, exe, drv, "path", ops, nontrivial=lambda i: True)
    res.extra["paths_found"] = sum(1 for o in impl if not o.startswith("0"))
    res.extra["paths_through_nested"] = sum(1 for o in impl if "43616c6c696e672066756e6374696f6e20" in o and o.count("43616c6c696e672066756e6374696f6e20") >= 2)
    res.oblig("path:nested-walks-exercised", res.extra["paths_through_nested"] >= 10, "correspondence",
              "only %d generated call graphs were walked through a nested call" % res.extra["paths_through_nested"])

    lap("path")
    # ---- C8b unused-function algorithms on generated programs --------------------------------------------------
    mops, hops, metas = [], [], []
    for _ in range(60 * scale):
        files, tus, meta = gen_unused_program(rng)
        mops.append(enc_unused_model(tus))
        hops.append(enc_unused_src(files))
        metas.append((files, tus, meta))
    impl, model, _ = run_pair(ctx, res, exe, drv, "unused", mops, hops=hops, nontrivial=lambda i: "M=" in mops[i] or True)
    for (files, tus, meta), o, hop in zip(metas, impl, hops):      # P_impl: build-dir result == in-memory result
        M, S, B = field(o, "M"), field(o, "S"), field(o, "B")
        if M is None:
            res.count("unused:" + o[:20])
            continue
        if M != B:
            key = "unused-duplicate-name-location" if meta["dup"] else None
            res.count("unused-differs:" + (key or "UNCLASSIFIED"))
            report(res, "unused:%s" % key, "unusedFunction findings differ between the in-memory and the build-dir algorithm: in-memory=%s build-dir=%s" % (M, B),
                   dict(kind="unused", files=files, in_memory=M, build_dir=B, op=hop), key=key)
        else:
            res.count("unused-equal")
        if S:
            res.count("unused:staticFunction-only-in-memory")
            report(res, "unused-static", "staticFunction is reported only by the in-memory algorithm (%s); the build-dir algorithm has no such finding" % S,
                   dict(kind="unused-static", files=files, static=S, op=hop), key="staticfunction-missing-with-build-dir")

    lap("unused")
    # ---- C8c wp: the objects of the main theorem (cache files with six <FileInfo> elements, fromBuildDir, inMemory) ----------
    mops, metas = [], []
    for _ in range(50 * scale):
        tus = []
        lossy = rng.random() < 0.2
        for _ in range(rng.choice([1, 2, 2, 3])):
            mode = "lossy" if (lossy and rng.random() < 0.5) else "domain"
            fcs = [gen_fc(rng, mode) for _ in range(rng.choice([0, 0, 1, 2]))]
            ncs = [gen_nc(rng, mode) for _ in range(rng.choice([0, 0, 1, 2]))]
            a = [gen_uu(rng, mode) for _ in range(rng.choice([0, 0, 1, 2]))]
            b = [gen_uu(rng, mode) for _ in range(rng.choice([0, 0, 1, 2]))]
            cds = [gen_cd(rng, mode) for _ in range(rng.choice([0, 0, 1, 2]))]
            np_ = [gen_uu(rng, mode) for _ in range(rng.choice([0, 0, 1, 2]))]
            un = [gen_uu(rng, mode) for _ in range(rng.choice([0, 0, 1, 2]))]
            fname = "w%d.c" % len(tus)
            decls = [(rng.choice(["f0", "f1", "f2", "main", "g<1>"]) if rng.random() < 0.9 else "k\xe9", fname, rng.randrange(1, 50), rng.randrange(1, 30), True, rng.random() < 0.5, False)
                     for _ in range(rng.choice([0, 1, 2]))]
            calls = [(rng.choice(["f0", "f1", "f2", "ext"]), fname) for _ in range(rng.choice([0, 0, 1, 2]))]
            tus.append(dict(hash=rng.choice([0, 1, 2 ** 64 - 1, rng.randrange(2 ** 64)]), fcs=fcs, ncs=ncs, a=a, b=b, cds=cds, np=np_, un=un, decls=decls, calls=calls))
        words = ["wp", str(len(tus))]
        strs_esc, strs_raw, sp_ok = [], [], True
        for t in tus:
            words += [str(t["hash"]), enc_fi(t["fcs"], t["ncs"]), enc_uus(t["a"]), enc_uus(t["b"]), str(len(t["cds"]))] + [enc_cd(c) for c in t["cds"]]
            words += [enc_uus(t["np"]), enc_uus(t["un"]), str(len(t["decls"]))]
            for (n, f, l, c, isc, st, ru) in t["decls"]:
                words += [hx(n), hx(f), str(l), str(c), "1", "1" if st else "0", "0"]
            words.append(str(len(t["calls"])))
            for (n, f) in t["calls"]:
                words += [hx(n), hx(f)]
            e, r, pf = fi_strings(t["fcs"], t["ncs"])
            strs_esc += e + [u["loc"][0] for u in t["a"] + t["b"] + t["np"] + t["un"]] + [x for c in t["cds"] for x in (c["name"], c["file"], c["cfg"])]
            strs_esc += [n.encode("latin-1") for (n, *_r) in t["decls"]] + [n.encode("latin-1") for (n, _f) in t["calls"]]
            strs_raw += r + [u["myId"] for u in t["a"] + t["b"] + t["np"] + t["un"]] + [u["name"] for u in t["a"] + t["b"] + t["np"] + t["un"]]
        mops.append(" ".join(words))
        metas.append(classify_strings(strs_esc, strs_raw))
    rc, mout, err = core.run_lines(drv, [], mops, timeout=900)
    if len(mout) != len(mops):
        raise core.CheckBroken("C22 driver produced %d lines for %d wp ops: %s" % (len(mout), len(mops), err[-300:]))
    hops, parsed = [], []
    for o in mout:
        m = re.match(r"^W=(.*) I=(.*) B=(\S*) P=(\S*)$", o)
        if not m:
            raise core.CheckBroken("C22 driver wp line: " + o[:300])
        W, I, B, P = m.groups()
        parsed.append((W, I, B))
        fw = []
        for fdesc in P.split(","):
            h, infos = fdesc.split(":", 1)
            pairs = [x.split("=") for x in infos.split(";")]
            fw.append("%s %d %s" % (h, len(pairs), " ".join("%s %s" % (a_, b_) for a_, b_ in pairs)))
        hops.append("wpload %d %s" % (len(fw), " ".join(fw)))
    rc, hout, err = core.run_lines([exe, ctx.tmp], [], hops, timeout=900)
    if len(hout) != len(hops):
        raise core.CheckBroken("C22 harness produced %d lines for %d wpload ops: %s" % (len(hout), len(hops), err[-300:]))
    mism, nontriv = [], 0
    for i, ((W, I, B), o, key) in enumerate(zip(parsed, hout, metas)):
        want = "W=%s B=%s" % (W, B)
        nt = ("FC " in W or "NC " in W) and ("|buf:|" not in W or "|cls:|" not in W)
        res.case("wp|" + mops[i], nt, dict(tie="wp", op=mops[i][:300], impl=o[:300], model=want[:300]) if i == 0 else None)
        res.count("op:wp")
        if o != want:
            mism.append(i)
        else:
            res.traces_validated += 1
        # the theorem instance, executed: what the model reads back from its own cache files = the in-memory aggregation
        if key is None and W != I:
            report(res, "wp-model", "model: fromBuildDir(store) != inMemory on a summary list inside the hypotheses (theorem wholeProgram_storage_independent_realFiles would be false): %s" % mops[i][:300],
                   dict(kind="wp", op=mops[i], W=W, I=I))
        # P_impl on the real code: the real readers on the real cache files give the in-memory aggregation
        hw = o.split(" B=")[0][2:]
        if hw != I:
            if key in ("raw-field-special",):
                hyp_counter[key] = hyp_counter.get(key, 0) + 1
            else:
                report(res, "wp:%s" % key, "whole-program input read from the cache files differs from the in-memory input: op=%s read=%s in-memory=%s" % (mops[i][:300], hw[:300], I[:300]),
                       dict(kind="wp", op=mops[i], hop=hops[i], read=hw, in_memory=I), key=key)
        else:
            res.count("wp-roundtrip-ok")
    res.oblig("correspondence:wp", not mism, "correspondence",
              "" if not mism else "%d of %d ops differ; first: op=%s impl=%s model=W=%s B=%s" % (len(mism), len(mops), mops[mism[0]][:400], hout[mism[0]][:600], parsed[mism[0]][0][:400], parsed[mism[0]][2][:200]))
    lap("wp")
    # ---- C9 CLI: the four storage modes ---------------------------------------------------------------------------
    ncli = 48 if thorough else 12
    # every generator is drawn in every run: chains (most), one-definition-rule classes, unused functions
    plan = ["chains"] * (ncli - 2 * max(2, ncli // 6)) + ["odr"] * max(2, ncli // 6) + ["unused"] * max(2, ncli // 6)
    nfind = 0
    cases = []
    for k in range(ncli):
        if plan[k] == "chains":
            cases.append(gen_cli_program(rng, k))
        elif plan[k] == "odr":
            cases.append(gen_cli_classes(rng))
        else:
            cases.append(gen_cli_unused(rng))
    # the cppcheck runs of different cases are independent (own scratch directory each): three cases at a time
    from concurrent.futures import ThreadPoolExecutor
    with ThreadPoolExecutor(max_workers=3) as pool:
        all_modes = list(pool.map(lambda kc: four_modes(ctx, binary, kc[1][0], kc[1][1], "g%d" % kc[0], full=thorough), enumerate(cases)))
    for k in range(ncli):
        files, extra, desc = cases[k]
        modes = all_modes[k]
        ref = modes["j1"]
        nfind += len(ref)
        res.case("cli|" + json.dumps(files, sort_keys=True) + "|" + " ".join(extra), len(ref) > 0,
                 dict(tie="cli", op=desc + " " + " ".join(extra), impl="%d findings in -j1" % len(ref), model="all modes equal: %s" % all(v == ref for v in modes.values())) if k < 2 else None)
        res.count("cli:" + desc.split("=")[0])
        bad = [m for m, v in modes.items() if v != ref]
        if bad:
            nested_lost = any("ctu" in l for l in ref) and all(len(modes[m]) < len(ref) for m in bad)
            report(res, "cli", "whole-program findings differ between storage modes (%s): -j1 reports %d, %s reports %d; first missing: %s" %
                   (desc, len(ref), bad[0], len(modes[bad[0]]), [l for l in ref if l not in modes[bad[0]]][:1]),
                   dict(kind="cli", files=files, extra=extra, modes=modes, nested_lost=nested_lost))
        else:
            res.traces_validated += 1
    lap("cli")
    res.extra["cli_cases"] = ncli
    res.extra["cli_reference_findings"] = nfind
    res.oblig("cli:programs-produce-findings", nfind > 0, "correspondence", "" if nfind else "no generated program produced a whole-program finding")
    res.extra["hypothesis_class_hits"] = hyp_counter


# ---------------------------------------------------------------------------------------------
def replay_corpus(ctx, res, exe, drv, binary, corp, hyp_counter):
    """witnesses: (a) counterexample theorems replayed on the real code, (b) known-finding witnesses, (c) past disagreements"""
    # (a)+(c): in-process ops, both sides must agree; listed P_impl expectations are checked
    ops = [c["op"] for c in corp.get("ops", [])]
    hops = [c.get("hop", c["op"]) for c in corp.get("ops", [])]
    if ops:
        impl, model, _ = run_pair(ctx, res, exe, drv, "corpus", ops, hops=hops, canon_impl=strip_sp, skip_impl=lambda o: o.endswith("sp=0"))
        for c, o in zip(corp["ops"], impl):
            if "expect_L" in c:
                got = re.search(r" L=(.*?)(?: \| sp=[01])?$", o)
                got = got.group(1) if got else "?"
                holds = got == c["expect_L"]
                if c.get("roundtrip") == "fails" and holds:
                    res.notes.append("corpus witness %s no longer fails on the real code (hypothesis may be droppable)" % c["name"])
                    res.count("corpus:witness-no-longer-fails")
                elif c.get("roundtrip") == "fails":
                    res.count("corpus:counterexample-reproduced")
                    if c.get("key") in ("toxml-lossy-byte",):
                        res.violation(c["what"], dict(kind="corpus", name=c["name"], op=c["op"], got=got), concrete=True, key=c["key"])
                elif not holds:
                    res.violation("corpus case %s: round trip fails on the real code: %s" % (c["name"], got[:300]), dict(kind="corpus", name=c["name"], op=c["op"], got=got),
                                  concrete=True, key=c.get("key"))
    # (b) CLI witnesses
    for c in corp.get("cli", []):
        files = {k: (v.encode("latin-1") if c.get("latin1") else v) for k, v in c["files"].items()}
        modes = four_modes(ctx, binary, files, c.get("extra", []), "corpus_" + c["name"])
        ref = modes["j1"]
        differs = any(v != ref for v in modes.values())
        res.case("cli-corpus|" + c["name"], True, None)
        if c.get("expect") == "differs":
            if differs:
                res.violation(c["what"], dict(kind="cli-corpus", name=c["name"], modes=modes), concrete=True, key=c["key"])
            else:
                res.notes.append("CLI witness %s no longer reproduces" % c["name"])
        elif differs:
            res.violation("CLI corpus case %s: storage modes differ: %s" % (c["name"], {m: len(v) for m, v in modes.items()}),
                          dict(kind="cli-corpus", name=c["name"], modes=modes, files=c["files"]), concrete=True, key=c.get("key"))
        else:
            res.traces_validated += 1


def replay(ctx, res, rp):
    drv = ctx.driver("drv_c22")
    exe = harness_exe(ctx, res)
    binary = cppcheck_bin(ctx, res)
    kind = rp.get("kind")
    bad = 0
    if kind in ("cli", "cli-corpus") and "files" in rp:
        modes = four_modes(ctx, binary, rp["files"], rp.get("extra", []), "replay")
        ref = modes["j1"]
        for m, v in modes.items():
            print("%-12s %d findings%s" % (m, len(v), "" if v == ref else "   <-- differs from -j1"))
            if v != ref:
                bad = 1
                for l in ref:
                    if l not in v:
                        print("   missing: " + l[:200])
                for l in v:
                    if l not in ref:
                        print("   extra:   " + l[:200])
    elif "op" in rp:
        op = rp["op"]
        hop = op
        rc, impl, err = core.run_lines([exe, ctx.tmp], [], [hop])
        mop = op if not op.startswith("unusedsrc") else None
        print("impl : " + (impl[0] if impl else "?")[:2000])
        if mop:
            rc, model, err = core.run_lines(drv, [], [mop])
            print("model: " + (model[0] if model else "?")[:2000])
        if "expected" in rp:
            got = re.search(r" L=(.*?)(?: \| sp=[01])?$", impl[0])
            bad = 0 if (got and got.group(1) == rp["expected"]) else 1
        elif kind in ("unused", "unused-static"):
            M, S, B = field(impl[0], "M"), field(impl[0], "S"), field(impl[0], "B")
            bad = 1 if (M != B or (kind == "unused-static" and S)) else 0
        elif kind == "chk":
            bad = 1 if field(impl[0], "R") != op.split()[2] else 0
    if bad:
        print("VIOLATION property=C22 replay=(replayed) still fails")
    print("replay: %s" % ("still fails" if bad else "passes"))
    return bad

"""C27 — severity and certainty options gate findings monotonically.     (translator-tied property, level "other")

T   translator  clang JSON AST of every check class (c27_extract.py, cached by content hash) -> abstract interpreter
                (c27_guards.py) -> lean/Cppcheck/Gen/SeverityGuards.lean: one row per (emission site, severity, certainty) with
                a guard formula in which every option test keeps its real polarity.  Fail closed: textual `reportError(` occurrences that no AST
                call explains, clang failures, changed summaries (Settings::isEnabled(value,...), Value::errorSeverity,
                isPremiumEnabled, SimpleEnableGroup::isEnabled, flag defaults) are undischarged obligations.
    theorems    Props/C27.lean: gated_partial / inconclusive_gated_partial / gated_cli_partial and table_positive (no row tests an
                option for being disabled) are DECIDED over the WHOLE generated table; table_monotone follows from table_positive
                by monotone_of_positive / posOk_sound (monotone_needs_positive: false without positivity); minus the rows listed in corpus/C27/exempt.json (hand-maintained, every
                entry with a reason; an entry is either a demonstrated finding with a CLI witness or an unresolved site that only
                the CLI correspondence decides).  A guard removed in /repo makes its rows ungated -> `decide` fails -> violation
                search with the CLI.
C   correspondence / P_impl   the built cppcheck over a corpus (samples, test/cfg, snippets mined from /repo/test/test*.cpp,
                corpus/C27 witnesses) under exact severity subsets x --inconclusive:
                  (1) every finding's severity is enabled (or error / internal), inconclusive findings only with --inconclusive,
                  (2) monotonicity: findings(o) is a sub-multiset of findings(o') for o <= o',
                  (3) tie: every finding of a check class is `possible` for some table row of its id / severity / certainty
                      (asked from the compiled Lean driver) — validates the translator against the implementation.
"""
import glob, hashlib, json, os, re, time, itertools, collections
import xml.etree.ElementTree as ET
from concurrent.futures import ThreadPoolExecutor

from .. import core
from . import c27_extract as X
from . import c27_guards as G

ID = "C27"
LEVEL = "other"
RULE = ("case = (input file, exact set of enabled severities among warning/style/performance/portability/information, "
        "--inconclusive on/off) run through the built cppcheck (--xml); inputs: corpus/C27 witnesses, /repo/samples/*/bad.c*, "
        "/repo/test/cfg/*.c*, code snippets mined from the string literals of /repo/test/test*.cpp; a case is non-trivial when the "
        "file reports at least one finding of a gated severity or of inconclusive certainty under the full option set; "
        "distinct = distinct (file content, option set)")
EXPLANATION = ("Lean, over the table regenerated from the current source (decide +kernel on every run): (i) gating of severity and "
               "of inconclusive certainty for every row except those of corpus/C27/exempt.json (theorems *_partial; the unrestricted "
               "statements are proved false: *_counterexample); (ii) every row is in the positive fragment of the guard language — "
               "option tests are extracted with their real polarity, an emission under `if (isEnabled(x)) return;` makes "
               "table_positive fail — hence per-site monotonicity for a fixed environment (table_monotone). The excluded rows are "
               "listed in the evidence (undischarged_sites): demonstrated findings (CLI witness, known_findings.d/C27.json) and sites "
               "whose guard is carried by data the dominance analysis cannot see (each with its reason in docs/C27.md). What is NOT "
               "proved: soundness of the extracted rows w.r.t. the C++ (translator claim, validated by the tie: every observed "
               "finding must be possible for a row; tie_coverage says how many rows were exercised); monotonicity ACROSS checks "
               "(a finding suppressed because another check reported the token first, diag()): CLI correspondence only, three "
               "known findings; value selection: ValueFlow::findValue is modelled (select-then-gate, proved monotone, compared in-process "
               "with the real function; the filter-then-select shape is proved non-monotone and rejected by the translator), composite "
               "selectors in the checks (getValueGE then getValueLE) only by CLI templates (two known findings); 'alters a finding': sampled only. Emitters outside lib/check*.cpp (preprocessor, tokenizer, symbol "
               "database, cppcheck.cpp; addons = C34): CLI only. Checks::unusedFunction / missingInclude, --check-library, premium and "
               "safe-checks flags are held at their defaults.")
THEOREMS = ["Cppcheck.SevGate.gated_partial", "Cppcheck.SevGate.gated_cli_partial", "Cppcheck.SevGate.inconclusive_gated_partial",
            "Cppcheck.SevGate.table_positive", "Cppcheck.SevGate.table_monotone", "Cppcheck.SevGate.monotone_of_positive",
            "Cppcheck.SevGate.monotone_needs_positive", "Cppcheck.SevGate.gated_counterexample", "Cppcheck.SevGate.inconclusive_counterexample",
            "Cppcheck.SevGate.possible_of_mayReport", "Cppcheck.SevGate.Select.findValue_monotone", "Cppcheck.SevGate.Select.findValue_gated",
            "Cppcheck.SevGate.Select.findValueFiltered_not_monotone"]
MODULES = ["Cppcheck.Props.C27"]

REPO = core.REPO
CORPUS = os.path.join(core.VERIF, "corpus", "C27")
SEVS = ["error", "warning", "style", "performance", "portability", "information", "debug", "internal", "none"]
SEVBIT = {s: i for i, s in enumerate(SEVS)}
GATED = ["warning", "style", "performance", "portability", "information"]


# =================================================================================================================
# translator
# =================================================================================================================

def norm_ws(s):
    return re.sub(r"\s+", " ", s).strip()


def function_text(path, header_rx):
    """text of the function whose header matches header_rx (balanced braces), whitespace-normalised"""
    try:
        t = open(path, encoding="utf-8", errors="replace").read()
    except OSError:
        return None
    m = re.search(header_rx, t)
    if not m:
        return None
    i = t.find("{", m.end() - 1)
    if i < 0:
        return None
    d, j = 0, i
    while j < len(t):
        if t[j] == "{":
            d += 1
        elif t[j] == "}":
            d -= 1
            if d == 0:
                break
        j += 1
    return norm_ws(t[i:j + 1])


SUMMARIES = [
    # (what, file, header regex, expected normalised body  |  predicate on the body)
    ("Settings::isEnabled(const ValueFlow::Value*, bool)", "lib/settings.cpp", r"bool\s+Settings::isEnabled\s*\(\s*const\s+ValueFlow::Value\s*\*\s*value\s*,\s*bool\s+inconclusiveCheck\s*\)\s*const\s*\{",
     "{ if (!severity.isEnabled(Severity::warning) && (value->condition || value->defaultArg)) return false; "
     "if (!certainty.isEnabled(Certainty::inconclusive) && (inconclusiveCheck || value->isInconclusive())) return false; return true; }"),
    ("ValueFlow::Value::errorSeverity", "lib/vfvalue.h", r"bool\s+errorSeverity\s*\(\s*\)\s*const\s*\{", "{ return !condition && !defaultArg; }"),
    # value selectors that read the settings: select with a FIXED preference, then gate (Model: Select.findValue).  A settings test
    # that precedes / steers the selection makes the selected value depend on the options (Select.findValueFiltered_not_monotone)
    ("ValueFlow::findValue", "lib/valueflow.cpp", r"(?m)^const\s+ValueFlow::Value\s*\*\s*ValueFlow::findValue\s*\(",
     "{ const ValueFlow::Value* ret = nullptr; for (const ValueFlow::Value& v : values) { if (pred(v)) { "
     "if (!ret || ret->isInconclusive() || (ret->condition && !v.isInconclusive())) ret = &v; "
     "if (!ret->isInconclusive() && !ret->condition) break; } } "
     "if (ret) { if (ret->isInconclusive() && !settings.certainty.isEnabled(Certainty::inconclusive)) return nullptr; "
     "if (ret->condition && !settings.severity.isEnabled(Severity::warning)) return nullptr; } return ret; }"),
    ("Token::getValueLE", "lib/token.cpp", r"(?m)^const\s+ValueFlow::Value\s*\*\s*Token::getValueLE\s*\(",
     "{ if (!mImpl->mValues) return nullptr; return ValueFlow::findValue(*mImpl->mValues, settings, [&](const ValueFlow::Value& v) { "
     "return !v.isImpossible() && v.isIntValue() && v.intvalue <= val; }); }"),
    ("Token::getValueGE", "lib/token.cpp", r"(?m)^const\s+ValueFlow::Value\s*\*\s*Token::getValueGE\s*\(",
     "{ if (!mImpl->mValues) return nullptr; return ValueFlow::findValue(*mImpl->mValues, settings, [&](const ValueFlow::Value& v) { "
     "return !v.isImpossible() && v.isIntValue() && v.intvalue >= val; }); }"),
    ("Token::getInvalidValue", "lib/token.cpp", r"(?m)^const\s+ValueFlow::Value\s*\*\s*Token::getInvalidValue\s*\(",
     "{ if (!mImpl->mValues) return nullptr; const ValueFlow::Value *ret = nullptr; "
     "for (auto it = mImpl->mValues->begin(); it != mImpl->mValues->end(); ++it) { if (it->isImpossible()) continue; "
     "if ((it->isIntValue() && !settings.library.isIntArgValid(ftok, argnr, it->intvalue, settings)) || "
     "(it->isFloatValue() && !settings.library.isFloatArgValid(ftok, argnr, it->floatValue, settings))) { "
     "if (!ret || ret->isInconclusive() || (ret->condition && !it->isInconclusive())) ret = &(*it); "
     "if (!ret->isInconclusive() && !ret->condition) break; } } "
     "if (ret) { if (ret->isInconclusive() && !settings.certainty.isEnabled(Certainty::inconclusive)) return nullptr; "
     "if (ret->condition && !settings.severity.isEnabled(Severity::warning)) return nullptr; } return ret; }"),
    ("SimpleEnableGroup::isEnabled", "lib/settings.h", r"bool\s+isEnabled\s*\(\s*T\s+flag\s*\)\s*const\s*\{",
     "{ return (mFlags & (1U << static_cast<uint32_t>(flag))) != 0; }"),
]


# call sites in the check classes that pass `isEnabled(...)` as an ARGUMENT to a function outside the check classes
# (ValueFlow::isOutOfBounds(size, indexTok, warningEnabled) -> Token::getMaxValue(condition): conditional values take part in the
#  maximum only with warning enabled; the CLI templates `container`/`stringidx` exercise it)
EXPECTED_OPTION_STEERED_CALLS = ["checkstl.cpp:CheckStl::outOfBounds -> isOutOfBounds"]

# functions outside the check classes that return a ValueFlow::Value* / Token* and test a severity / certainty option themselves
EXPECTED_OPTION_READING_SELECTORS = ["Token::getInvalidValue", "ValueFlow::findValue"]


def selector_inventory():
    """-> (names of value selectors in lib/ (not check*.cpp) whose body tests a severity/certainty option, shape problems)"""
    found, bad = [], []
    for p in sorted(glob.glob(os.path.join(REPO, "lib", "*.cpp"))):
        bn = os.path.basename(p)
        if bn.startswith("check"):
            continue
        try:
            t = open(p, encoding="utf-8", errors="replace").read()
        except OSError:
            continue
        if "isEnabled(" not in t:
            continue
        t = re.sub(r"/\*.*?\*/", lambda mm: re.sub(r"[^\n]", " ", mm.group(0)), t, flags=re.S)
        t = re.sub(r"//[^\n]*", "", t)
        t = re.sub(r'"([^"\\\n]|\\.)*"', '""', t)
        t = re.sub(r"'([^'\\\n]|\\.)+'", "' '", t)
        for m in re.finditer(r"^(?:static\s+)?(?:const\s+)?(?:ValueFlow::)?Value\s*\*\s*(?:const\s+)?([A-Za-z_][\w:]*)\s*\(", t, re.M):
            i = t.find("{", m.end())
            j = t.find(";", m.end())
            if i < 0 or (0 <= j < i):
                continue
            d, e = 0, i
            while e < len(t):
                if t[e] == "{":
                    d += 1
                elif t[e] == "}":
                    d -= 1
                    if d == 0:
                        break
                e += 1
            body = t[i:e + 1]
            tests = [x.start() for x in re.finditer(r"(severity|certainty)\s*\.\s*isEnabled\s*\(", body)]
            if not tests:
                continue
            found.append(m.group(1))
            # shape: every option test comes AFTER the last loop of the body (select, then gate)
            loops = [x.start() for x in re.finditer(r"\b(for|while)\s*\(", body)]
            if loops:
                k = body.find("{", loops[-1])
                d, e2 = 0, k
                while 0 <= k and e2 < len(body):
                    if body[e2] == "{":
                        d += 1
                    elif body[e2] == "}":
                        d -= 1
                        if d == 0:
                            break
                    e2 += 1
                if any(x < e2 for x in tests):
                    bad.append("%s (%s): a severity/certainty test precedes or sits inside the selection loop — the selected value "
                               "depends on the options (filter-then-select, see Select.findValueFiltered_not_monotone)" % (m.group(1), bn))
    return sorted(set(found)), bad


def check_summaries(flag_lits):
    bad = []
    sel, shape = selector_inventory()
    bad += shape
    if sel != EXPECTED_OPTION_READING_SELECTORS:
        bad.append("value selectors that read severity/certainty options: %s, expected %s (a new one needs a model and a summary)" %
                   (sel, EXPECTED_OPTION_READING_SELECTORS))
    for what, rel, hdr, expect in SUMMARIES:
        got = function_text(os.path.join(REPO, rel), hdr)
        if got != expect:
            bad.append("summary of %s no longer matches the source (%s): %r" % (what, rel, got))
    prem = function_text(os.path.join(REPO, "lib/settings.cpp"), r"bool\s+Settings::isPremiumEnabled\s*\(\s*const\s+char\s+id\s*\[\s*\]\s*\)\s*const\s*\{")
    if not prem or not prem.startswith("{ if (premiumArgs.empty()) return false;"):
        bad.append("Settings::isPremiumEnabled does not start with `if (premiumArgs.empty()) return false;`")
    try:
        sh = open(os.path.join(REPO, "lib/settings.h"), encoding="utf-8", errors="replace").read()
    except OSError:
        sh = ""
    if not re.search(r"std::string\s+premiumArgs\s*;", sh):
        bad.append("Settings::premiumArgs is not a default-constructed std::string")
    for k in flag_lits:
        if k.startswith("S.premium:"):
            continue
        field = k[2:].split(".")[-1]
        if not re.search(r"\bbool\s+%s\s*(\{\s*\}|=\s*false|\{\s*false\s*\})\s*;" % re.escape(field), sh):
            bad.append("Settings flag %s: no declaration with default false found in lib/settings.h" % k)
    return bad


def row_key(site, ls, cert):
    file, line, fn, ids, kind = site
    sev = ls[1] if ls[0] == 'c' else "sym"
    return "%s:%s:%s:%s:%s" % (os.path.basename(file), fn, "|".join(ids), sev, cert)


def trim(f):
    """emitted formulas keep option atoms and Settings-flag literals only: every other literal was needed to eliminate
    contradictory conjunctions (done), and dropping it from a consistent conjunction is a weakening"""
    return G.f_or(G._absorb([frozenset(l for l in c if l[0] in ('o', 'n') or l[1].startswith("S.")) for c in f]))


def live(c):
    return not any(l[0] == 'l' and l[2] for l in c)        # every S.* flag defaults to false


def py_positive(f):
    """no live conjunction tests an option for being DISABLED (mirror of Row.posOk)"""
    return all(not live(c) or not any(l[0] == 'n' for l in c) for c in f)


def py_entails(f, need, cli=False):
    for c in f:
        if not live(c):
            continue
        if need in c:
            continue
        if cli and need[1][0] == 'sev' and need[1][1] in ("warning", "performance", "portability") and ('o', ('sev', 'style')) in c:
            continue
        return False
    return True


def load_exempt():
    p = os.path.join(CORPUS, "exempt.json")
    if not os.path.exists(p):
        return []
    return json.load(open(p)).get("entries", [])


def build_table(fresh=False):
    t0 = time.time()
    dumps, dstat = X.extract_all(fresh=fresh)
    t1 = time.time()
    import gc
    was = gc.isenabled()
    gc.disable()
    try:
        an = G.Analyzer(dumps)
        rows = an.run()
    finally:
        if was:
            gc.enable()
    t2 = time.time()
    problems = list(an.problems)
    for w in an.unexplained_sites:
        problems.append("textual `reportError(` at %s is not explained by an analysed call (free function? macro?)" % w)
    table = []
    for (site, ls, cert), f in rows.items():
        table.append(dict(site=site, ls=ls, cert=cert, f=trim(f), key=row_key(site, ls, cert)))
    table.sort(key=lambda r: (r["site"][0], r["site"][1] or 0, str(r["ls"]), r["cert"]))
    for i, r in enumerate(table):
        r["idx"] = i
    flag_lits = sorted(set(l[1] for r in table for c in r["f"] for l in c if l[0] == 'l'))
    syms = sorted(set([r["ls"][1] for r in table if r["ls"][0] == 'sym'] +
                      [l[1][1] for r in table for c in r["f"] for l in c if l[0] in ('o', 'n') and l[1][0] == 'sym']))
    problems += check_summaries(flag_lits)
    # per-row verdicts (mirrors the Lean decision procedures; Lean decides, this only names the rows)
    for r in table:
        need = None
        if r["ls"][0] == 'c':
            if r["ls"][1] in GATED:
                need = ('o', ('sev', r["ls"][1]))
        else:
            need = ('o', ('sym', r["ls"][1]))
        r["gate_ok"] = need is None or py_entails(r["f"], need)
        r["gate_ok_cli"] = need is None or py_entails(r["f"], need, cli=True)
        r["inc_ok"] = r["cert"] != "inconclusive" or py_entails(r["f"], ('o', ('inc',)))
        r["pos_ok"] = py_positive(r["f"])
        r["dead"] = not any(live(c) for c in r["f"])
    # sites of the AST that no root reaches (only getErrorMessages calls them, or dead code)
    reached = set((r["site"][0], r["site"][1]) for r in table)
    allsites = set()
    for (file, ln, le, name, caller) in an.call_nodes:
        if name == "reportError" and an.fns[caller].name != "getErrorMessages":
            allsites.add((file, ln))
    unreached = sorted("%s:%s" % s for s in allsites - reached)
    steered = sorted("%s:%s -> %s" % x for x in an.steered)
    if steered != EXPECTED_OPTION_STEERED_CALLS:
        problems.append("calls that hand an option test to a function outside the check classes (the callee's selection is steered by "
                        "the options): %s, expected %s" % (steered, EXPECTED_OPTION_STEERED_CALLS))
    info = dict(option_steered_calls=steered, dumps=dstat, functions=len(an.fns), relevant_functions=len(an.relevant), site_functions=len(an.site_fns),
                roots=[(an.fns[k].short, why[:160]) for k, why in an.roots if an.fns[k].name != "runChecks"],
                run_checks_roots=sum(1 for k, _ in an.roots if an.fns[k].name == "runChecks"),
                rows=len(table), sites=len(reached), unreached_sites=unreached, analysis=an.stats,
                times=dict(dump_s=round(t1 - t0, 1), analyse_s=round(t2 - t1, 1)), flags=flag_lits, symbolic_severities=syms)
    return table, flag_lits, syms, problems, info


def lean_str(s):
    return '"' + s.replace("\\", "\\\\").replace('"', '\\"') + '"'


def gen_lean(table, flag_lits, syms, exempt):
    litidx = {k: i for i, k in enumerate(flag_lits)}
    symidx = {k: i for i, k in enumerate(syms)}

    def lit_l(l):
        if l[0] == 'o':
            a = l[1]
            if a[0] == 'sev':
                return "en .%s" % a[1]
            if a[0] == 'sym':
                return "enSym %d" % symidx[a[1]]
            return "inc"
        if l[0] == 'n':
            a = l[1]
            if a[0] == 'sev':
                return "nen .%s" % a[1]
            if a[0] == 'sym':
                return "nenSym %d" % symidx[a[1]]
            return "ninc"
        return ".lit %d %s" % (litidx[l[1]], "true" if l[2] else "false")

    def fm(f):
        cs = sorted(f, key=lambda c: sorted(map(str, c)))
        return "disj [" + ", ".join("conj [" + ", ".join(lit_l(l) for l in sorted(c, key=str)) + "]" for c in cs) + "]"

    out = ["import Cppcheck.Model.SevGate",
           "/- GENERATED by vlib/props/c27.py from the clang AST of lib/check*.cpp of the current working tree — do not edit -/",
           "namespace Cppcheck.Gen.SeverityGuards", "open Cppcheck.SevGate", ""]
    out.append("/-- Settings flags that occur in guards (all default to false; checked against lib/settings.h) -/")
    out.append("def litNames : List String := [" + ", ".join(lean_str(k) for k in flag_lits) + "]")
    out.append("/-- the literals 0 … nFlags-1 are Settings flags whose default is false -/")
    out.append("def nFlags : Nat := %d" % len(flag_lits))
    out.append("def symNames : List String := [" + ", ".join(lean_str(k) for k in syms) + "]")
    out.append("")
    per = 60
    nchunks = (len(table) + per - 1) // per
    for ci in range(nchunks):
        out.append("def rows%d : List Row := [" % ci)
        items = []
        for r in table[ci * per:(ci + 1) * per]:
            file, line, fn, ids, kind = r["site"]
            sev = ".const .%s" % r["ls"][1] if r["ls"][0] == 'c' else ".sym %d" % symidx[r["ls"][1]]
            items.append("  { idx := %d, file := %s, line := %d, fn := %s, ids := [%s], sev := %s, cert := .%s,\n    guard := %s }" %
                         (r["idx"], lean_str(file), line or 0, lean_str(fn), ", ".join(lean_str(i) for i in ids), sev, r["cert"], fm(r["f"])))
        out.append(",\n".join(items))
        out.append("]")
    out.append("def rows : List Row := " + (" ++ ".join("rows%d" % i for i in range(nchunks)) or "[]"))
    out.append("")
    eg = sorted(r["idx"] for r in table if r["key"] in exempt["gate"])
    egc = sorted(r["idx"] for r in table if r["key"] in exempt["gate"] and not r["gate_ok_cli"])
    ei = sorted(r["idx"] for r in table if r["key"] in exempt["inc"])
    out.append("/-- rows excluded from `gated` (corpus/C27/exempt.json: demonstrated findings and unresolved sites) -/")
    out.append("def exemptGate : List Nat := %s" % eg)
    out.append("/-- … of which still excluded when the option set is closed as the command line closes --enable=style -/")
    out.append("def exemptGateCli : List Nat := %s" % egc)
    out.append("def exemptInc : List Nat := %s" % ei)
    ep = sorted(r["idx"] for r in table if r["key"] in exempt["pos"])
    out.append("/-- rows excluded from `table_positive` / `table_monotone` (entries `what: pos` of exempt.json) -/")
    out.append("def exemptPos : List Nat := %s" % ep)
    out.append("end Cppcheck.Gen.SeverityGuards")
    return "\n".join(out) + "\n"


def exempt_sets():
    ent = load_exempt()
    return dict(gate=set(e["key"] for e in ent if e.get("what") == "gate"), inc=set(e["key"] for e in ent if e.get("what") == "inc"),
                pos=set(e["key"] for e in ent if e.get("what") == "pos"), entries=ent)



# =================================================================================================================
# corpus: witnesses, samples, cfg tests, snippets mined from the string literals of /repo/test/test*.cpp
# =================================================================================================================

def string_literal_groups(text):
    """adjacent C / raw string literals of a C++ source, concatenated (comments skipped) -> list of decoded strings"""
    out, cur = [], None
    i, n = 0, len(text)
    simple = {"n": "\n", "t": "\t", "r": "\r", "0": "\0", "\\": "\\", '"': '"', "'": "'", "a": "\a", "b": "\b", "f": "\f", "v": "\v", "?": "?"}

    def flush():
        nonlocal cur
        if cur is not None:
            out.append("".join(cur))
            cur = None
    while i < n:
        c = text[i]
        if c in " \t\r\n":
            i += 1
            continue
        if text.startswith("//", i):
            j = text.find("\n", i)
            i = n if j < 0 else j
            continue
        if text.startswith("/*", i):
            j = text.find("*/", i + 2)
            i = n if j < 0 else j + 2
            continue
        if c == "R" and text.startswith('R"', i):
            j = text.find("(", i + 2)
            if j > 0 and j - i - 2 <= 16:
                delim = text[i + 2:j]
                k = text.find(")" + delim + '"', j + 1)
                if k > 0:
                    if cur is None:
                        cur = []
                    cur.append(text[j + 1:k])
                    i = k + len(delim) + 2
                    continue
        if c == '"':
            j = i + 1
            buf = []
            while j < n and text[j] != '"':
                if text[j] == "\\" and j + 1 < n:
                    e = text[j + 1]
                    if e in simple:
                        buf.append(simple[e])
                        j += 2
                    elif e == "x":
                        m = re.match(r"[0-9a-fA-F]+", text[j + 2:j + 6])
                        buf.append(chr(int(m.group(0), 16) & 0xFF) if m else "x")
                        j += 2 + (len(m.group(0)) if m else 0)
                    elif e in "1234567":
                        m = re.match(r"[0-7]{1,3}", text[j + 1:j + 4])
                        buf.append(chr(int(m.group(0), 8) & 0xFF))
                        j += 1 + len(m.group(0))
                    elif e == "\n":
                        j += 2
                    else:
                        buf.append(e)
                        j += 2
                else:
                    if text[j] == "\n":
                        break
                    buf.append(text[j])
                    j += 1
            if cur is None:
                cur = []
            cur.append("".join(buf))
            i = j + 1
            continue
        if c == "'":
            j = i + 1
            while j < n and text[j] != "'" and text[j] != "\n":
                j += 2 if text[j] == "\\" else 1
            flush()
            i = j + 1
            continue
        flush()
        i += 1
    flush()
    return out


def looks_like_code(s):
    if len(s) < 25 or len(s) > 6000:
        return False
    if s.startswith("[test.") or "]: (" in s[:60] or s.startswith("<?xml") or s.startswith("<"):
        return False
    if "{" not in s or ";" not in s:
        return False
    if s.count("\n") < 1:
        return False
    return "(" in s


_SNIPPETS = None


def mined_snippets():
    """(name, source file, code) for every code-like literal of /repo/test/test*.cpp — deterministic order"""
    global _SNIPPETS
    if _SNIPPETS is None:
        out, seen = [], set()
        for p in sorted(glob.glob(os.path.join(REPO, "test", "test*.cpp"))):
            try:
                text = open(p, encoding="utf-8", errors="replace").read()
            except OSError:
                continue
            base = os.path.basename(p)[4:-4]
            k = 0
            for s in string_literal_groups(text):
                if not looks_like_code(s):
                    continue
                h = hashlib.sha1(s.encode("utf-8", "replace")).hexdigest()[:10]
                if h in seen:
                    continue
                seen.add(h)
                out.append(("%s_%04d_%s.cpp" % (base, k, h), base, s if s.endswith("\n") else s + "\n"))
                k += 1
        _SNIPPETS = out
    return _SNIPPETS


def load_witnesses():
    p = os.path.join(CORPUS, "witnesses.json")
    if not os.path.exists(p):
        return []
    return json.load(open(p)).get("witnesses", [])


# =================================================================================================================
# running the real binary
# =================================================================================================================

def mask_of(sevs, inc):
    m = 1 << SEVBIT["error"]
    for s in sevs:
        m |= 1 << SEVBIT[s]
    if inc:
        m |= 1 << 9
    return m


def opt_args(sevs, inc):
    """command line for EXACTLY this set of enabled severities (--enable=style drags warning/performance/portability in)"""
    a = []
    if sevs:
        a.append("--enable=" + ",".join(sevs))
        if "style" in sevs:
            off = [s for s in ("warning", "performance", "portability") if s not in sevs]
            if off:
                a.append("--disable=" + ",".join(off))
    if inc:
        a.append("--inconclusive")
    return a


def all_optsets(closed=True):
    """closed=True: the option sets the command line produces from subsets of --enable values (style brings warning,
    performance, portability); closed=False: every exact subset (reachable with --disable)"""
    out = []
    for r in range(len(GATED) + 1):
        for c in itertools.combinations(GATED, r):
            if closed and "style" in c and not all(x in c for x in ("warning", "performance", "portability")):
                continue
            for inc in (False, True):
                out.append((tuple(c), inc))
    return out


META_IDS = ("checkersReport", "logChecker")     # summaries of the run configuration, not findings about the input


def run_cppcheck(ctx, cwd, files, sevs, inc, extra=(), timeout=600):
    """-> (list of findings (id, severity, inconclusive, msg, file, line), error text or None)"""
    cmd = [ctx.cppcheck, "--xml", "--quiet", "-j1"] + list(extra) + opt_args(sevs, inc) + list(files)
    rc, out, err = core.sh(cmd, cwd=cwd, timeout=timeout)
    if rc == -999:
        return None, "timeout: " + " ".join(cmd)
    i = err.find("<?xml")
    if i < 0:
        return None, "no xml output (rc=%s): %s" % (rc, err[-300:])
    try:
        root = ET.fromstring(err[i:])
    except ET.ParseError as ex:
        return None, "unparsable xml: %s" % ex
    fs = []
    for e in root.iter("error"):
        loc = e.find("location")
        fs.append((e.get("id"), e.get("severity"), e.get("inconclusive") == "true", e.get("msg"),
                   loc.get("file") if loc is not None else "", int(loc.get("line")) if loc is not None and loc.get("line") else 0))
    return fs, None


class Batch:
    """a set of input files in one directory, checked together under each option set"""

    def __init__(self, name, files, extra=()):
        self.name, self.files, self.extra = name, files, list(extra)     # files: list of (filename, content)
        self.results = {}                                                  # (sevs, inc) -> findings


def materialise(ctx, batch):
    d = os.path.join(ctx.tmp, "b_" + re.sub(r"\W", "_", batch.name))
    os.makedirs(d, exist_ok=True)
    for fn, content in batch.files:
        with open(os.path.join(d, fn), "w", encoding="utf-8", errors="surrogateescape") as f:
            f.write(content)
    batch.dir = d
    return d


def run_batches(ctx, batches, optsets, workers=8):
    errors = []
    jobs = [(b, o) for b in batches for o in (getattr(b, "optsets", None) or optsets)]

    def one(job):
        b, (sevs, inc) = job
        fs, err = run_cppcheck(ctx, b.dir, [fn for fn, _ in b.files], list(sevs), inc, extra=b.extra)
        return b, (sevs, inc), fs, err
    with ThreadPoolExecutor(max_workers=workers) as ex:
        for b, o, fs, err in ex.map(one, jobs):
            if err:
                errors.append("%s %s: %s" % (b.name, o, err))
                continue
            b.results[o] = fs
    return errors


def classify(f):
    return f[0]


def nested_pairs(optsets):
    """all pairs o < o' (componentwise inclusion) among the given option sets"""
    out = []
    for a in optsets:
        for b in optsets:
            if a != b and set(a[0]) <= set(b[0]) and (not a[1] or b[1]):
                out.append((a, b))
    return out


def p_impl(batch, optsets, pairs=None):
    """-> list of violations dict(kind, finding, opts[, opts2]); pairs: explicit list of (o, o') to compare for monotonicity
    (default: the covering pairs of the lattice that are present)"""
    viol = []
    res = batch.results
    for o in optsets:
        if o not in res:
            continue
        sevs, inc = o
        for f in res[o]:
            fid, sev, finc, msg, file, line = f
            if fid in META_IDS:
                continue
            if sev in GATED and sev not in sevs:
                viol.append(dict(kind="severity-not-enabled", finding=f, opts=o))
            if finc and not inc:
                viol.append(dict(kind="inconclusive-not-enabled", finding=f, opts=o))
    if pairs is not None:
        for o, u in pairs:
            if o not in res or u not in res:
                continue
            a = collections.Counter(f for f in res[o] if f[0] not in META_IDS)
            b = collections.Counter(f for f in res[u] if f[0] not in META_IDS)
            for f, k in (a - b).items():
                viol.append(dict(kind="not-monotone", finding=f, opts=o, opts2=u))
        return viol
    # monotonicity on the covering pairs of the option lattice
    for o in optsets:
        if o not in res:
            continue
        sevs, inc = o
        ups = [(tuple(s for s in GATED if s in sevs or s == x), inc) for x in GATED if x not in sevs]
        if not inc:
            ups.append((sevs, True))
        a = collections.Counter(f for f in res[o] if f[0] not in META_IDS)
        for u in ups:
            if u not in res:
                continue
            b = collections.Counter(f for f in res[u] if f[0] not in META_IDS)
            lost = a - b
            for f, k in lost.items():
                viol.append(dict(kind="not-monotone", finding=f, opts=o, opts2=u))
    return viol


# =================================================================================================================
# the check
# =================================================================================================================

def table_cached(fresh=False):
    """build_table is a pure function of the pruned dumps (content-hash cache keys), the summaries / flag declarations and this
    translator's source: keep its result next to the dump cache"""
    h = hashlib.sha256()
    for p in [X.__file__, G.__file__, __file__] + X.source_files() + [os.path.join(REPO, "lib", f) for f in ("settings.cpp", "settings.h", "vfvalue.h")]:
        h.update(open(p, "rb").read())
    h.update(X.headers_digest().encode())
    # textual cross-checks read lib/*.cpp, lib/*.h, cli/*.cpp
    for p in sorted(glob.glob(os.path.join(REPO, "lib", "*.cpp")) + glob.glob(os.path.join(REPO, "cli", "*.cpp"))):
        st = os.stat(p)
        h.update(("%s:%d:%d" % (p, st.st_size, st.st_mtime_ns)).encode())
    cp = os.path.join(X.CACHE, "table-" + h.hexdigest()[:32] + ".pickle")
    import pickle
    if not fresh and os.path.exists(cp):
        try:
            return pickle.load(open(cp, "rb")) + (True,)
        except Exception:
            pass
    r = build_table(fresh=fresh)
    os.makedirs(X.CACHE, exist_ok=True)
    for old in glob.glob(os.path.join(X.CACHE, "table-*.pickle")):
        try:
            os.remove(old)
        except OSError:
            pass
    pickle.dump(r, open(cp + ".tmp", "wb"))
    os.replace(cp + ".tmp", cp)
    return r + (False,)


def translate(ctx, fresh=False):
    table, flag_lits, syms, problems, info, hit = table_cached(fresh=fresh)
    info = dict(info, table_cache_hit=hit)
    ex = exempt_sets()
    ctx.write_gen("SeverityGuards", gen_lean(table, flag_lits, syms, ex))
    return table, flag_lits, syms, problems, info, ex


def viol_key(v):
    short = {"severity-not-enabled": "severity", "inconclusive-not-enabled": "inconclusive", "not-monotone": "monotone"}[v["kind"]]
    return "%s:%s" % (v["finding"][0], short)


def describe(v):
    f = v["finding"]
    o = v["opts"]
    s = "%s: %s [%s]%s `%s` at %s:%d with enabled={%s}%s" % (v["kind"], f[1], f[0], " inconclusive" if f[2] else "", f[3], f[4], f[5],
                                                          ",".join(o[0]), " --inconclusive" if o[1] else "")
    if "opts2" in v:
        s += " is no longer reported with enabled={%s}%s" % (",".join(v["opts2"][0]), " --inconclusive" if v["opts2"][1] else "")
    return s


def quick_optsets(rng):
    """empty, full, every single severity, the style closure, +/- inconclusive, and a few random closed sets"""
    base = [(), ("warning",), ("performance",), ("portability",), ("information",), ("warning", "performance", "portability"),
            ("warning", "style", "performance", "portability"), tuple(GATED)]
    allc = sorted(set(o[0] for o in all_optsets(True)))
    extra = rng.sample([c for c in allc if c not in base], 3)
    out = []
    for c in base + extra:
        out.append((c, False))
        out.append((c, True))
    return out


def cfg_batches(rng, thorough):
    out = []
    files = sorted(glob.glob(os.path.join(REPO, "test", "cfg", "*.c")) + glob.glob(os.path.join(REPO, "test", "cfg", "*.cpp")))
    if not thorough:
        small = [p for p in files if os.path.getsize(p) < 60000]
        files = rng.sample(small, min(2, len(small)))
    for p in files:
        lib = os.path.basename(p).rsplit(".", 1)[0]
        extra = ["--library=" + lib] if os.path.exists(os.path.join(REPO, "cfg", lib + ".cfg")) and lib != "std" else []
        try:
            out.append(Batch("cfg_" + os.path.basename(p), [(os.path.basename(p), open(p, encoding="utf-8", errors="surrogateescape").read())], extra=extra))
        except OSError:
            pass
    return out


def sample_batches(rng, thorough):
    fs = []
    for p in sorted(glob.glob(os.path.join(REPO, "samples", "*", "*.c")) + glob.glob(os.path.join(REPO, "samples", "*", "*.cpp"))):
        try:
            fs.append((os.path.basename(os.path.dirname(p)) + "_" + os.path.basename(p), open(p, encoding="utf-8", errors="surrogateescape").read()))
        except OSError:
            pass
    return [Batch("samples", fs)] if fs else []


def snippet_batches(rng, thorough):
    sn = mined_snippets()
    if not thorough:
        sn = rng.sample(sn, min(160, len(sn)))
        per = 80
    else:
        sn = rng.sample(sn, min(5000, len(sn)))
        per = 125
    return [Batch("snip%03d" % (i // per), [(s[0], s[2]) for s in sn[i:i + per]]) for i in range(0, len(sn), per)]


TEST_OF = {"checkother": ["other", "incompletestatement", "charvar"], "checkclass": ["class", "constructors", "unusedprivfunc"],
           "checkmemoryleak": ["memleak"], "checkleakautovar": ["leakautovar"], "checkunusedvar": ["unusedvar"], "check64bit": ["64bit"],
           "checkunusedfunctions": ["unusedfunctions"]}


def guided_batches(new_gate, new_inc, new_pos=()):
    """violation search for sites that lost their guard: every snippet mined from the test file(s) of the check's source file, under
    the option sets that would expose the missing guard (everything but the row's severity / everything but --inconclusive)"""
    out = []
    want = {}
    for r, inc in [(r, False) for r in new_gate] + [(r, True) for r in new_inc]:
        base = os.path.basename(r["site"][0]).rsplit(".", 1)[0]
        tests = TEST_OF.get(base, [base[5:]] if base.startswith("check") else [])
        if inc:
            o = (tuple(GATED), False)
        else:
            sev = r["ls"][1] if r["ls"][0] == 'c' else None
            keep = [s for s in GATED if s != sev and not (s == "style" and sev in ("warning", "performance", "portability"))]
            o = (tuple(keep), True)
        for t in tests:
            want.setdefault(t, set()).add(o)
            want[t].add(((), True))
    for r in new_pos:
        # a disabled-option test: look for "enabling more reports less" on every covering pair of the closed lattice
        base = os.path.basename(r["site"][0]).rsplit(".", 1)[0]
        for t in TEST_OF.get(base, [base[5:]] if base.startswith("check") else []):
            want.setdefault(t, set()).update(all_optsets(True))
    sn = mined_snippets()
    for t, opts in sorted(want.items()):
        sel = [s for s in sn if s[1] == t][:900]
        for i in range(0, len(sel), 150):
            b = Batch("guided_%s_%d" % (t, i // 150), [(s[0], s[2]) for s in sel[i:i + 150]])
            b.optsets = sorted(opts)
            out.append(b)
    return out


# ---- programs in which ONE token carries several matching values of different kinds -----------------------------------------
# (unconditional / possible, inconclusive after a call of an undeclared function, conditional from a later or earlier test, default
# argument): the value a selector (ValueFlow::findValue, Token::getValueLE/GE, getInvalidValue, getMaxValue(condition)) picks must
# not depend on the enabled severities / certainty.  Every template is run under {}, {inconclusive}, {warning},
# {warning, inconclusive}, {all} and compared on ALL nested pairs.

SELECT_OPTSETS = [((), False), ((), True), (("warning",), False), (("warning",), True), (tuple(GATED), True)]

# sink: (name, prelude, use statement with %s, classes of bad values (values of one class satisfy the same selector predicate), type)
SINKS = [
    ("arrayIndex", "int arr[10];\n", "int r = arr[%s];", [[-1, -2, -5], [10, 12, 20]], "int"),
    ("zerodiv", "", "int r = 1000 / %s;", [[0]], "int"),
    ("shift", "", "int r = 1 << %s;", [[-1, -3, -4], [40, 64, 33]], "int"),
    ("shiftlhs", "", "int r = %s << 2;", [[-1, -5, -8]], "int"),
    ("overflow", "", "int r = %s * 1000000;", [[100000, 200000, 300000], [-100000, -300000, -200000]], "int"),
    ("funcarg", "#include <cstring>\nchar buf[10];\n", "memset(buf, 0, %s); int r = 0;", [[-1, -2, -9]], "int"),
    ("container", "#include <vector>\n", "std::vector<int> v(3); int r = v[%s];", [[3, 5, 10], [-1, -4, -2]], "int"),
    ("stringidx", "#include <string>\n", "std::string s(\"abc\"); int r = s[%s];", [[5, 9, 7]], "int"),
    ("signconv", "", "unsigned int r = 10U * %s;", [[-1, -7, -3]], "int"),
    ("nullptr", "", "int r = *%s;", [[0]], "int *"),
]


def select_templates(rng):
    """deterministic in its SHAPES (every sink x initialisation x call x condition x pairing of value classes); only the
    constants inside a class are drawn from the seeded generator"""
    files = []
    for name, prelude, use, classes, ty in SINKS:
        pairings = [(c, c) for c in classes]                    # both values match the same predicate: the selector must choose
        if len(classes) > 1:
            pairings.append((classes[0], classes[1]))           # one value per predicate
            pairings.append((classes[1], classes[0]))
        k = 0
        for ca, cb in pairings:
            for init in ("direct", "cond", "param", "defarg"):
                for call in ("none", "byval", "byaddr"):
                    for cond in ("none", "after", "before"):
                        if init == "param" and cond == "none":
                            continue
                        a = rng.choice(ca)
                        rest = [x for x in cb if x != a] or cb
                        b = rng.choice(rest)
                        av, bv = str(a), str(b)
                        params, body = ["int c"], []
                        if init == "direct":
                            body.append("%s x = %s;" % (ty, av))
                        elif init == "cond":
                            body.append("%s x = %s; if (c) x = %s;" % (ty, "&c" if ty != "int" else "1", av))
                        elif init == "param":
                            params.append("%s x" % ty)
                        else:
                            params.append("%s x = %s" % (ty, av))
                        if cond == "before":
                            body.append("if (x == %s) {}" % bv)
                        if call == "byval":
                            body.append("dostuff(x);")
                        elif call == "byaddr":
                            body.append("dostuff(&x);")
                        body.append(use % "x")
                        if cond == "after":
                            body.append("if (x == %s) {}" % bv)
                        body.append("return r;")
                        code = prelude + "int f(%s) {\n    %s\n}\n" % (", ".join(params), "\n    ".join(body))
                        files.append(("sel_%s_%03d_%s_%s_%s.cpp" % (name, k, init, call, cond), code))
                        k += 1
    return files


def select_batches(rng):
    files = select_templates(rng)
    out = []
    per = 110
    for i in range(0, len(files), per):
        b = Batch("select%d" % (i // per), files[i:i + per])
        b.optsets = list(SELECT_OPTSETS)
        b.pairs = nested_pairs(SELECT_OPTSETS)
        out.append(b)
    return out


def witness_batches():
    """all witnesses of corpus/C27/witnesses.json in one directory (replayed first, under every closed option set)"""
    ws = load_witnesses()
    if not ws:
        return []
    b = Batch("witnesses", [(w["file"], w["code"]) for w in ws])
    b.witnesses = ws
    return [b]


TIE_COVERAGE_FLOOR = 0.6     # thorough tier: at least this fraction of the rows the gating theorems speak about must be exercised


def id_matches(pats, fid):
    return any(p == fid or (p.endswith("*") and len(p) > 1 and fid.startswith(p[:-1])) for p in pats)


def tie_check(ctx, res, table, observations):
    """every finding of the real binary whose id belongs to the table must be `possible` for a row of its severity / certainty"""
    wild = [r for r in table if "*" in r["site"][3]]
    drv = ctx.driver("drv_c27")
    ops, meta = [], []
    outside = collections.Counter()
    cache = {}
    for (fid, sev, finc, mask), n in sorted(observations.items()):
        cert = "inconclusive" if finc else "normal"
        if fid not in cache:
            cache[fid] = [r for r in table if id_matches(r["site"][3], fid)]
        cands = cache[fid]
        kind = "id"
        if not cands:
            # not an id of the check classes as far as the table knows: preprocessor / tokenizer / symbol database / cppcheck.cpp /
            # library-configured ids (checkfunctions `<name>Called`): counted, decided by P_impl only
            outside[fid] += n
            continue
        cands = [r for r in cands + wild if r["cert"] == cert and (r["ls"][0] == 'sym' or r["ls"][1] == sev)]
        meta.append(((fid, sev, cert, mask, kind, n), [r["idx"] for r in cands]))
        for r in cands:
            ops.append("P %d %d" % (r["idx"], mask))
    rc, outl, err = core.run_lines(drv, [], ops) if ops else (0, [], "")
    if len(outl) != len(ops):
        res.oblig("correspondence:findings-possible-in-table", False, "correspondence", "driver stream length %d != %d: %s" % (len(outl), len(ops), err[-300:]))
        return
    k = 0
    unexplained = []
    for (fid, sev, cert, mask, kind, n), idxs in meta:
        answers = outl[k:k + len(idxs)]
        k += len(idxs)
        ok = any(a == "1" for a in answers)
        res.case("tie|%s|%s|%s|%d" % (fid, sev, cert, mask), sev in GATED or cert == "inconclusive",
                 dict(tie="finding possible in table", finding="%s %s %s" % (fid, sev, cert), mask=mask, rows=idxs[:6], model="".join(answers[:6])) if len(res.samples) < 4 else None)
        if ok:
            res.traces_validated += 1
        else:
            unexplained.append("%s %s %s under mask %d (rows %s)" % (fid, sev, cert, mask, idxs[:8]))
    res.oblig("correspondence:findings-possible-in-table", not unexplained, "correspondence",
              "" if not unexplained else "%d observed findings are impossible according to the table (site missed or guard too strong):\n%s" %
              (len(unexplained), "\n".join(unexplained[:20])))
    res.extra["findings_outside_table"] = dict(outside)
    res.extra["tie_groups"] = len(meta)
    # coverage of the tie: which rows that the gating theorems speak about were exercised by the corpus at all?  A row whose id /
    # severity / certainty was never observed rests on the translator alone (a guard that is too STRONG would go unnoticed there).
    full = mask_of(GATED, True)
    seen_full = set((fid, sev, finc) for (fid, sev, finc, mask) in observations if mask == full)
    seen_any = set((fid, sev, finc) for (fid, sev, finc, mask) in observations)
    ex = exempt_sets()
    spoken = [r for r in table if not r["dead"] and
              (((r["ls"][0] == 'sym' or r["ls"][1] in GATED) and r["key"] not in ex["gate"]) or
               (r["cert"] == "inconclusive" and r["key"] not in ex["inc"]))]
    def hit(r, pool):
        return any(id_matches(r["site"][3], fid) and (r["ls"][0] == 'sym' or r["ls"][1] == sev) and (r["cert"] == "inconclusive") == finc
                   for (fid, sev, finc) in pool)
    cov = [r for r in spoken if hit(r, seen_full)]
    never = ["%s:%s %s" % (os.path.basename(r["site"][0]), r["site"][1], r["key"].split(":", 1)[1]) for r in spoken if not hit(r, seen_any)]
    res.extra["tie_coverage"] = dict(rows_of_gated_severity_or_inconclusive=len(spoken), observed_under_full_option_set=len(cov),
                                     fraction=round(len(cov) / max(1, len(spoken)), 3), never_observed=len(never), never_observed_rows=never,
                                     note="rows never observed rest on the translator alone; quick tier samples 160 snippets, see the thorough evidence")
    return len(cov), len(spoken)


def run(ctx, res):
    rng = ctx.rng
    thorough = ctx.tier == "thorough"
    t0 = time.time()
    # ---- translator ----------------------------------------------------------------------------------------------------
    table, flag_lits, syms, problems, info, ex = translate(ctx, fresh=False)
    res.extra["translator"] = info
    res.oblig("T:extraction-complete", not problems, "translation",
              "" if not problems else "%d problems (fail closed):\n%s" % (len(problems), "\n".join(problems[:30])))
    res.oblig("T:table-plausible", len(table) >= 350 and info["sites"] >= 300 and info["run_checks_roots"] >= 20, "translation",
              "rows=%d sites=%d runChecks roots=%d" % (len(table), info["sites"], info["run_checks_roots"]))
    new_gate = [r for r in table if not r["gate_ok"] and r["key"] not in ex["gate"]]
    new_inc = [r for r in table if not r["inc_ok"] and r["key"] not in ex["inc"]]
    new_pos = [r for r in table if not r["pos_ok"] and r["key"] not in ex["pos"]]
    failing_keys = set((r["key"], "gate") for r in table if not r["gate_ok"]) | set((r["key"], "inc") for r in table if not r["inc_ok"]) | \
        set((r["key"], "pos") for r in table if not r["pos_ok"])
    res.oblig("T:no-emission-dominated-by-a-disabled-option", not new_pos, "translation",
              "" if not new_pos else "rows whose guard tests an option for being DISABLED (enabling it removes the finding) and that "
              "corpus/C27/exempt.json does not list:\n" +
              "\n".join("%s:%s %s %s" % (r["site"][0], r["site"][1], r["key"], [sorted(map(str, c)) for c in r["f"] if any(l[0] == 'n' for l in c)][:2])
                        for r in new_pos[:20]))
    dead_rows = ["%s:%s %s" % (r["site"][0], r["site"][1], r["key"]) for r in table if r["dead"]]
    res.extra["rows_with_unsatisfiable_guard_under_default_flags"] = dict(
        count=len(dead_rows), note="satisfy gated / table_monotone vacuously (reachable only with premium / --check-library / daca / "
        "debug-warnings flags)", list=dead_rows)
    stale = [e["key"] + "/" + e["what"] for e in ex["entries"] if (e["key"], e["what"]) not in failing_keys]
    res.oblig("T:no-ungated-site-outside-the-exclusion-list", not new_gate and not new_inc, "translation",
              "" if not (new_gate or new_inc) else "sites without an established guard that corpus/C27/exempt.json does not list:\n" +
              "\n".join("%s:%s %s (%s %s)" % (r["site"][0], r["site"][1], r["key"], "severity" if r in new_gate else "inconclusive", sorted(map(sorted, r["f"]))[:2])
                        for r in (new_gate + new_inc)[:20]))
    und = []
    for e in ex["entries"]:
        if (e["key"], e["what"]) in failing_keys:
            und.append(dict(key=e["key"], what=e["what"], cls=e.get("class"), reason=e.get("reason", "")))
    res.extra["undischarged_sites"] = dict(count=len(und), demonstrated_findings=sum(1 for u in und if u["cls"] == "finding"),
                                           unresolved=sum(1 for u in und if u["cls"] != "finding"), list=und,
                                           exclusion_entries_now_discharged=stale)
    res.extra["translate_s"] = round(time.time() - t0, 1)
    res.assumptions += [
        "rows are sound: each guard is implied by the execution of its site (claim of the python abstract interpreter over clang dumps; "
        "validated by correspondence:findings-possible-in-table, not proved)",
        "const member functions / fields of const objects and ValueFlow::Value accessors are pure between two reads of one variable version",
        "every Settings object a check reads is the settings of the run; cppcheck itself does not dereference null pointers "
        "(a pointer compared with nullptr and found null is not dereferenced afterwards)",
        "the %d Settings flags that occur in guards (premium ids, checkLibrary, daca, debugwarnings, clang, safeChecks.classes) have their "
        "default value false (hypothesis defaultsHold of every theorem)" % len(flag_lits),
        "free functions called from the check classes do not emit findings themselves (textual cross-check on `reportError(`)",
        "table_monotone is per site for a fixed environment: suppression between checks (diag()) is outside the model",
    ]
    # ---- theorems ------------------------------------------------------------------------------------------------------
    core.prove(ctx, res, MODULES, THEOREMS)
    # the python mirror that names rows must agree with the decisions Lean takes (compiled driver over the same Gen table)
    drv = ctx.driver("drv_c27")
    rc, outl, err = core.run_lines(drv, [], ["N"] + ["V %d" % r["idx"] for r in table])
    exp = ["%d %d" % (len(table), len(flag_lits))] + ["%d%d%d%d" % (r["gate_ok"], r["gate_ok_cli"], r["inc_ok"], r["pos_ok"]) for r in table]
    got = [outl[0]] + [x[:4] for x in outl[1:]] if outl else []
    diff = [i for i in range(min(len(exp), len(got))) if exp[i] != got[i]]
    res.oblig("T:row-verdicts-agree-with-lean", len(got) == len(exp) and not diff, "translation",
              "" if (len(got) == len(exp) and not diff) else "lengths %d/%d first differences %s %s" % (len(got), len(exp), diff[:5], err[-200:]))
    # ---- value selector: the real ValueFlow::findValue in-process vs Select.findValue (exhaustive up to 4 values, sampled beyond)
    exe = ctx.harness("c27")
    fops = []
    for m in (1, 3, 513, 515):
        for n in range(0, 5):
            for ds in itertools.product("01234567", repeat=n):
                fops.append("F %d %s" % (m, "".join(ds) or "-"))
        for _ in range(400):
            fops.append("F %d %s" % (m, "".join(rng.choice("01234567") for _ in range(rng.randint(5, 12)))))
    rc, impl, err = core.run_lines(exe, [], fops)
    rc2, model, err2 = core.run_lines(drv, [], fops)
    core.correspond(ctx, res, "findValue", fops, impl, model, nontrivial=lambda op, out: len(op.split()[2]) >= 2 and out != "-")
    # ---- corpus and the real binary -------------------------------------------------------------------------------------
    wb = witness_batches()
    batches = wb + select_batches(rng) + sample_batches(rng, thorough) + cfg_batches(rng, thorough) + snippet_batches(rng, thorough)
    guided = guided_batches(new_gate, new_inc, new_pos)
    res.extra["guided_search_files"] = sum(len(b.files) for b in guided)
    batches += guided
    for b in batches:
        materialise(ctx, b)
    optsets = all_optsets(True) if thorough else quick_optsets(rng)
    qo = quick_optsets(rng)
    for b in batches:
        b.optsets = getattr(b, "optsets", None) or (all_optsets(True) if b in wb else (qo if b.name.startswith("cfg_") else optsets))
    t1 = time.time()
    errors = run_batches(ctx, batches, optsets, workers=8)
    res.extra["cli_s"] = round(time.time() - t1, 1)
    res.oblig("C:cli-runs-complete", not errors, "correspondence", "\n".join(errors[:10]))
    full = (tuple(GATED), True)
    observations = collections.Counter()
    nviol = collections.Counter()
    seen_keys = {}
    for b in batches:
        per_file_nt = collections.Counter()
        for f in b.results.get(full, []):
            if f[1] in GATED or f[2]:
                per_file_nt[f[4]] += 1
        bopts = b.optsets
        for o in bopts:
            fs = b.results.get(o)
            if fs is None:
                continue
            m = mask_of(o[0], o[1])
            for f in fs:
                if f[0] not in META_IDS:
                    observations[(f[0], f[1], f[2], m)] += 1
                    res.count("sev:" + f[1] + (":inconclusive" if f[2] else ""))
            for fn, content in b.files:
                res.case("%s|%s|%s" % (hashlib.sha1(content.encode("utf-8", "replace")).hexdigest()[:12], ",".join(o[0]), o[1]),
                         per_file_nt.get(fn, 0) > 0,
                         dict(file=b.name + "/" + fn, enabled=list(o[0]), inconclusive=o[1],
                              findings=[list(x) for x in fs if x[4] == fn][:4]) if (len(res.samples) < 10 and per_file_nt.get(fn, 0) > 0 and o[0]) else None)
        res.count("batch:" + b.name.split("_")[0].rstrip("0123456789"))
        vs = p_impl(b, bopts)
        if getattr(b, "pairs", None):
            vs += [v for v in p_impl(b, bopts, pairs=b.pairs) if v["kind"] == "not-monotone"]
        for v in vs:
            k = viol_key(v)
            nviol[k] += 1
            if k in seen_keys:
                continue
            seen_keys[k] = v
            content = dict(b.files).get(v["finding"][4], "")
            res.violation(describe(v), dict(kind=v["kind"], file=v["finding"][4], code=content, extra=b.extra, opts=[list(v["opts"][0]), v["opts"][1]],
                                            opts2=[list(v["opts2"][0]), v["opts2"][1]] if "opts2" in v else None, finding=list(v["finding"]), key=k),
                          concrete=True, key=k)
    res.extra["violations_by_key"] = dict(nviol)
    # witnesses must still show what they were recorded for (otherwise the entry is stale: say so, do not print KNOWN-FINDING)
    gone = []
    for b in wb:
        for w in b.witnesses:
            if w.get("key") and w["key"] not in seen_keys:
                gone.append(w["name"] + " (" + w["key"] + ")")
    res.extra["witnesses_no_longer_reproducing"] = gone
    # regression witnesses of repaired findings: still reported under the full option set (the witness is alive) and under no
    # option set that lacks the finding's severity / --inconclusive
    bad = []
    for b in wb:
        for w in b.witnesses:
            if not w.get("regression"):
                continue
            fid, sev, finc = w["finding"][0], w["finding"][1], w["finding"][2]
            seen_full = any(f[0] == fid and f[4] == w["file"] for f in b.results.get((tuple(GATED), True), []))
            if not seen_full:
                bad.append("%s: [%s] is not reported under the full option set any more (dead regression witness)" % (w["name"], fid))
            for o, fs in b.results.items():
                if any(f[0] == fid and f[4] == w["file"] for f in fs) and ((sev in GATED and sev not in o[0]) or (finc and not o[1])):
                    bad.append("%s: [%s] reported with enabled={%s}%s" % (w["name"], fid, ",".join(o[0]), " --inconclusive" if o[1] else ""))
    res.oblig("C:repaired-findings-stay-gated", not bad, "correspondence", "\n".join(bad[:10]))
    # ---- tie: table vs implementation ------------------------------------------------------------------------------------
    tc = tie_check(ctx, res, table, observations)
    if thorough and tc:
        res.oblig("C:tie-coverage", tc[0] >= TIE_COVERAGE_FLOOR * tc[1], "correspondence",
                  "%d of %d rows of a gated severity / inconclusive certainty were observed under the full option set (floor %.0f%%)" %
                  (tc[0], tc[1], 100 * TIE_COVERAGE_FLOOR))
    if thorough:
        explore_exact(ctx, res, rng)
    res.traces_validated += sum(len(b.results) for b in batches)


def explore_exact(ctx, res, rng):
    """exact severity subsets through --disable (outside the stated quantifier `subsets of --enable values`): reported in the
    evidence only — this is where the rows excluded from `gated` but not from `gated_cli` show up"""
    sn = rng.sample(mined_snippets(), 600)
    batches = [Batch("x%02d" % (i // 150), [(s[0], s[2]) for s in sn[i:i + 150]]) for i in range(0, len(sn), 150)] + witness_batches()
    for b in batches:
        b.name = "exact_" + b.name
        b.files = [("x_" + fn, c) for fn, c in b.files]
        materialise(ctx, b)
    closed = set(all_optsets(True))
    opts = [o for o in all_optsets(False) if o not in closed]
    run_batches(ctx, batches, all_optsets(False), workers=8)
    c = collections.Counter()
    ex = {}
    for b in batches:
        for v in p_impl(b, all_optsets(False)):
            if v["opts"] in closed and v.get("opts2", v["opts"]) in closed:
                continue
            c[viol_key(v)] += 1
            ex.setdefault(viol_key(v), describe(v))
    res.extra["exact_subsets_with_disable"] = dict(note="violations that need --disable=… to be observed (not counted as violations of C27)",
                                                   by_key=dict(c), examples=ex)


def replay(ctx, res, rp):
    b = Batch("replay", [(rp["file"], rp["code"])], extra=rp.get("extra") or [])
    materialise(ctx, b)
    o1 = (tuple(rp["opts"][0]), rp["opts"][1])
    opts = [o1] + ([(tuple(rp["opts2"][0]), rp["opts2"][1])] if rp.get("opts2") else [])
    errs = run_batches(ctx, [b], opts, workers=2)
    if errs:
        print("replay: cppcheck failed: %s" % errs[:2])
        return 1
    vs = [v for v in p_impl(b, opts) if viol_key(v) == rp.get("key")]
    for o in opts:
        print("enabled={%s}%s:" % (",".join(o[0]), " --inconclusive" if o[1] else ""))
        for f in b.results.get(o, []):
            print("   ", f)
    if vs:
        print("REPRODUCED: " + describe(vs[0]))
        return 1
    print("not reproduced")
    return 0

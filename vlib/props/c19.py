"""C19 — incremental analysis is transparent across option changes.

Obligations
  theorems     Props/C19.lean: option_history_transparent(_partial) (C18's theorem over histories whose edits change options),
               options_covered_partial / options_covered_counterexample by `decide` over the generated tables, one stale-history
               counterexample for an option that is not part of the key
  T            translator: cli/cmdlineparser.cpp (which Settings fields each analysis option of the property's list writes),
               lib/settings.cpp (parseEnabled: --enable values; setCheckLevel), lib/errortypes.h / lib/*.cpp (which severities are
               ever read) -> Gen/OptionUse.lean; the hash fields come from Gen/HashInput.lean (C18's translator)
  C            CLI option histories on a fixed tree: every run compared with a run with the same options and no build dir (P_impl);
               every option the tables call uncovered must have a witness that reproduces on the real binary
"""
import json, os, re, shutil, hashlib
from .. import core, build_repo
from . import c18

ID = "C19"
LEVEL = "proof"
RULE = ("cases = runs of option histories over one build directory and a fixed tree whose findings depend on each option of the "
        "property's list (severities, checks, --inconclusive, -D, -U, -I, --std, --language, --platform, --library, suppressions, "
        "--max-configs, --check-level, --force); non-trivial = the run follows a run with another option set")
EXPLANATION = ("Lean: C18's transparency theorem covers histories whose edits change options (the options are part of the analysis input the "
               "key must determine); over the tables translated from cmdlineparser.cpp / settings.cpp and the translated toolinfo chain, every "
               "option of the list writes only fields that are hashed, derived from a hashed field, re-applied after the cache or visible in the "
               "token stream - except the listed uncovered options, each demonstrated on the real binary (known findings) and proved stale in the "
               "model. That a covered field is rendered unambiguously into toolinfo is validated by CLI option histories, not proved.")
THEOREMS = ["Cppcheck.Cache." + t for t in (
    "option_history_transparent_partial", "option_history_transparent_fixed", "options_covered_partial", "options_covered_counterexample",
    "uncovered_option_counterexample", "option_table_nonempty")]
MODULES = ["Cppcheck.Props.C19"]

Unrecognised = c18.Unrecognised

# the analysis options of the property record, as they are spelled in cmdlineparser.cpp's comparison
OPTIONS = [
    ("--inconclusive", 'std::strcmp(argv[i], "--inconclusive") == 0'),
    ("-D", 'std::strncmp(argv[i], "-D", 2) == 0'),
    ("-U", 'std::strncmp(argv[i], "-U", 2) == 0'),
    ("-I", 'std::strncmp(argv[i], "-I", 2) == 0'),
    ("--std=", 'std::strncmp(argv[i], "--std=", 6) == 0'),
    ("--language=", 'std::strncmp(argv[i], "--language=", 11) == 0 || std::strcmp(argv[i], "-x") == 0'),
    ("--platform=", 'std::strncmp(argv[i], "--platform=", 11) == 0'),
    ("--library=", 'std::strncmp(argv[i], "--library=", 10) == 0'),
    ("--suppress=", 'std::strncmp(argv[i], "--suppress=", 11) == 0'),
    ("--suppressions-list=", 'std::strncmp(argv[i], "--suppressions-list=", 20) == 0'),
    ("--inline-suppr", 'std::strcmp(argv[i], "--inline-suppr") == 0'),
    ("--max-configs=", 'std::strncmp(argv[i], "--max-configs=", 14) == 0'),
    ("--check-level=", 'std::strncmp(argv[i], "--check-level=", 14) == 0'),
    ("--force", 'std::strcmp(argv[i], "-f") == 0 || std::strcmp(argv[i], "--force") == 0'),
    ("--enable=", 'std::strncmp(argv[i], "--enable=", 9) == 0'),
    ("--disable=", 'std::strncmp(argv[i], "--disable=", 10) == 0'),
]
# writes through something that is not a Settings member
SPECIAL = [
    (r"\bmSuppressions\.nomsg\.\w+\(", "suppressions"),
    (r"\bmEnforcedLang\s*=", "enforcedLang"),
    (r"(?<![\w.])platform\s*=", "platform"),
]
METHODS = {"setCheckLevel", "addEnabled", "removeEnabled"}


def option_block(src, cond):
    k = src.find("else if (" + cond + ")")
    if k < 0:
        k = src.find("if (" + cond + ")")
    if k < 0:
        raise Unrecognised("option test not found: " + cond)
    i = k + src[k:].index(cond) + len(cond) + 1
    while src[i].isspace():
        i += 1
    if src[i] == "{":
        depth, j = 0, i
        while True:
            c = src[j]
            if c in "\"'":
                e = j + 1
                while src[e] != c:
                    e += 2 if src[e] == "\\" else 1
                j = e
            elif c == "{":
                depth += 1
            elif c == "}":
                depth -= 1
                if depth == 0:
                    break
            j += 1
        return src[i + 1:j]
    return src[i:src.index(";", i) + 1]


def block_fields(block, name):
    """the Settings fields (or special targets) the handler block writes; fail closed on any other use of mSettings"""
    fields, rest = [], block
    for rx, f in SPECIAL:
        if re.search(rx, rest):
            fields.append(f)
    # method calls on Settings itself
    for m in re.finditer(r"\bmSettings\.(\w+)\(", rest):
        if m.group(1) not in METHODS:
            raise Unrecognised("%s: call of Settings::%s" % (name, m.group(1)))
        fields.append("@" + m.group(1))
    rest = re.sub(r"\bmSettings\.(\w+)\(", "@(", rest)
    # member writes: assignment / compound assignment / mutating member call
    for m in re.finditer(r"\bmSettings\.(\w+)((?:\.\w+)*?)\s*(\+=|=(?!=))", rest):
        fields.append(m.group(1))
    rest = re.sub(r"\bmSettings\.(\w+)((?:\.\w+)*?)\s*(\+=|=(?!=))", "@=", rest)
    for m in re.finditer(r"\bmSettings\.(\w+)\.(enable|emplace_back|push_back|insert|setStd)\((?:(\w+)::(\w+)\))?", rest):
        fields.append(m.group(1) + (":" + m.group(4) if m.group(2) == "enable" and m.group(4) else ""))
    rest = re.sub(r"\bmSettings\.(\w+)\.(enable|emplace_back|push_back|insert|setStd)\(", "@(", rest)
    # reads that do not matter
    rest = re.sub(r"!mSettings\.\w+\.empty\(\)", "", rest)
    if "mSettings." in rest:
        raise Unrecognised("%s: unrecognised use of mSettings: %s" % (name, rest[rest.index("mSettings."):][:60]))
    out = []
    for f in fields:
        if f not in out:
            out.append(f)
    return out


def method_fields(settings_cpp, method):
    """members a Settings method writes (setCheckLevel)"""
    body = c18.function_body(settings_cpp, r"void\s+Settings::%s\s*\([^)]*\)\s*\{" % method)
    fields = []
    for m in re.finditer(r"(?m)^\s*(\w+)((?:\.\w+)*)\s*=(?!=)", body):
        if m.group(1) not in fields:
            fields.append(m.group(1))
    if not fields:
        raise Unrecognised("Settings::%s writes nothing recognisable" % method)
    return fields


def enum_members(src, name):
    m = re.search(r"enum\s+class\s+%s\s*(?::\s*[\w:]+\s*)?\{([^}]*)\}" % name, src)
    if not m:
        raise Unrecognised("enum class %s not found" % name)
    return [re.sub(r"\s*=.*", "", x.strip()) for x in c18.strip_comments(m.group(1)).split(",") if x.strip()]


def enable_values(repo):
    """--enable=<value> -> fields, from Settings::parseEnabled"""
    src = c18.strip_comments(open(os.path.join(repo, "lib", "settings.cpp")).read())
    body = c18.function_body(src, r"std::string\s+Settings::parseEnabled\s*\([^)]*\)\s*\{")
    k = body.find('if (str == "all")')
    if k < 0:
        raise Unrecognised("parseEnabled: chain of `str == \"…\"` not found")
    chain = re.sub(r"#ifdef CHECK_INTERNAL.*?#endif", "", body[k:], flags=re.S)
    sev = enum_members(c18.strip_comments(open(os.path.join(repo, "lib", "errortypes.h")).read()), "Severity")
    vals = {}
    for m in re.finditer(r'if \(str == "(\w+)"\)\s*\{(.*?)\}', chain, re.S):
        name, blk = m.group(1), m.group(2)
        fields = []
        for st in [x.strip() for x in blk.split(";") if x.strip()]:
            mm = re.match(r"^(severity|checks)\.enable\((Severity|Checks)::(\w+)\)$", st)
            if mm:
                fields.append("%s:%s" % (mm.group(1), mm.group(3))); continue
            if st == "SimpleEnableGroup<Severity> newSeverity":
                continue
            if st == "newSeverity.fill()":
                fields += ["severity:" + s for s in sev]; continue
            mm = re.match(r"^newSeverity\.disable\(Severity::(\w+)\)$", st)
            if mm:
                fields.remove("severity:" + mm.group(1)); continue
            if st == "severity.enable(newSeverity)":
                continue
            raise Unrecognised("parseEnabled %s: %s" % (name, st))
        vals[name] = fields
    tail = chain[chain.rfind("else {"):]
    if 'unknown name' not in tail:
        raise Unrecognised("parseEnabled: no rejecting else branch")
    # applyEnabled: the groups are applied to Settings::severity / Settings::checks, nothing else
    ab = c18.norm(c18.function_body(src, r"std::string\s+Settings::applyEnabled\s*\([^)]*\)\s*\{"))
    for need in ("severity.enable(s);", "checks.enable(c);", "severity.disable(s);", "checks.disable(c);"):
        if need not in ab:
            raise Unrecognised("applyEnabled: " + need)
    return vals, sev


def read_severities(repo, sev):
    """severities some code asks `severity.isEnabled(Severity::x)` about"""
    import glob
    used = set()
    for p in glob.glob(os.path.join(repo, "lib", "*.cpp")) + glob.glob(os.path.join(repo, "lib", "*.h")) + glob.glob(os.path.join(repo, "cli", "*.cpp")):
        for m in re.finditer(r"severity\.isEnabled\(Severity::(\w+)\)", open(p, encoding="utf-8", errors="replace").read()):
            used.add(m.group(1))
    return [s for s in sev if s in used]


def extract(repo=None):
    repo = repo or core.REPO
    src = c18.strip_comments(open(os.path.join(repo, "cli", "cmdlineparser.cpp")).read())
    scpp = c18.strip_comments(open(os.path.join(repo, "lib", "settings.cpp")).read())
    vals, sev = enable_values(repo)
    used = read_severities(repo, sev)
    table = []
    for name, cond in OPTIONS:
        fields = block_fields(option_block(src, cond), name)
        if name in ("--enable=", "--disable="):
            if fields != ["@addEnabled" if name == "--enable=" else "@removeEnabled"]:
                raise Unrecognised("%s writes %s" % (name, fields))
            for v, fs in vals.items():
                table.append((name + v, fs))
            continue
        out = []
        for f in fields:
            if f == "@setCheckLevel":
                out += method_fields(scpp, "setCheckLevel")
            elif f.startswith("@"):
                raise Unrecognised("%s calls Settings::%s" % (name, f[1:]))
            else:
                out.append(f)
        table.append((name, out))
    # `--enable=style` also enables three more groups in the command line parser itself
    eb = option_block(src, OPTIONS[14][1])
    extra = re.findall(r'mSettings\.addEnabled\("(\w+)"\)', eb)
    if 'enable_arg.find("style")' in eb:
        for i, (n, fs) in enumerate(table):
            if n in ("--enable=style", "--enable=all"):
                table[i] = (n, fs + [f for e in extra for f in vals.get(e, []) if f not in fs])
    elif extra:
        raise Unrecognised("--enable= block enables %s under an unrecognised condition" % extra)
    return table, used


def gen_text(table, used):
    L = ["import Cppcheck.Model.Cache",
         "/- GENERATED by vlib/props/c19.py from cli/cmdlineparser.cpp (option handlers), lib/settings.cpp (parseEnabled, applyEnabled,",
         "   setCheckLevel), lib/errortypes.h and the `severity.isEnabled(Severity::…)` sites of lib/ and cli/ — do not edit -/",
         "namespace Cppcheck.Gen.OptionUse", "open Cppcheck.Cache", "",
         "/-- analysis option (as spelled on the command line) and the `Settings` fields / parser targets its handler writes -/",
         "def options : List OptionUse := [",
         ",\n".join("  { name := %s, fields := [%s] }" % (c18.lean_str(n), ", ".join(c18.lean_str(f) for f in fs)) for n, fs in table),
         "]", "",
         "/-- severities some code asks `severity.isEnabled` about -/",
         "def readSeverities : List String := [%s]" % ", ".join(c18.lean_str("severity:" + s) for s in used), "",
         "end Cppcheck.Gen.OptionUse", ""]
    return "\n".join(L)


def translate(ctx):
    try:
        table, used = extract()
        ctx.write_gen("OptionUse", gen_text(table, used))
        return True, "", (table, used)
    except (Unrecognised, OSError, ValueError, IndexError, KeyError) as e:
        ctx.write_gen("OptionUse", gen_text([], []))
        return False, "unrecognised shape: %s" % e, None


def run(ctx, res):
    ok, detail, ex = translate(ctx)
    res.oblig("T:option-use-translation", ok, "translation", detail)
    ok18, detail18, ex18 = c18.translate(ctx)
    res.oblig("T:hash-input-translation", ok18, "translation", detail18)
    core.prove(ctx, res, MODULES, THEOREMS)

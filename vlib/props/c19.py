"""C19 — incremental analysis is transparent across option changes.

Obligations
  theorems     Props/C19.lean: option_history_transparent(_partial) (C18's theorem over histories whose edits change options),
               options_covered_partial / options_covered_counterexample by `decide` over the generated tables, one stale-history
               counterexample for an option that is not part of the key
  T            translator: cli/cmdlineparser.cpp (which Settings fields each analysis option of the property's list writes),
               lib/settings.cpp (parseEnabled: --enable values; setCheckLevel), lib/errortypes.h / lib/*.cpp (which severities are
               ever read) -> Gen/OptionUse.lean; the hash fields come from Gen/HashInput.lean (C18's translator)
  C            in-process: real CppCheck::calculateHash under generated Settings == std::hash of the model's toolinfo rendering + tokens;
               CLI option histories on a fixed tree: every run compared with a run with the same options and no build dir (P_impl);
               every option the tables call uncovered must have a witness that reproduces on the real binary
"""
import json, os, re, shutil, hashlib
from .. import core, build_repo
from . import c18

ID = "C19"
LEVEL = "other"
RULE = ("cases = runs of option histories over one build directory and a fixed tree whose findings depend on each option of the "
        "property's list (severities, checks, --inconclusive, -D, -U, -I, --std, --language, --platform, --library, suppressions, "
        "--max-configs, --check-level, --force); non-trivial = the run follows a run with another option set")
EXPLANATION = ("PARTIAL. Proved (Lean): C18's transparency theorem for histories whose edits change options, with the hypothesis hopt = 'equal "
               "toolinfo implies equal option values' kept explicit; over the tables translated on every run from cmdlineparser.cpp / settings.cpp and "
               "from the toolinfo chain, every analysis option of the property's list except --language= writes only fields that are hashed, derived "
               "from a hashed field, re-applied after the cache or visible in the token stream (options_covered_partial; --language= is a replayed known "
               "finding); a change confined to one block of the chain changes toolinfo (covered_block_determined). NOT proved: that the chain as a whole "
               "is uniquely decodable - it is not for arbitrary settings (toolinfo_rendering_ambiguous: maxConfigs 11/level 0 vs maxConfigs 1/level 1/addon "
               "'0'), so hopt does not follow from the table; the five hand-classified roles of unhashed fields are asserted from reading the code. Both "
               "gaps are covered only dynamically: in-process key correspondence, CLI option histories (every reuse of a cached file must be explained by "
               "an option the tables call uncovered or role-excused; named A-B-A obligations per role-excused option).")
ASSUMPTIONS = c18.ASSUMPTIONS + [
    "hopt: on the inputs of a history equal toolinfo implies equal values of the analysis options (not derived from the coverage table: the chain has "
    "no separators between userDefines, the two flag characters, maxConfigsOption, checkLevel, addon name/args, premiumArgs)",
    "FieldRole classifications (suppressions re-applied after the cache, includePaths through tokens, inlineSuppressions via suppressions, vfOptions "
    "via checkLevel, unusedFunction switch-off consumer-gated) are read off the code, each backed by a named A-B-A CLI obligation only",
    "--library / --platform name files whose contents are not part of the key (names only)",
]
THEOREMS = ["Cppcheck.Cache." + t for t in (
    "option_history_transparent_partial", "option_history_transparent_generic", "options_covered_partial", "options_covered_counterexample",
    "options_covered_legacy_counterexample", "uncovered_option_counterexample", "option_table_nonempty",
    "covered_block_determined", "toolinfo_rendering_ambiguous")]
MODULES = ["Cppcheck.Props.C19"]

Unrecognised = c18.Unrecognised

# the analysis options of the property record, as they are spelled in cmdlineparser.cpp's comparison
OPTIONS = [
    ("--inconclusive", 'std::strcmp(argv[i], "--inconclusive") == 0'),
    ("-D", 'std::strncmp(argv[i], "-D", 2) == 0'),
    ("-U", 'std::strncmp(argv[i], "-U", 2) == 0'),
    ("-I", 'std::strncmp(argv[i], "-I", 2) == 0'),
    ("--std=", 'std::strncmp(argv[i], "--std=", 6) == 0'),
    ("--language=", 'std::strncmp(argv[i], "--language=", 11) == 0 || std::strcmp(argv[i], "-x") == 0'),
    ("--platform=", 'std::strncmp(argv[i], "--platform=", 11) == 0'),
    ("--library=", 'std::strncmp(argv[i], "--library=", 10) == 0'),
    ("--suppress=", 'std::strncmp(argv[i], "--suppress=", 11) == 0'),
    ("--suppressions-list=", 'std::strncmp(argv[i], "--suppressions-list=", 20) == 0'),
    ("--inline-suppr", 'std::strcmp(argv[i], "--inline-suppr") == 0'),
    ("--max-configs=", 'std::strncmp(argv[i], "--max-configs=", 14) == 0'),
    ("--check-level=", 'std::strncmp(argv[i], "--check-level=", 14) == 0'),
    ("--force", 'std::strcmp(argv[i], "-f") == 0 || std::strcmp(argv[i], "--force") == 0'),
    ("--enable=", 'std::strncmp(argv[i], "--enable=", 9) == 0'),
    ("--disable=", 'std::strncmp(argv[i], "--disable=", 10) == 0'),
]
# writes through something that is not a Settings member
SPECIAL = [
    (r"\bmSuppressions\.nomsg\.\w+\(", "suppressions"),
    (r"\bmEnforcedLang\s*=", "enforcedLang"),
    (r"(?<![\w.])platform\s*=", "platform"),
]
METHODS = {"setCheckLevel", "addEnabled", "removeEnabled"}


def option_block(src, cond):
    k = src.find("else if (" + cond + ")")
    if k < 0:
        k = src.find("if (" + cond + ")")
    if k < 0:
        raise Unrecognised("option test not found: " + cond)
    i = k + src[k:].index(cond) + len(cond) + 1
    while src[i].isspace():
        i += 1
    if src[i] == "{":
        depth, j = 0, i
        while True:
            c = src[j]
            if c in "\"'":
                e = j + 1
                while src[e] != c:
                    e += 2 if src[e] == "\\" else 1
                j = e
            elif c == "{":
                depth += 1
            elif c == "}":
                depth -= 1
                if depth == 0:
                    break
            j += 1
        return src[i + 1:j]
    return src[i:src.index(";", i) + 1]


def block_fields(block, name):
    """the Settings fields (or special targets) the handler block writes; fail closed on any other use of mSettings"""
    fields, rest = [], block
    for rx, f in SPECIAL:
        if re.search(rx, rest):
            fields.append(f)
    # method calls on Settings itself
    for m in re.finditer(r"\bmSettings\.(\w+)\(", rest):
        if m.group(1) not in METHODS:
            raise Unrecognised("%s: call of Settings::%s" % (name, m.group(1)))
        fields.append("@" + m.group(1))
    rest = re.sub(r"\bmSettings\.(\w+)\(", "@(", rest)
    # member writes: assignment / compound assignment / mutating member call
    for m in re.finditer(r"\bmSettings\.(\w+)((?:\.\w+)*?)\s*(\+=|=(?!=))", rest):
        fields.append(m.group(1))
    rest = re.sub(r"\bmSettings\.(\w+)((?:\.\w+)*?)\s*(\+=|=(?!=))", "@=", rest)
    for m in re.finditer(r"\bmSettings\.(\w+)\.(enable|emplace_back|push_back|insert|setStd)\((?:(\w+)::(\w+)\))?", rest):
        fields.append(m.group(1) + (":" + m.group(4) if m.group(2) == "enable" and m.group(4) else ""))
    rest = re.sub(r"\bmSettings\.(\w+)\.(enable|emplace_back|push_back|insert|setStd)\(", "@(", rest)
    # reads that do not matter
    rest = re.sub(r"!mSettings\.\w+\.empty\(\)", "", rest)
    if "mSettings." in rest:
        raise Unrecognised("%s: unrecognised use of mSettings: %s" % (name, rest[rest.index("mSettings."):][:60]))
    out = []
    for f in fields:
        if f not in out:
            out.append(f)
    return out


def method_fields(settings_cpp, method):
    """members a Settings method writes (setCheckLevel)"""
    body = c18.function_body(settings_cpp, r"void\s+Settings::%s\s*\([^)]*\)\s*\{" % method)
    fields = []
    for m in re.finditer(r"(?m)^\s*(\w+)((?:\.\w+)*)\s*=(?!=)", body):
        if m.group(1) not in fields:
            fields.append(m.group(1))
    if not fields:
        raise Unrecognised("Settings::%s writes nothing recognisable" % method)
    return fields


def enum_members(src, name):
    m = re.search(r"enum\s+class\s+%s\s*(?::\s*[\w:]+\s*)?\{([^}]*)\}" % name, src)
    if not m:
        raise Unrecognised("enum class %s not found" % name)
    return [re.sub(r"\s*=.*", "", x.strip()) for x in c18.strip_comments(m.group(1)).split(",") if x.strip()]


def enable_values(repo):
    """--enable=<value> -> fields, from Settings::parseEnabled"""
    src = c18.strip_comments(open(os.path.join(repo, "lib", "settings.cpp")).read())
    body = c18.function_body(src, r"std::string\s+Settings::parseEnabled\s*\([^)]*\)\s*\{")
    k = body.find('if (str == "all")')
    if k < 0:
        raise Unrecognised("parseEnabled: chain of `str == \"…\"` not found")
    chain = re.sub(r"#ifdef CHECK_INTERNAL.*?#endif", "", body[k:], flags=re.S)
    sev = enum_members(c18.strip_comments(open(os.path.join(repo, "lib", "errortypes.h")).read()), "Severity")
    vals = {}
    for m in re.finditer(r'if \(str == "(\w+)"\)\s*\{(.*?)\}', chain, re.S):
        name, blk = m.group(1), m.group(2)
        fields = []
        for st in [x.strip() for x in blk.split(";") if x.strip()]:
            mm = re.match(r"^(severity|checks)\.enable\((Severity|Checks)::(\w+)\)$", st)
            if mm:
                fields.append("%s:%s" % (mm.group(1), mm.group(3))); continue
            if st == "SimpleEnableGroup<Severity> newSeverity":
                continue
            if st == "newSeverity.fill()":
                fields += ["severity:" + s for s in sev]; continue
            mm = re.match(r"^newSeverity\.disable\(Severity::(\w+)\)$", st)
            if mm:
                fields.remove("severity:" + mm.group(1)); continue
            if st == "severity.enable(newSeverity)":
                continue
            raise Unrecognised("parseEnabled %s: %s" % (name, st))
        vals[name] = fields
    tail = chain[chain.rfind("else {"):]
    if 'unknown name' not in tail:
        raise Unrecognised("parseEnabled: no rejecting else branch")
    # applyEnabled: the groups are applied to Settings::severity / Settings::checks, nothing else
    ab = c18.norm(c18.function_body(src, r"std::string\s+Settings::applyEnabled\s*\([^)]*\)\s*\{"))
    for need in ("severity.enable(s);", "checks.enable(c);", "severity.disable(s);", "checks.disable(c);"):
        if need not in ab:
            raise Unrecognised("applyEnabled: " + need)
    return vals, sev


def read_severities(repo, sev):
    """severities some code asks `severity.isEnabled(Severity::x)` about.  A question asked only under `mSettings.debugwarnings &&`
    (set by --debug-warnings, which is not an analysis option of the property's list) does not count."""
    import glob
    used = set()
    for p in glob.glob(os.path.join(repo, "lib", "*.cpp")) + glob.glob(os.path.join(repo, "lib", "*.h")) + glob.glob(os.path.join(repo, "cli", "*.cpp")):
        text = c18.strip_comments(open(p, encoding="utf-8", errors="replace").read())
        text = re.sub(r"mSettings\.debugwarnings\s*&&\s*mSettings\.severity\.isEnabled\(Severity::debug\)", "", text)
        for m in re.finditer(r"severity\.isEnabled\(Severity::(\w+)\)", text):
            used.add(m.group(1))
    return [s for s in sev if s in used]


def extract(repo=None):
    repo = repo or core.REPO
    src = c18.strip_comments(open(os.path.join(repo, "cli", "cmdlineparser.cpp")).read())
    scpp = c18.strip_comments(open(os.path.join(repo, "lib", "settings.cpp")).read())
    vals, sev = enable_values(repo)
    used = read_severities(repo, sev)
    table = []
    for name, cond in OPTIONS:
        fields = block_fields(option_block(src, cond), name)
        if name in ("--enable=", "--disable="):
            if fields != ["@addEnabled" if name == "--enable=" else "@removeEnabled"]:
                raise Unrecognised("%s writes %s" % (name, fields))
            for v, fs in vals.items():
                table.append((name + v, fs if name == "--enable=" else [f + "-" for f in fs]))
            continue
        out = []
        for f in fields:
            if f == "@setCheckLevel":
                out += method_fields(scpp, "setCheckLevel")
            elif f.startswith("@"):
                raise Unrecognised("%s calls Settings::%s" % (name, f[1:]))
            else:
                out.append(f)
        table.append((name, out))
    # `--enable=style` also enables three more groups in the command line parser itself
    eb = option_block(src, OPTIONS[14][1])
    extra = re.findall(r'mSettings\.addEnabled\("(\w+)"\)', eb)
    if 'enable_arg.find("style")' in eb:
        for i, (n, fs) in enumerate(table):
            if n in ("--enable=style", "--enable=all"):
                table[i] = (n, fs + [f for e in extra for f in vals.get(e, []) if f not in fs])
    elif extra:
        raise Unrecognised("--enable= block enables %s under an unrecognised condition" % extra)
    return table, used


def gen_text(table, used):
    L = ["import Cppcheck.Model.Cache",
         "/- GENERATED by vlib/props/c19.py from cli/cmdlineparser.cpp (option handlers), lib/settings.cpp (parseEnabled, applyEnabled,",
         "   setCheckLevel), lib/errortypes.h and the `severity.isEnabled(Severity::…)` sites of lib/ and cli/ — do not edit -/",
         "namespace Cppcheck.Gen.OptionUse", "open Cppcheck.Cache", "",
         "/-- analysis option (as spelled on the command line) and the `Settings` fields / parser targets its handler writes -/",
         "def options : List OptionUse := [",
         ",\n".join("  { name := %s, fields := [%s] }" % (c18.lean_str(n), ", ".join(c18.lean_str(f) for f in fs)) for n, fs in table),
         "]", "",
         "/-- severities some code asks `severity.isEnabled` about -/",
         "def readSeverities : List String := [%s]" % ", ".join(c18.lean_str("severity:" + s) for s in used), "",
         "end Cppcheck.Gen.OptionUse", ""]
    return "\n".join(L)


def translate(ctx):
    try:
        table, used = extract()
        ctx.write_gen("OptionUse", gen_text(table, used))
        return True, "", (table, used)
    except (Unrecognised, OSError, ValueError, IndexError, KeyError) as e:
        ctx.write_gen("OptionUse", gen_text([], []))
        return False, "unrecognised shape: %s" % e, None


# ---- CLI option histories -------------------------------------------------------------------------------------------------------

CFGS = "".join("#ifdef C%d\nvoid fc%d(void){int a[2]; a[%d]=0;}\n#endif\n" % (k, k, 2 + k % 7) for k in range(14))
TREE = {
    "u.c": "#ifdef X\nvoid fu(void){int a[2]; a[5]=0;}\n#endif\n#ifndef X\nint zu(int y){return y/0;}\n#endif\n",
    "lang.c": "void fl(void*p){ char *c = (char*)p; (void)c; }\n",
    "plat.c": "int fp(void){ long x = 1L << 40; return (int)x; }\n",
    "lib.c": "#include <fcntl.h>\nvoid fo(void){ int fd = open(\"a\",0); (void)fd; }\n",
    "uf.c": "void unused1(void){}\nint main(void){return 0;}\n",
    "mi.c": "#include \"nothere.h\"\nint fm(void){return 0;}\n",
    "std.c": "#include <alloca.h>\nvoid fs(int n){ char *p = alloca(n); p[0]=0; }\n",
    "inc.c": "void fi(int x){ switch(x){ case 1 || 2: break; } }\n",
    "hdr.c": "#include \"h.h\"\nint fh(void){return h1();}\n",
    "i1/h.h": "static int h1(void){int a[2]; return a[3];}\n",
    "i2/h.h": "\nstatic int h1(void){int a[2]; return a[4];}\n",
    "sup.c": "int fz(int y){return y/0;} // cppcheck-suppress zerodiv\nvoid fa(void){int a[2]; a[6]=0;}\n",
    "cfgs.c": CFGS,
    "style.c": "void fy(int *p){ int x = 5; x = 6; if (p) {} *p = x; }\n",
}
DIMS = {
    "--inconclusive": [[], ["--inconclusive"]],
    "-D": [[], ["-DX"], ["-DX", "-DC3=2"]],
    "-U": [[], ["-UX"], ["-UC1"]],
    "-I": [[], ["-Ii1"], ["-Ii2"]],
    "--std=": [[], ["--std=c89"], ["--std=c11"]],
    "--language=": [[], ["--language=c"], ["--language=c++"]],
    "--platform=": [[], ["--platform=unix32"], ["--platform=unix64"]],
    "--library=": [[], ["--library=posix"]],
    "--suppress=": [[], ["--suppress=zerodiv"], ["--suppress=arrayIndexOutOfBounds:u.c"], ["--suppress=*:cfgs.c"]],
    "--inline-suppr": [[], ["--inline-suppr"]],
    "--max-configs=": [[], ["--max-configs=1"], ["--max-configs=3"]],
    "--check-level=": [[], ["--check-level=normal"], ["--check-level=exhaustive"], ["--check-level=reduced"]],
    "--force": [[], ["--force"]],
    "--enable=": [[], ["--enable=warning"], ["--enable=style"], ["--enable=performance,portability"], ["--enable=information"],
                  ["--enable=unusedFunction"], ["--enable=missingInclude"], ["--enable=all"],
                  ["--enable=warning,style,performance,portability,information"],
                  ["--enable=missingInclude", "--disable=missingInclude"], ["--enable=missingInclude", "--disable=all"],
                  ["--enable=unusedFunction", "--disable=unusedFunction"], ["--enable=all", "--disable=style"]],
}
# which option of the tables explains a stale hit when the two runs differ in a dimension
KEYPFX = "option-not-in-key:"
KEY_CHECKERS = "checkers-report-unusedfunction-jobs"
# options whose written fields are not hashed themselves but excused by a FieldRole (Model/Cache.lean fieldRole): reuse across a change is legitimate
ROLE_EXCUSED = {"-I", "--inline-suppr", "--disable=unusedFunction"}


def enabled_sets(vals):
    """effect of the --enable/--disable arguments of one option set on (severity flags, checks), as the parser applies them"""
    sev, chk = set(), set()
    for v in vals:
        on = v.startswith("--enable=")
        for w in v.split("=", 1)[1].split(","):
            if w == "all":
                s2, c2 = {"warning", "style", "performance", "portability", "information", "debug"}, {"unusedFunction", "missingInclude"}
            elif w in ("unusedFunction", "missingInclude"):
                s2, c2 = set(), {w}
            else:
                s2, c2 = {w}, set()
            if on and w == "style":
                s2 |= {"warning", "performance", "portability"}
            if on:
                sev |= s2; chk |= c2
            else:
                sev -= s2; chk -= c2
    return sev, chk


def explain(optsA, optsB):
    """option names (as in Gen.OptionUse) by which two option sets differ"""
    names = set()
    def eff(o, d):
        v = o.get(d, [])
        if d == "--check-level=":
            return v or ["--check-level=normal"]            # the command line parser starts with setCheckLevel(normal)
        if d == "--max-configs=":
            return [] if o.get("--force") else v            # --force (handled after --max-configs in our command lines) resets maxConfigsOption
        return v
    for d in DIMS:
        a, b = eff(optsA, d), eff(optsB, d)
        if a == b:
            continue
        if d != "--enable=":
            names.add(d); continue
        (sa, ca), (sb, cb) = enabled_sets(a), enabled_sets(b)
        for w in sa ^ sb:
            names.add("--enable=" + w)
        for w in cb - ca:
            names.add("--enable=" + w)
        for w in ca - cb:
            names.add("--disable=" + w)
    return names


def flat(opts):
    return [x for d in DIMS for x in opts.get(d, [])]


def option_history(ctx, tag, optsets, jobs):
    """runs over one build directory and the fixed tree; returns per run dict(cached, fresh, rc_c, rc_f, dec)"""
    work = os.path.join(ctx.tmp, "opt", tag)
    shutil.rmtree(work, ignore_errors=True)
    src, bd = os.path.join(work, "src"), os.path.join(work, "bd")
    os.makedirs(src); os.makedirs(bd)
    c18.write_tree(src, TREE)
    files = c18.sources(TREE)
    runs = []
    for k, o in enumerate(optsets):
        j = jobs[k] if isinstance(jobs, list) else jobs
        shutil.copytree(bd, os.path.join(work, "bd%d" % k))
        rc_c, cached, dec, other = c18.cppcheck(ctx, src, files, bd="../bd", jobs=j, extra=flat(o))
        rc_f, fresh, _, other2 = c18.cppcheck(ctx, src, files, extra=flat(o))
        runs.append(dict(cached=cached, fresh=fresh, rc_c=rc_c, rc_f=rc_f, dec=dec, jobs=j, k=k, work=work, src=src, files=files, other=other + other2))
    return runs


def judge_options(ctx, res, tag, optsets, jobs, runs, uncovered):
    """P_impl for every run; returns the set of known keys seen"""
    seen = set()
    last = {}        # file -> index of the run that analysed it last (whose result the cache holds)
    for k, r in enumerate(runs):
        hits = [f for f in r["files"] if r["dec"].get(f, ("", "?"))[1] == "h"]
        for f in r["files"]:
            if r["dec"].get(f, ("", "?"))[1] != "h":
                last[f] = k
        res.count("jobs:%d" % r["jobs"])
        res.count("files-reused" if hits else "all-reanalysed")
        canon = "%s run %d %s" % (tag, k, " ".join(flat(optsets[k])))
        res.case("opt|" + " ".join(flat(o) and " ".join(flat(o)) or "-" for o in optsets[:k + 1]), k > 0,
                 dict(tie="cli-option-history", op=canon, impl="%d findings rc=%d" % (len(r["cached"]), r["rc_c"]), model="fresh: %d findings rc=%d" % (len(r["fresh"]), r["rc_f"])))
        # the key must change whenever a hashed option changes: a file may be served from the cache only if the options of the run that
        # analysed it differ from the current ones in nothing, or only in options the tables call uncovered / excuse by a role
        for f in hits:
            chg = explain(optsets[last.get(f, 0)], optsets[k])
            bad = sorted(n for n in chg if n not in uncovered and n not in ROLE_EXCUSED)
            res.count("reuse:options-equal" if not chg else "reuse:options-differ")
            if bad:
                res.violation("run %d of option history %s: %s is served from the cache although the hashed option(s) %s changed since it was analysed (run %d: %s; now: %s)" % (
                                  k, tag, f, bad, last.get(f, 0), " ".join(flat(optsets[last.get(f, 0)])) or "-", " ".join(flat(optsets[k])) or "-"),
                              dict(optsets=optsets[:k + 1], jobs=(jobs[:k + 1] if isinstance(jobs, list) else jobs), file=f, changed=bad), concrete=True, key=None)
        if r["cached"] == r["fresh"] and r["rc_c"] == r["rc_f"]:
            res.traces_validated += 1
            continue
        names = set()
        for f in hits:
            names |= explain(optsets[last.get(f, 0)], optsets[k])
        # -jN with a build dir computes unusedFunction through CheckUnusedFunctions::analyseWholeProgram(buildDir), which does not
        # log "CheckUnusedFunctions::check" as an active checker: the checkersReport information message counts one checker less
        dc, df = sorted(set(r["cached"]) - set(r["fresh"])), sorted(set(r["fresh"]) - set(r["cached"]))
        mc = len(dc) == 1 and re.match(r"^nofile\|0\|0\|information\|checkersReport\|Active checkers: (\d+)/(\d+) ", dc[0])
        mf = len(df) == 1 and re.match(r"^nofile\|0\|0\|information\|checkersReport\|Active checkers: (\d+)/(\d+) ", df[0])
        sev_k, chk_k = enabled_sets(optsets[k].get("--enable=", []))
        if mc and mf and int(mf.group(1)) == int(mc.group(1)) + 1 and r["jobs"] > 1 and "unusedFunction" in chk_k and r["rc_c"] == r["rc_f"]:
            res.violation("run %d of option history %s (-j%d %s): %s with build dir, %s without" % (k, tag, r["jobs"], " ".join(flat(optsets[k])), dc[0], df[0]),
                          dict(optsets=optsets[:k + 1], jobs=(jobs[:k + 1] if isinstance(jobs, list) else jobs), cached=r["cached"], fresh=r["fresh"]),
                          concrete=True, key=KEY_CHECKERS)
            seen.add(KEY_CHECKERS)
            res.count("known:checkers-report")
            continue
        what = "run %d of option history %s (%s) with --cppcheck-build-dir reports %s, without build dir %s" % (
            k, tag, " ".join(flat(optsets[k])) or "no options", sorted(set(r["cached"]) - set(r["fresh"]))[:3] or "(nothing extra)",
            sorted(set(r["fresh"]) - set(r["cached"]))[:3] or "(nothing extra)")
        payload = dict(optsets=optsets[:k + 1], jobs=(jobs[:k + 1] if isinstance(jobs, list) else jobs), cached=r["cached"], fresh=r["fresh"],
                       rc_cached=r["rc_c"], rc_fresh=r["rc_f"], changed=sorted(names), replay_cmd="./check.py C19 --replay <this file>")
        expl = sorted(n for n in names if n in uncovered)
        if not expl:
            # the summaries channel of C18 (return summaries of the previous run are not part of the key)?
            bdc = os.path.join(r["work"], "nosum%d" % k)
            shutil.rmtree(bdc, ignore_errors=True)
            shutil.copytree(os.path.join(r["work"], "bd%d" % k), bdc)
            for f in os.listdir(bdc):
                if re.search(r"\.s\d+$", f):
                    os.remove(os.path.join(bdc, f))
            rc2, cached2, _, _ = c18.cppcheck(ctx, r["src"], r["files"], bd=bdc, jobs=r["jobs"], extra=flat(optsets[k]))
            if (cached2, rc2) == (r["fresh"], r["rc_f"]):
                res.violation(what, payload, concrete=True, key=c18.KEY_SUMM)
                seen.add(c18.KEY_SUMM)
            else:
                res.violation(what, payload, concrete=True, key=None)
            continue
        for n in expl:
            res.violation(what, payload, concrete=True, key=KEYPFX + n)
            seen.add(KEYPFX + n)
            res.count("known:" + n)
    return seen


def gen_option_history(rng, n):
    cur = {d: [] for d in DIMS}
    for d in rng.sample(list(DIMS), rng.choice([0, 1, 2, 3])):
        cur[d] = rng.choice(DIMS[d])
    out = [dict(cur)]
    for _ in range(n - 1):
        r = rng.random()
        if r < 0.25:
            pass                                    # same options again: everything is served from the cache
        elif r < 0.45 and len(out) >= 2:
            cur = dict(out[-2])                     # back to the options before the last change (A -> B -> A)
        elif r < 0.6:
            d = rng.choice(["-I", "--inline-suppr", "--language="])      # role-excused / uncovered: files are reused across the change
            cur[d] = rng.choice([v for v in DIMS[d] if v != cur[d]])
        else:
            for d in rng.sample(list(DIMS), rng.choice([1, 1, 1, 2])):
                cur[d] = rng.choice([v for v in DIMS[d] if v != cur[d]])
        out.append(dict(cur))
    return out


def py_uncovered(table, used, hash_fields):
    """the options the tables call uncovered under the fields hashed today (same rule as Cache.fieldCovered)"""
    role = {"suppressions": None, "includePaths": None, "inlineSuppressions": "suppressions", "vfOptions": "checkLevel", "checks:unusedFunction-": None}
    def cov(f):
        base = f[:-1] if f.endswith("-") else f
        if base in hash_fields:
            return True
        if f in role:
            return role[f] is None or role[f] in hash_fields
        return f.startswith("severity:") and base not in ["severity:" + u for u in used]
    return [n for n, fs in table if not all(cov(f) for f in fs)]


def hash_fields_of(items):
    out = []
    for t in items:
        k = t[0]
        if k == "productOrVersion": out.append("cppcheckCfgProductName")
        elif k == "sevFlag": out.append("severity:" + t[1])
        elif k in ("boolFlag", "strField", "intField", "enumField", "strSetField", "callField"): out.append(t[1])
        elif k == "addonInfos": out.append("addonInfos")
        elif k == "supprDump": out.append("suppressions")
        elif k == "groupFlag": out.append(t[1] + ":" + t[2])
    return out


def load_corpus():
    p = os.path.join(core.VERIF, "corpus", "C19", "cases.json")
    return json.load(open(p)) if os.path.exists(p) else []


def cli_option_histories(ctx, res, table, used, items, n, nruns):
    rng = ctx.rng
    uncovered = set(py_uncovered(table, used, hash_fields_of(items)))
    res.extra["uncovered_options_today"] = sorted(uncovered)
    todo = []
    for c in load_corpus():
        todo.append(("corpus-" + c["name"], c["optsets"], c.get("jobs", 1), c))
    for h in range(n):
        todo.append(("o%d" % h, gen_option_history(rng, nruns), rng.choice([1, 1, 1, 2]), None))
    from concurrent.futures import ThreadPoolExecutor
    with ThreadPoolExecutor(max_workers=3) as ex:
        allruns = list(ex.map(lambda t: option_history(ctx, t[0], t[1], t[2]), todo))
    demonstrated = set()
    for (tag, optsets, jobs, c), runs in zip(todo, allruns):
        seen = judge_options(ctx, res, tag, optsets, jobs, runs, uncovered)
        if c:
            res.extra.setdefault("witnesses", {})[c["name"]] = "reproduces" if c["key"] in seen else "does not reproduce"
            if c["key"] in seen and c["key"].startswith(KEYPFX):
                demonstrated.add(c["key"][len(KEYPFX):])
    # named obligations: every role-excused option has an A-B-A history whose cached runs equal the fresh runs
    for (tag, optsets, jobs, c), runs in zip(todo, allruns):
        if c and c.get("role"):
            okr = all(r["cached"] == r["fresh"] and r["rc_c"] == r["rc_f"] for r in runs)
            res.oblig("role-excused:%s (%s)" % (c["role"], c["name"]), okr, "correspondence",
                      "" if okr else "a cached run of the A-B-A history differs from the fresh run: the role that excuses this option no longer holds")
    missing = sorted(uncovered - demonstrated)
    res.oblig("every-uncovered-option-has-a-failing-input", not missing, "correspondence",
              "" if not missing else "the tables say these options do not reach the key, but no witness of corpus/C19 reproduces on the real binary: %s" % missing)


def replay(ctx, res, rp):
    table, used = extract()
    items = c18.extract()[0]
    uncovered = set(py_uncovered(table, used, hash_fields_of(items)))
    runs = option_history(ctx, "replay", rp["optsets"], rp.get("jobs", 1))
    bad = 0
    for k, r in enumerate(runs):
        same = r["cached"] == r["fresh"] and r["rc_c"] == r["rc_f"]
        print("run %d [%s]: %s" % (k, " ".join(flat(rp["optsets"][k])), "same as a run without build dir" if same else "DIFFERS"))
        if not same:
            bad += 1
            print("   only with build dir   : %s" % sorted(set(r["cached"]) - set(r["fresh"])))
            print("   only without build dir: %s" % sorted(set(r["fresh"]) - set(r["cached"])))
    print("replay: %d run(s) differ" % bad)
    return 1 if bad else 0


def run(ctx, res):
    import time
    thorough = ctx.tier == "thorough"
    t = time.time()
    ok, detail, ex = translate(ctx)
    res.oblig("T:option-use-translation", ok, "translation", detail)
    ok18, detail18, ex18 = c18.translate(ctx)
    res.oblig("T:hash-input-translation", ok18, "translation", detail18)
    core.prove(ctx, res, MODULES, THEOREMS)
    T = {"prove": round(time.time() - t, 1)}; t = time.time()
    # the toolinfo chain itself: real CppCheck::calculateHash against std::hash of the model's rendering (C18's in-process tie;
    # the generated settings vary every option field of the chain)
    drv = ctx.driver("drv_c18")
    exe = ctx.harness("c18")
    c18.key_cases(ctx, res, exe, drv, 300 if thorough else 80)
    T["key"] = round(time.time() - t, 1); t = time.time()
    if ex and ex18:
        cli_option_histories(ctx, res, ex[0], ex[1], ex18[0], 40 if thorough else 8, 6 if thorough else 5)
    T["cli"] = round(time.time() - t, 1)
    res.extra["timings_s"] = T
    res.assumptions = list(ASSUMPTIONS)

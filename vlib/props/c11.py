"""C11 — preprocessing matches a conforming preprocessor (partial: level "other").

Obligations
  theorems   lean/Cppcheck/Props/C11.lean (evaluator of `#if` = C17 6.10.1 semantics on the agreement class, proved counterexamples
             for every class of deviation; macro replacement: termination with explicit measure, object-like = substitution,
             = hide-set reference; conditional inclusion = group semantics of 6.10.1; -D / -U)
  C-eval     real simplecpp `#if` evaluation (in-process, IfCond) == model `evaluate` on printed expression trees and on
             malformed token soups
  C-pp       real simplecpp::preprocess == model `runFile` on generated sources (macros, conditionals) and configurations
  C-dui      real Preprocessor::getcode (createDUI) == model `duiDefines` + `runFile`
  spec       Lean specification `value` / model `runFile` == gcc -E -P -undef -nostdinc (second oracle, a sample in quick)
P_impl       on every generated well-defined input: branch taken / token stream of the real preprocessor == gcc's.
"""
import json, os, re, subprocess
from .. import core, build_repo

ID = "C11"
LEVEL = "other"
RULE = ("cases = (a) expression trees over decimal/octal/hex literals with u/L suffixes, defined(), identifiers, all unary/binary "
        "operators and ?: printed with the minimal parentheses of the C grammar, (b) malformed token soups, (c) sources with "
        "object-/function-like/variadic macros, #, ##, nested and recursive invocations, (d) sources with nested "
        "#if/#ifdef/#ifndef/#elif/#else/#endif, #define/#undef inside, under generated -D/-U sets; non-trivial = expression "
        "with >= 2 operators / source with >= 1 macro invocation or >= 2 conditionals; distinct = canonical op text")
EXPLANATION = ("Lean theorems about an executable copy of simplecpp's `#if` evaluator (token rewriting passes), a macro replacement "
               "algorithm with blue paint (termination by an explicit lexicographic measure), the ifstates machine of "
               "simplecpp::preprocess and createDUI's define list. The full statement 'evaluator = C17 6.10.1' is refuted by proved "
               "counterexamples (each replayed on the real code and recorded as known finding) and proved on the decidable agreement "
               "class. Macro::expand of simplecpp is not copied line by line: the replacement model is the standard's algorithm, "
               "tied to simplecpp and gcc -E by correspondence on the generated fragment. Outside the model: #include resolution, "
               "__has_include, pragmas, sizeof in #if, character/floating literals, alternative operator spellings, comments, "
               "placemarker corner cases of ##, function-like macro names that take their arguments from beyond the end of a "
               "replacement list.")
THEOREMS = []
MODULES = ["Cppcheck.Props.C11"]

hx, unhx = core.hx, core.unhx

GCC = ["gcc", "-E", "-P", "-undef", "-nostdinc", "-x", "c", "-"]

UNOPS = ["!", "-", "+", "~"]
BINOPS = ["*", "/", "%", "+", "-", "<<", ">>", "==", "!=", ">", ">=", "<", "<=", "&", "^", "|", "&&", "||"]


# ---- python lexer (names / pp-numbers / punctuators) used to compare token streams with gcc ----------------------------

PUNCT3 = ["<<=", ">>=", "..."]
PUNCT2 = ["==", "!=", "<=", ">=", "&&", "||", "<<", ">>", "->", "::", "+=", "-=", "*=", "/=", "%=", "&=", "|=", "^=", "##", "++", "--"]


def pylex(s):
    out = []
    i = 0
    n = len(s)
    while i < n:
        c = s[i]
        if c.isspace():
            i += 1
            continue
        if c.isalnum() or c in "_$":
            j = i
            while j < n and (s[j].isalnum() or s[j] in "_$"):
                j += 1
            out.append(s[i:j]); i = j
            continue
        if c == '"':
            j = i + 1
            while j < n and s[j] != '"':
                j += 2 if s[j] == "\\" else 1
            out.append(s[i:j + 1]); i = j + 1
            continue
        if s[i:i + 3] in PUNCT3:
            out.append(s[i:i + 3]); i += 3
            continue
        if s[i:i + 2] in PUNCT2:
            out.append(s[i:i + 2]); i += 2
            continue
        out.append(c); i += 1
    return out


def gcc_pp(src, defs=(), undefs=()):
    """(tokens | None, stderr): None when gcc reports an error or a warning"""
    args = list(GCC)
    for d in defs:
        args.insert(-3, "-D" + d)
    for u in undefs:
        args.insert(-3, "-U" + u)
    r = subprocess.run(args, input=src, stdout=subprocess.PIPE, stderr=subprocess.PIPE, text=True)
    if r.returncode != 0 or r.stderr.strip():
        return None, r.stderr
    return pylex(r.stdout), ""


# ---- expression trees -------------------------------------------------------------------------------------------------

def gen_lit(rng, plain):
    if plain or rng.random() < 0.7:
        n = rng.choice([0, 0, 1, 1, 2, 3, 4, 5, 7, 8, 10, 63, 64, 100, 255, 2 ** 31 - 1, 2 ** 31, 2 ** 32, 2 ** 63 - 1]) if rng.random() < 0.9 else rng.randrange(2 ** 63)
        return "l10.%d.0.0" % n
    r = rng.random()
    if r < 0.3:
        return "l16.%d.%d.0" % (rng.choice([0, 1, 15, 16, 255, 2 ** 63, 2 ** 64 - 1]), rng.choice([0, 0, 1]))
    if r < 0.5:
        return "l8.%d.0.0" % rng.choice([0, 1, 7, 8, 64])
    return "l10.%d.%d.%d" % (rng.choice([0, 1, 2, 5, 2 ** 32]), rng.choice([0, 1, 1]), rng.choice([0, 0, 1, 2]))


def gen_expr(rng, d, plain=False, ops=None):
    k = rng.random()
    if d <= 0 or k < 0.3:
        r = rng.random()
        if r < 0.85:
            return gen_lit(rng, plain)
        if r < 0.95:
            return ("D" if rng.random() < .5 else "P") + hx(rng.choice(["A", "B", "C"]))
        return "I" + hx(rng.choice(["X", "Y"]))
    if k < 0.42:
        return "u%d(%s)" % (rng.randrange(4), gen_expr(rng, d - 1, plain, ops))
    if k < 0.93:
        o = rng.choice(ops) if ops else rng.randrange(18)
        return "b%d(%s,%s)" % (o, gen_expr(rng, d - 1, plain, ops), gen_expr(rng, d - 1, plain, ops))
    return "c(%s,%s,%s)" % (gen_expr(rng, d - 1, plain, ops), gen_expr(rng, d - 1, plain, ops), gen_expr(rng, d - 1, plain, ops))


def gen_soup(rng):
    toks = ["0", "1", "2", "10", "(", ")", "(", ")", "+", "-", "*", "/", "!", "~", "?", ":", "<", "==", "&&", "||", "X", "defined", "A", "<<", "%", ","]
    return " ".join(rng.choice(toks) for _ in range(rng.randrange(1, 9)))


# ---- sources with macros ------------------------------------------------------------------------------------------------

OBJ = ["A", "B", "C", "D", "E"]
FUN = ["f", "g", "h", "k"]
PLAIN = ["x", "y", "z", "1", "2", "42", "+", "*", "-", "(", ")", ",", "==", "<", ";", "p", "q"]


def gen_body(rng, params, names, allow_hash, n=None, depth=0):
    """token list of a replacement list / text line; parentheses balanced"""
    out = []
    n = rng.randrange(0, 6) if n is None else n
    for _ in range(n):
        k = rng.random()
        if params and k < 0.35:
            p = rng.choice(params)
            if allow_hash and rng.random() < 0.15:
                out += ["#", p]
            else:
                out.append(p)
        elif k < 0.55 and names:
            m = rng.choice(names)
            out.append(m[0])
            if m[1] is not None:
                if rng.random() < 0.85:
                    out.append("(")
                    nargs = m[1] if not m[2] else m[1] + rng.choice([-1, 0, 1, 2])
                    nargs = max(nargs, 0)
                    if rng.random() < 0.07:
                        nargs = max(0, nargs + rng.choice([-1, 1]))
                    for a in range(nargs):
                        if a:
                            out.append(",")
                        out += gen_body(rng, params, names if (rng.random() < 0.6 and depth < 2) else [], False, rng.randrange(0, 3) if rng.random() < 0.9 else 0, depth + 1)
                    out.append(")")
        elif k < 0.62 and allow_hash and len(out) > 0 and out[-1] not in ("(", ")", ",", "#", "##") :
            out.append("##")
            out.append(rng.choice(params + ["x", "1", "A"]) if params else rng.choice(["x", "1", "y2"]))
        else:
            t = rng.choice(PLAIN)
            if t in "(),":
                if t == "(" or t == ")":
                    out += ["(", rng.choice(["x", "1"]), ")"]
                elif rng.random() < 0.3:
                    out.append(",")
            else:
                out.append(t)
    return out


def gen_macro_source(rng, size, hashes=True):
    """(lines, nmacros)"""
    lines = []
    names = []      # (name, nparams|None, variadic)
    pool_obj = list(OBJ); pool_fun = list(FUN)
    rng.shuffle(pool_obj); rng.shuffle(pool_fun)
    for _ in range(size):
        k = rng.random()
        if k < 0.3 and pool_obj:
            nm = pool_obj.pop()
            names.append((nm, None, False))
            # bodies may mention macros defined later (and themselves)
            later = names + [(x, None, False) for x in pool_obj[:1]] + [(x, 1, False) for x in pool_fun[:1]]
            lines.append(["#define", nm] + gen_body(rng, [], later, hashes and rng.random() < 0.3))
        elif k < 0.6 and pool_fun:
            nm = pool_fun.pop()
            np_ = rng.choice([0, 1, 1, 2, 2, 3])
            var = rng.random() < 0.2
            params = ["a", "b", "c"][:np_]
            names.append((nm, np_ + (1 if var else 0), var))
            ptoks = []
            for i, p in enumerate(params):
                if i:
                    ptoks.append(",")
                ptoks.append(p)
            if var:
                if params:
                    ptoks.append(",")
                ptoks.append("...")
            bp = params + (["__VA_ARGS__"] if var else [])
            later = names + [(x, None, False) for x in pool_obj[:1]]
            lines.append(["#define", nm + "(" + " ".join(ptoks) + ")"] + gen_body(rng, bp, later, hashes))
        elif k < 0.67 and names:
            lines.append(["#undef", rng.choice(names)[0]])
        else:
            lines.append(gen_body(rng, [], names, False, rng.randrange(1, 6)))
    lines.append(gen_body(rng, [], names, False, rng.randrange(1, 6)))
    return lines


def fix_line(toks):
    """a text line never starts with `(` or `#` and never ends with a function-like macro name (invocations stay on one line)"""
    toks = list(toks)
    if toks and toks[0] in ("(", "#", "##") and not toks[0].startswith("#define"):
        toks = [";"] + toks
    return toks


def render(lines):
    out = []
    for l in lines:
        if l and l[0] in ("#define", "#undef"):
            out.append(" ".join(l))
        else:
            l = fix_line(l)
            out.append(" ".join(l + [";"]) if l else "")
    return "\n".join(out) + "\n"


# ---- sources with conditionals ----------------------------------------------------------------------------------------

def gen_cond_expr(rng, names):
    k = rng.random()
    m = rng.choice(names)
    if k < 0.25:
        return "defined(%s)" % m
    if k < 0.4:
        return "!defined(%s)" % m
    if k < 0.55:
        return "defined %s && %s" % (m, rng.choice(names))
    if k < 0.7:
        return "%s %s %d" % (m, rng.choice(["==", ">", "<", ">=", "!="]), rng.randrange(0, 3))
    if k < 0.8:
        return rng.choice(["0", "1", "2 - 2", "1 + 1"])
    if k < 0.9:
        return "defined(%s) || defined(%s)" % (m, rng.choice(names))
    return "%s + %s" % (m, rng.choice(names))


def gen_cond_lines(rng, names, budget, depth, ctr):
    lines = []
    n = rng.choice([1, 2, 2, 3])
    for _ in range(n):
        k = rng.random()
        if k < 0.35:
            lines.append("t%d %s ;" % (ctr[0], rng.choice(names)))
            ctr[0] += 1
        elif k < 0.5:
            m = rng.choice(names)
            lines.append("#define %s %s" % (m, rng.choice(["", "0", "1", "2", rng.choice(names)])))
        elif k < 0.57:
            lines.append("#undef %s" % rng.choice(names))
        elif budget[0] > 0 and depth < 4:
            budget[0] -= 1
            kind = rng.random()
            if kind < 0.3:
                lines.append("#ifdef %s" % rng.choice(names))
            elif kind < 0.5:
                lines.append("#ifndef %s" % rng.choice(names))
            else:
                lines.append("#if %s" % gen_cond_expr(rng, names))
            lines += gen_cond_lines(rng, names, budget, depth + 1, ctr)
            for _ in range(rng.choice([0, 0, 1, 1, 2])):
                lines.append("#elif %s" % gen_cond_expr(rng, names))
                lines += gen_cond_lines(rng, names, budget, depth + 1, ctr)
            if rng.random() < 0.5:
                lines.append("#else")
                lines += gen_cond_lines(rng, names, budget, depth + 1, ctr)
            lines.append("#endif")
    return lines


def gen_cond_source(rng, size):
    names = ["A", "B", "C", "DD"]
    ctr = [0]
    lines = gen_cond_lines(rng, names, [size], 0, ctr)
    lines.append("t%d end ;" % ctr[0])
    return "\n".join(lines) + "\n"


def gen_defs(rng, names=("A", "B", "C", "DD")):
    ds = []
    for m in names:
        if rng.random() < 0.35:
            ds.append(m + rng.choice(["", "=0", "=1", "=2", "=" + rng.choice(names)]))
    us = [m for m in names if rng.random() < 0.15]
    return ds, us


def run(ctx, res):
    raise core.CheckBroken("C11 check under construction")

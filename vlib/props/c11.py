"""C11 — preprocessing matches a conforming preprocessor (partial: level "other").

Obligations
  theorems   lean/Cppcheck/Props/C11.lean (evaluator of `#if` = C17 6.10.1 semantics on the agreement class, proved counterexamples
             for every class of deviation; macro replacement: termination with explicit measure, object-like = substitution,
             = hide-set reference; conditional inclusion = group semantics of 6.10.1; -D / -U)
  C-eval     real simplecpp `#if` evaluation (in-process, IfCond) == model `evaluate` on printed expression trees and on
             malformed token soups
  C-pp       real simplecpp::preprocess == model `runFile` on generated sources (macros, conditionals) and configurations
  C-dui      real Preprocessor::getcode (createDUI) == model `duiDefines` + `runFile`
  C-skel     lines kept by `runC` on the skeleton of each conditional source == lines kept by the model's directive loop == lines kept
             by the real simplecpp
  C-passes   real simplecpp::preprocess called repeatedly on ONE raw token list (one pass per define set, as cppcheck does per
             configuration) == model `runPasses` (every pass from scratch); P_impl: pass k == a pass over fresh raw tokens
  P-include  real Preprocessor (loadFiles + getcode, -I / --include) on generated directory trees == gcc -E (no model)
  spec       Lean specification `value` / model `runFile` == gcc -E -P -undef -nostdinc (second oracle, a sample in quick)
P_impl       on every generated well-defined input: branch taken / token stream of the real preprocessor == gcc's.
"""
import json, os, re, subprocess
from .. import core, build_repo

ID = "C11"
LEVEL = "other"
RULE = ("cases = (a) expression trees over decimal/octal/hex literals with u/L suffixes, defined(), identifiers, all unary/binary "
        "operators and ?: printed with the minimal parentheses of the C grammar, (b) malformed token soups, (c) sources with "
        "object-/function-like/variadic macros, #, ##, nested and recursive invocations, (d) sources with nested "
        "#if/#ifdef/#ifndef/#elif/#else/#endif, #define/#undef inside, under generated -D/-U sets; non-trivial = expression "
        "with >= 2 operators / source with >= 1 macro invocation or >= 2 conditionals; distinct = canonical op text")
EXPLANATION = ("Lean theorems about an executable copy of simplecpp's `#if` evaluator (token rewriting passes), a macro replacement "
               "algorithm with blue paint (termination by an explicit lexicographic measure), the ifstates machine of "
               "simplecpp::preprocess and createDUI's define list. The full statement 'evaluator = C17 6.10.1' is refuted by proved "
               "counterexamples (each replayed on the real code and recorded as known finding) and proved on the decidable agreement "
               "class. Macro::expand of simplecpp is not copied line by line: the replacement model is the standard's algorithm, "
               "tied to simplecpp and gcc -E by correspondence on the generated fragment; theorems about it: object-like (flat tables) and "
               "function-like (flat bodies, macro-free arguments) replacement = substitution. The directive loop of the model is proved to keep "
               "the lines the abstract ifstates machine keeps (runLines_included_eq_runC), which is proved equal to the group semantics. "
               "#include / -I / --include resolution has no model: the real Preprocessor on generated directory trees is compared with gcc -E "
               "(P_impl only). Outside the model: __has_include, pragmas, sizeof in #if, character/floating literals, alternative operator spellings, comments, "
               "placemarker corner cases of ##, function-like macro names that take their arguments from beyond the end of a "
               "replacement list.")
THEOREMS = ["Cppcheck.PPCond.ifeval_eq_spec_paren",
            "Cppcheck.PPCond.ifeval_counterexample_or_and", "Cppcheck.PPCond.ifeval_counterexample_eq_rel",
            "Cppcheck.PPCond.ifeval_counterexample_unary", "Cppcheck.PPCond.ifeval_counterexample_unsigned",
            "Cppcheck.PPCond.ifeval_counterexample_literal", "Cppcheck.PPCond.ifeval_counterexample_unevaluated",
            "Cppcheck.PPCond.ifeval_counterexample_chain", "Cppcheck.PPCond.ifeval_eq_spec_counterexample",
            "Cppcheck.PPMacro.expand", "Cppcheck.PPMacro.expand_terminates_rescan", "Cppcheck.PPMacro.expand_terminates_args",
            "Cppcheck.PPMacro.expand_terminates_wf", "Cppcheck.PPMacro.expand_object_macro_eq_subst",
            "Cppcheck.PPMacro.included_lines_eq_spec", "Cppcheck.PPMacro.included_lines_eq_spec_nested",
            "Cppcheck.PPMacro.runLines_included_eq_runC", "Cppcheck.PPMacro.runLines_included_lines_eq_spec",
            "Cppcheck.PPMacro.expand_function_macro_eq_subst",
            "Cppcheck.PPMacro.expand_function_macro_nested", "Cppcheck.PPMacro.expand_indirect_nesting",
            "Cppcheck.PPMacro.expand_indirect_nesting_inherit", "Cppcheck.PPMacro.expand_arg_inherit_counterexample",
            "Cppcheck.PPMacro.pass_independent_of_history", "Cppcheck.PPMacro.pass_same_dui_same_result",
            "Cppcheck.PPMacro.D_applied", "Cppcheck.PPMacro.U_applied", "Cppcheck.PPMacro.U_applied_counterexample"]
MODULES = ["Cppcheck.Props.C11"]

hx, unhx = core.hx, core.unhx

GCC = ["gcc", "-E", "-P", "-undef", "-nostdinc", "-x", "c", "-"]

UNOPS = ["!", "-", "+", "~"]
BINOPS = ["*", "/", "%", "+", "-", "<<", ">>", "==", "!=", ">", ">=", "<", "<=", "&", "^", "|", "&&", "||"]


# ---- python lexer (names / pp-numbers / punctuators) used to compare token streams with gcc ----------------------------

PUNCT3 = ["<<=", ">>=", "..."]
PUNCT2 = ["==", "!=", "<=", ">=", "&&", "||", "<<", ">>", "->", "::", "+=", "-=", "*=", "/=", "%=", "&=", "|=", "^=", "##", "++", "--"]


def pylex(s):
    out = []
    i = 0
    n = len(s)
    while i < n:
        c = s[i]
        if c.isspace():
            i += 1
            continue
        if c.isalnum() or c in "_$":
            j = i
            while j < n and (s[j].isalnum() or s[j] in "_$"):
                j += 1
            out.append(s[i:j]); i = j
            continue
        if c == '"':
            j = i + 1
            while j < n and s[j] != '"':
                j += 2 if s[j] == "\\" else 1
            out.append(s[i:j + 1]); i = j + 1
            continue
        if s[i:i + 3] in PUNCT3:
            out.append(s[i:i + 3]); i += 3
            continue
        if s[i:i + 2] in PUNCT2:
            out.append(s[i:i + 2]); i += 2
            continue
        out.append(c); i += 1
    return out


def gcc_pp(src, defs=(), undefs=()):
    """(tokens | None, stderr): None when gcc reports an error or a warning"""
    args = list(GCC)
    for d in defs:
        args.insert(-3, "-D" + d)
    for u in undefs:
        args.insert(-3, "-U" + u)
    r = subprocess.run(args, input=src, stdout=subprocess.PIPE, stderr=subprocess.PIPE, text=True)
    err = "\n".join(l for l in r.stderr.split("\n") if l.strip() and not re.search(r'warning: "\w+" redefined|note: this is the location of the previous definition', l))
    if r.returncode != 0 or err.strip():
        return None, r.stderr
    return pylex(r.stdout), ""


ALLNAMES = ["A", "B", "C", "D", "E", "DD", "f", "g", "h", "k"]


def gcc_batch(cases):
    """one gcc process for many (src, defs, undefs): per case the token list, or None when gcc reports an error / a warning
    other than a redefinition for it.  -D / -U are written as #define / #undef lines in front of the case."""
    lines = []
    start = []
    for k, (src, defs, undefs) in enumerate(cases):
        start.append(len(lines) + 1)
        lines.append("__CASE_%d__" % k)
        for n in ALLNAMES:
            lines.append("#undef " + n)
        for d in defs:
            nm, eq, val = d.partition("=")
            lines.append("#define %s %s" % (nm, val if eq else "1"))
        for u in undefs:
            lines.append("#undef " + u)
        lines += src.split("\n")
    start.append(len(lines) + 1)
    r = subprocess.run(GCC, input="\n".join(lines) + "\n", stdout=subprocess.PIPE, stderr=subprocess.PIPE, text=True)
    import bisect
    bad = {}
    for l in r.stderr.split("\n"):
        m = re.match(r"<stdin>:(\d+):(?:\d+:)? (error|warning): (.*)", l)
        if m and not re.search(r'"\w+" redefined', m.group(3)):
            k = bisect.bisect_right(start, int(m.group(1))) - 1
            bad.setdefault(k, m.group(3))
    out = [None] * len(cases)
    cur = None
    for t in pylex(r.stdout):
        m = re.fullmatch(r"__CASE_(\d+)__", t)
        if m:
            cur = int(m.group(1)); out[cur] = []
        elif cur is not None:
            out[cur].append(t)
    return [(None if k in bad else out[k], bad.get(k, "")) for k in range(len(cases))]


# ---- expression trees -------------------------------------------------------------------------------------------------

def gen_lit(rng, plain):
    if plain or rng.random() < 0.7:
        n = rng.choice([0, 0, 1, 1, 2, 3, 4, 5, 7, 8, 10, 63, 64, 100, 255, 2 ** 31 - 1, 2 ** 31, 2 ** 32, 2 ** 63 - 1]) if rng.random() < 0.9 else rng.randrange(2 ** 63)
        return "l10.%d.0.0" % n
    r = rng.random()
    if r < 0.3:
        return "l16.%d.%d.0" % (rng.choice([0, 1, 15, 16, 255, 2 ** 63, 2 ** 64 - 1]), rng.choice([0, 0, 1]))
    if r < 0.5:
        return "l8.%d.0.0" % rng.choice([0, 1, 7, 8, 64])
    return "l10.%d.%d.%d" % (rng.choice([0, 1, 2, 5, 2 ** 32]), rng.choice([0, 1, 1]), rng.choice([0, 0, 1, 2]))


def gen_expr(rng, d, plain=False, ops=None):
    k = rng.random()
    if d <= 0 or k < 0.3:
        r = rng.random()
        if r < 0.85:
            return gen_lit(rng, plain)
        if r < 0.95:
            return ("D" if rng.random() < .5 else "P") + hx(rng.choice(["A", "B", "C"]))
        return "I" + hx(rng.choice(["X", "Y"]))
    if k < 0.42:
        return "u%d(%s)" % (rng.randrange(4), gen_expr(rng, d - 1, plain, ops))
    if k < 0.93:
        o = rng.choice(ops) if ops else rng.randrange(18)
        return "b%d(%s,%s)" % (o, gen_expr(rng, d - 1, plain, ops), gen_expr(rng, d - 1, plain, ops))
    return "c(%s,%s,%s)" % (gen_expr(rng, d - 1, plain, ops), gen_expr(rng, d - 1, plain, ops), gen_expr(rng, d - 1, plain, ops))


def gen_soup(rng):
    toks = ["0", "1", "2", "10", "(", ")", "(", ")", "+", "-", "*", "/", "!", "~", "?", ":", "<", "==", "&&", "||", "X", "defined", "A", "B", "<<", "%", ","]
    return " ".join(rng.choice(toks) for _ in range(rng.randrange(1, 9)))


# ---- sources with macros ------------------------------------------------------------------------------------------------

OBJ = ["A", "B", "C", "D", "E"]
FUN = ["f", "g", "h", "k"]
PLAIN = ["x", "y", "z", "1", "2", "42", "+", "*", "-", "(", ")", ",", "==", "<", ";", "p", "q"]


def gen_body(rng, params, names, allow_hash, n=None, depth=0):
    """token list of a replacement list / text line; parentheses balanced"""
    out = []
    n = rng.randrange(0, 6) if n is None else n
    for _ in range(n):
        k = rng.random()
        if params and k < 0.35 and not (out and out[-1] in FUN):    # `k a` with a function-like k and a parameter a: F11m
            p = rng.choice(params)
            if allow_hash and rng.random() < 0.15:
                out += ["#", p]
            else:
                out.append(p)
        elif k < 0.55 and names:
            m = rng.choice(names)
            out.append(m[0])
            if m[1] is not None:
                # a function-like macro name is always followed by its argument list: bare names (unspecified / deviating
                # rescans: F11k, F11m and relatives) are exercised by the corpus witnesses only
                if True:
                    out.append("(")
                    nargs = m[1] if not m[2] else m[1] + rng.choice([-1, 0, 1, 2])
                    nargs = max(nargs, 0)
                    if rng.random() < 0.07 and m[1] > 0:      # wrong argument counts (an argument for a macro without parameters
                        nargs = max(1, nargs + rng.choice([-1, 1]))   # is accepted by simplecpp and differs in recovery: not generated)
                    for a in range(nargs):
                        if a:
                            out.append(",")
                        arg = gen_body(rng, params, names if (rng.random() < 0.6 and depth < 2) else [], False, rng.randrange(0, 3) if rng.random() < 0.9 else 0, depth + 1)
                        if arg and arg[-1] == "__VA_ARGS__":
                            arg.append("x")     # `, __VA_ARGS__ )` inside an invocation of a function-like macro: the comma elision F11i does not apply there
                        out += arg
                    out.append(")")
        elif k < 0.62 and allow_hash and len(out) > 0 and out[-1] not in ("(", ")", ",", "#", "##") :
            out.append("##")
            out.append(rng.choice(params + ["x", "1", "A"]) if params else rng.choice(["x", "1", "y2"]))
        else:
            t = rng.choice(PLAIN)
            if t in "(),":
                if t == "(" or t == ")":
                    out += ["(", rng.choice(["x", "1"]), ")"]
                elif rng.random() < 0.3:
                    out.append(",")
            else:
                out.append(t)
    return out


def gen_macro_source(rng, size, hashes=True):
    """(lines, nmacros)"""
    lines = []
    names = []      # (name, nparams|None, variadic)
    pool_obj = list(OBJ); pool_fun = list(FUN)
    rng.shuffle(pool_obj); rng.shuffle(pool_fun)
    for _ in range(size):
        k = rng.random()
        if k < 0.3 and pool_obj:
            nm = pool_obj.pop()
            names.append((nm, None, False))
            # bodies may mention macros defined later (and themselves)
            later = names + [(x, None, False) for x in pool_obj[:1]] + [(x, 1, False) for x in pool_fun[:1]]
            lines.append(["#define", nm] + gen_body(rng, [], later, hashes and rng.random() < 0.3))
        elif k < 0.6 and pool_fun:
            nm = pool_fun.pop()
            np_ = rng.choice([0, 1, 1, 2, 2, 3])
            var = rng.random() < 0.2
            params = ["a", "b", "c"][:np_]
            names.append((nm, np_ + (1 if var else 0), var))
            ptoks = []
            for i, p in enumerate(params):
                if i:
                    ptoks.append(",")
                ptoks.append(p)
            if var:
                if params:
                    ptoks.append(",")
                ptoks.append("...")
            bp = params + (["__VA_ARGS__"] if var else [])
            later = names + [(x, None, False) for x in pool_obj[:1]]
            lines.append(["#define", nm + "(" + " ".join(ptoks) + ")"] + gen_body(rng, bp, later, hashes))
        elif k < 0.67 and names:
            lines.append(["#undef", rng.choice(names)[0]])
        else:
            lines.append(gen_body(rng, [], names, False, rng.randrange(1, 6)))
    lines.append(gen_body(rng, [], names, False, rng.randrange(1, 6)))
    return lines


NESTED_MACROS = [
    ("INC", ["x"], "( ( x ) + 1 )"), ("DBL", ["y"], "( ( y ) * 2 )"), ("NEG", ["z"], "( - ( z ) )"),
    ("MAX", ["a", "b"], "( ( a ) > ( b ) ? ( a ) : ( b ) )"), ("ABS", ["v"], "( ( v ) < 0 ? - ( v ) : ( v ) )"),
    ("ADD", ["p", "q"], "( ( p ) + ( q ) )"), ("TWICE", ["w"], "( w + w )"),
]


def gen_nested_call(rng, macros, depth, objs):
    """a nested invocation: depth levels of function-like macros in argument position (F(G(F(x))), F(G(H(F(x)))), ...)"""
    if depth == 0:
        r = rng.random()
        if objs and r < 0.3:
            return [rng.choice(objs)]
        return [rng.choice(["3", "7", "n", "k", "1"])]
    nm, ps, body = rng.choice(macros)
    out = [nm, "("]
    deep = rng.randrange(len(ps))
    for i, p in enumerate(ps):
        if i:
            out.append(",")
        out += gen_nested_call(rng, macros, depth - 1 if i == deep else rng.choice([0, 0, max(0, depth - 2)]), objs)
    out.append(")")
    return out


def gen_nested_source(rng):
    macros = rng.sample(NESTED_MACROS, rng.choice([2, 2, 3]))
    lines = ["#define %s(%s) %s" % (nm, " , ".join(ps), body) for nm, ps, body in macros]
    objs = []
    if rng.random() < 0.5:
        lines.append("#define N %d" % rng.randrange(2, 9)); objs.append("N")
    if rng.random() < 0.3:
        lines.append("#define M %s ( N )" % macros[0][0] if objs else "#define M 5"); objs.append("M")
    # always one indirect pattern F ( G ( F ( x ) ) ) with F != G (every level must be replaced), then random nestings
    f, g = macros[0], macros[1]
    def one(m, inner):
        nm, ps, body = m
        pos = rng.randrange(len(ps))
        out = [nm, "("]
        for i in range(len(ps)):
            if i:
                out.append(",")
            out += inner if i == pos else [rng.choice(["1", "2", "n"])]
        return out + [")"]
    lines.append("int j = %s ;" % " ".join(one(f, one(g, one(f, [rng.choice(["3", "k"])])))))
    for k in range(rng.choice([1, 2, 3])):
        lines.append("int i%d = %s ;" % (k, " ".join(gen_nested_call(rng, macros, rng.choice([2, 3, 3, 4]), objs))))
    return "\n".join(lines) + "\n"


def fix_line(toks):
    """a text line never starts with `(` or `#` and never ends with a function-like macro name (invocations stay on one line)"""
    toks = list(toks)
    if toks and toks[0] in ("(", "#", "##") and not toks[0].startswith("#define"):
        toks = [";"] + toks
    return toks


def render(lines):
    out = []
    for l in lines:
        if l and l[0] in ("#define", "#undef"):
            out.append(" ".join(l))
        else:
            l = fix_line(l)
            out.append(" ".join(l + [";"]) if l else "")
    return "\n".join(out) + "\n"


# ---- sources with conditionals ----------------------------------------------------------------------------------------

def gen_cond_expr(rng, names):
    k = rng.random()
    m = rng.choice(names)
    if k < 0.25:
        return "defined(%s)" % m
    if k < 0.4:
        return "!defined(%s)" % m
    if k < 0.55:
        return "defined %s && %s" % (m, rng.choice(names))
    if k < 0.7:
        return "%s %s %d" % (m, rng.choice(["==", ">", "<", ">=", "!="]), rng.randrange(0, 3))
    if k < 0.8:
        return rng.choice(["0", "1", "2 - 2", "1 + 1"])
    if k < 0.9:
        return "defined(%s) || defined(%s)" % (m, rng.choice(names))
    return "%s + %s" % (m, rng.choice(names))


def gen_cond_lines(rng, names, budget, depth, ctr):
    lines = []
    n = rng.choice([1, 2, 2, 3])
    for _ in range(n):
        k = rng.random()
        if k < 0.35:
            lines.append("t%d %s ;" % (ctr[0], rng.choice(names)))
            ctr[0] += 1
        elif k < 0.5:
            m = rng.choice(names)
            lines.append("#define %s %s" % (m, rng.choice(["", "0", "1", "2", rng.choice(names)])))
        elif k < 0.57:
            lines.append("#undef %s" % rng.choice(names))
        elif budget[0] > 0 and depth < 4:
            budget[0] -= 1
            kind = rng.random()
            if kind < 0.3:
                lines.append("#ifdef %s" % rng.choice(names))
            elif kind < 0.5:
                lines.append("#ifndef %s" % rng.choice(names))
            else:
                lines.append("#if %s" % gen_cond_expr(rng, names))
            lines += gen_cond_lines(rng, names, budget, depth + 1, ctr)
            for _ in range(rng.choice([0, 0, 1, 1, 2])):
                lines.append("#elif %s" % gen_cond_expr(rng, names))
                lines += gen_cond_lines(rng, names, budget, depth + 1, ctr)
            if rng.random() < 0.5:
                lines.append("#else")
                lines += gen_cond_lines(rng, names, budget, depth + 1, ctr)
            lines.append("#endif")
    return lines


def gen_cond_source(rng, size):
    names = ["A", "B", "C", "DD"]
    ctr = [0]
    lines = gen_cond_lines(rng, names, [size], 0, ctr)
    lines.append("t%d end ;" % ctr[0])
    return "\n".join(lines) + "\n"


def gen_defs(rng, names=("A", "B", "C", "DD")):
    ds = []
    for m in names:
        if rng.random() < 0.35:
            ds.append(m + rng.choice(["", "=0", "=1", "=2", "=" + rng.choice(names)]))
    us = [m for m in names if rng.random() < 0.15]
    return ds, us



# ---- known findings ----------------------------------------------------------------------------------------------------

KEYS = {
    "if-unevaluated": "F11f `#if`: operands that C does not evaluate (right of `0 &&`, `1 ||`, unselected arm of `?:`) are folded: division by zero there is an error / wrong value",
    "if-unsigned": "F11d `#if`: no uintmax_t arithmetic (everything is long long; 0xffffffffffffffff is clamped to LLONG_MAX, `-1 < 0u` is true)",
    "if-literal": "F11e `#if`: literal spellings (`!00`, `-010`, `0L ? :`, `-0X10`) are compared / negated as strings",
    "if-unary": "F11c `#if`: a unary operator applied to a unary expression or unary minus of a non-positive value (`!!1`, `- -1`, `-(-1)`, `-0 ? :`) is not folded: the condition is 0",
    "if-mix": "F11a/b `#if`: `||` and `&&` (and `==`/`!=` and relational operators) are folded in one left-to-right pass (`1 || 0 && 0` is 0, `2 == 1 < 1` is 1)",
    "if-chain": "F11g `#if`: `a ? b : c ? d : e` with a != 0 continues with `b ? d : e`",
    "va-args-comma-elision": "F11i a `,` before an empty `__VA_ARGS__` followed by `)` is dropped without `##`",
    "stringify-space-after-combined-operator": "F11j `#x` drops the space after an operator token made of two characters (`a == b` gives \"a ==b\")",
    "paste-operand-not-rescanned": "F11l the tokens of a multi-token macro argument next to `##` that are not pasted are not macro replaced afterwards (`#define h(a) x ## a`, `h(y D)` keeps `D`)",
    "macro-name-before-parameter-drops-rest": "F11m in a replacement list `k a` (function-like macro k, parameter a): when the argument starts with a parenthesised list the invocation `k ( .. )` is made and the rest of the argument is dropped (`#define f(a) a k a`, `f((x) 42)` loses the second 42)",
    "self-named-macro-reexpanded": "F11k a function-like macro whose replacement list ends with its own name is expanded again when `(` follows (`#define f(x) f`: `f(1)(2)` gives `f`; inside another replacement list also for longer lists)",
}


CODE_Q = ["1101"]      # quirk flags of the code (Quirks.code); elifEval is off since /repo commit 8474bf0

ELIF_ORIG = "if (ifstates.top() == AlwaysFalse || (ifstates.top() == ElseIsTrue && rawtok->str() != ELIF)) {"
ELIF_FIXED = ("if (ifstates.top() == AlwaysFalse || (ifstates.top() == ElseIsTrue && rawtok->str() != ELIF) || "
              "(ifstates.top() == True && rawtok->str() == ELIF)) {")


def detect_variant(res):
    """T: the condition that guards the evaluation of #if/#elif in simplecpp::preprocess must be the one of commit 8474bf0
    (Quirks.elifEval off is the only model of record).  Fail closed."""
    src = open(os.path.join(core.REPO, "externals", "simplecpp", "simplecpp.cpp"), encoding="utf-8", errors="replace").read()
    src = re.sub(r"//[^\n]*", " ", src)
    m = re.search(r"bool conditionIsTrue;\s*(if \(.*?\) \{)\s*conditionIsTrue = false;", src, re.S)
    txt = re.sub(r"\s+", " ", m.group(1)) if m else None
    if txt == ELIF_FIXED:
        res.oblig("T:elif-guard-shape", True, "translation", "")
    elif txt == ELIF_ORIG:
        # the guard of before commit 8474bf0: the model of record (elifEval off) does not describe this code
        res.oblig("T:elif-guard-shape", False, "translation", "the #if/#elif guard is the one of before commit 8474bf0 (F11h): `#elif` is evaluated after a taken group")
    else:
        res.oblig("T:elif-guard-shape", False, "translation", "unrecognised guard of the #if/#elif evaluation: %r" % (txt,))
    res.extra["quirks_of_model"] = CODE_Q[0]


def quirk_keys():
    names = ["va-args-comma-elision", "stringify-space-after-combined-operator", "elif-after-taken-group-evaluated", "paste-operand-not-rescanned"]
    out = []
    for i, n in enumerate(names):
        if CODE_Q[0][i] == "1":
            out.append((CODE_Q[0][:i] + "0" + CODE_Q[0][i + 1:], n))
    return out


def load_corpus():
    p = os.path.join(core.VERIF, "corpus", "C11", "cases.json")
    return json.load(open(p)) if os.path.exists(p) else []


_reported = {}


def report(res, what, replay, key):
    n = _reported.get(key, 0)
    _reported[key] = n + 1
    if n < (2 if key else 8):
        res.violation(what, replay, concrete=True, key=key)


def lst(l):
    return ",".join(hx(x) for x in l) or "-"


# ---- `#if` evaluator tie -------------------------------------------------------------------------------------------

EV_DEFS = ["A=1", "B=0"]


def canon_ev(l):
    return "E other" if l.startswith("E other") else l


def parse_spec_line(m):
    p = m.split()
    text = unhx(p[0]).decode("latin-1")
    if p[1] == "S":
        return text, int(p[2]), p[3] == "1", p[4], " ".join(p[5:])
    return text, None, None, p[2], " ".join(p[3:])


def gcc_branches(texts, defs):
    """one gcc run over all conditions; per text: True/False (branch) or None (gcc: error / overflow / out of range literal)"""
    src = "".join("#if %s\nT%d\n#else\nF%d\n#endif\n" % (t, i, i) for i, t in enumerate(texts))
    args = list(GCC)
    for d in defs:
        args.insert(-3, "-D" + d)
    r = subprocess.run(args, input=src, stdout=subprocess.PIPE, stderr=subprocess.PIPE, text=True)
    bad = set()
    for l in r.stderr.split("\n"):
        m = re.match(r"<stdin>:(\d+):(?:\d+:)? (error|warning): (.*)", l)
        if not m:
            continue
        if m.group(2) == "error" or re.search(r"overflow|too large|so large|invalid suffix", m.group(3)):
            bad.add((int(m.group(1)) - 1) // 5)
    out = [None] * len(texts)
    for t in pylex(r.stdout):
        if t[0] in "TF" and t[1:].isdigit():
            k = int(t[1:])
            if k < len(out) and k not in bad:
                out[k] = (t[0] == "T")
    return out


def ev_tie(ctx, res, exe, drv, asts, name, gcc_n, op="spec"):
    ops = ["%s %s %s" % (op, lst(EV_DEFS), a) for a in asts]
    rc, mo, err = core.run_lines(drv, [], ops, timeout=900)
    if len(mo) != len(ops):
        raise core.CheckBroken("drv_c11 produced %d lines for %d ops: %s" % (len(mo), len(ops), err[-300:]))
    parsed = [parse_spec_line(m) for m in mo]
    eops = ["ev %s %s" % (lst(EV_DEFS), hx(p[0])) for p in parsed]
    rc, io, err = core.run_lines(exe, [], eops, timeout=900)
    if len(io) != len(eops):
        raise core.CheckBroken("c11 harness produced %d lines for %d ops: %s" % (len(io), len(eops), err[-300:]))
    io = [canon_ev(x) for x in io]
    core.correspond(ctx, res, name, eops, io, [p[4] for p in parsed],
                    nontrivial=lambda op, out: len(re.findall(r"[-+*/%<>=!&|^~?]+", unhx(op.split()[2]).decode("latin-1"))) >= 2)
    # P_impl: the branch the implementation takes == the branch the C semantics takes
    for a, (text, sv, su, cls, mv), iv in zip(asts, parsed, io):
        res.count("ev-class:" + cls)
        if sv is None:
            res.count("ev-spec-undefined")
            continue
        ib = None if iv.startswith("E") else (int(iv.split()[1]) != 0)
        if ib != (sv != 0):
            key = None if cls == "agree" else "if-" + cls
            res.count("ev-deviation:" + str(key))
            report(res, "`#if %s`: simplecpp %s, C17 6.10.1 value %d%s" % (text, ("evaluates to " + iv.split()[1]) if ib is not None else "fails: " + iv, sv, "u" if su else ""),
                   dict(kind="ev", ast=a, text=text, defs=EV_DEFS, impl=iv, spec=sv, classified=key), key)
    # the specification against gcc
    idx = list(range(len(asts)))
    ctx.rng.shuffle(idx)
    idx = idx[:gcc_n]
    gb = gcc_branches([parsed[i][0] for i in idx], EV_DEFS)
    bad = []
    for i, g in zip(idx, gb):
        sv = parsed[i][1]
        if sv is not None:
            res.count("spec-vs-gcc")
            if g is None or g != (sv != 0):
                bad.append("%s: spec %s gcc %s" % (parsed[i][0], sv, g))
    res.oblig("spec:%s-vs-gcc" % name, not bad, "correspondence", "" if not bad else "%d differ; first: %s" % (len(bad), bad[0]))
    return parsed, io


# ---- preprocess tie ------------------------------------------------------------------------------------------------------

def canon_pp(l):
    """canonical form of a harness `pp` / `cd` line (error messages -> classes of the model)"""
    p = l.split(" ")
    if p[0] != "E" or len(p) < 2:
        return l
    typ, _, h = p[1].partition(":")
    msg = unhx(h).decode("latin-1") if h and re.fullmatch(r"[0-9a-f]+|-", h) else h
    if typ == "error":
        return "E error"
    if typ == "syntax":
        if "Wrong number of parameters" in msg:
            return "E syntax:wrongargs"
        if "failed to evaluate" in msg:
            for k, c in (("division/modulo by zero", "div0"), ("division overflow", "divov"), ("invalid expression", "invalid"), ("undefined function-like macro", "fnmacro")):
                if k in msg:
                    return "E syntax:cond:" + c
            return "E syntax:cond:other"
        if "without #if" in msg:
            return "E syntax:noif"
        if "Failed to parse #define" in msg:
            return "E syntax:define"
        if "Syntax error in #" in msg:
            return "E syntax:if"
        if "Invalid ## usage" in msg:
            return "X hashhash"
        return "E syntax:?" + msg
    return "E " + typ + ":" + msg


def toks_of(l):
    p = l.split(" ")
    return pylex(unhx(p[1]).decode("latin-1")) if p[0] == "T" else None


def fn_before_param(src):
    """F11m class: in a replacement list a function-like macro name is directly followed by a parameter"""
    defs = re.findall(r"^#define (\w+)\(([^)]*)\)(.*)$", src, re.M)
    fns = set(d[0] for d in defs)
    for nm, ps, body in defs:
        params = set(re.findall(r"\w+", ps)) | ({"__VA_ARGS__"} if "..." in ps else set())
        toks = pylex(body)
        for a, b in zip(toks, toks[1:]):
            if a in fns and b in params:
                return True
    return False


def self_named(src):
    """F11k class: a function-like macro whose replacement list ends with its own name"""
    return re.search(r"^#define (\w+)\([^)]*\) (?:.* )?\1\s*$", src, re.M) is not None


def undef_defined_in_file(src, undefs):
    return any(re.search(r"^#define %s\b" % re.escape(u), src, re.M) for u in undefs)


def pp_tie(ctx, res, exe, drv, cases, name, gcc_n):
    """cases: list of (src, defs, undefs)"""
    ops = ["pp %s %s %s %s" % (CODE_Q[0], lst(d), lst(u), hx(s)) for s, d, u in cases]
    rc, io, err = core.run_lines(exe, [], ops, timeout=900)
    rc2, mo, err2 = core.run_lines(drv, [], ops, timeout=900)
    if len(io) != len(ops) or len(mo) != len(ops):
        raise core.CheckBroken("C11 pp: %d ops, harness %d lines, driver %d lines: %s %s" % (len(ops), len(io), len(mo), err[-300:], err2[-300:]))
    io = [canon_pp(x) for x in io]
    # outside the fragment (model says X): not compared
    keep = [k for k in range(len(ops)) if not mo[k].startswith("X") and not io[k].startswith("X")]
    for k in range(len(ops)):
        if k not in set(keep):
            res.count("pp-outside-fragment:" + (mo[k] if mo[k].startswith("X") else io[k]))
    # self-named single token macros: known finding F11k, the model follows the standard
    known_k = set()
    for k in keep:
        if io[k] != mo[k] and (self_named(cases[k][0]) or fn_before_param(cases[k][0])):
            known_k.add(k)
    keep2 = [k for k in keep if k not in known_k]
    core.correspond(ctx, res, name, [ops[k] for k in keep2], [io[k] for k in keep2], [mo[k] for k in keep2],
                    nontrivial=lambda op, out: True)
    # P_impl against gcc (one gcc process for the sample)
    idx = [k for k in keep if not undef_defined_in_file(cases[k][0], cases[k][2])]
    res.count("pp-skip:-U-name-defined-in-file", len(ops) - len(idx))
    ctx.rng.shuffle(idx)
    idx = idx[:gcc_n]
    gres = gcc_batch([cases[k] for k in idx])
    dev = []
    for k, (g, gerr) in zip(idx, gres):
        if g is None:
            res.count("pp-gcc-rejects")
            continue
        res.count("pp-vs-gcc")
        if toks_of(io[k]) != g:
            dev.append((k, g))
    # classify: which single deviation of the model explains the difference?
    QUIRK_KEYS = quirk_keys()
    qops = ["pp %s %s %s %s" % (q, lst(cases[k][1]), lst(cases[k][2]), hx(cases[k][0])) for k, g in dev for q, kk in QUIRK_KEYS]
    qout = core.run_lines(drv, [], qops, timeout=600)[1] if qops else []
    for n, (k, g) in enumerate(dev):
        src, d, u = cases[k]
        key = None
        if self_named(src):
            key = "self-named-macro-reexpanded"
        elif fn_before_param(src) and toks_of(mo[k]) == g:
            key = "macro-name-before-parameter-drops-rest"
        elif mo[k] == io[k]:
            for j, (q, kk) in enumerate(QUIRK_KEYS):
                if toks_of(qout[n * len(QUIRK_KEYS) + j]) == g:
                    key = kk
                    break
        it = toks_of(io[k])
        res.count("pp-deviation:" + str(key))
        report(res, "simplecpp and gcc -E disagree on\n%s  simplecpp: %s\n  gcc      : %s" % (src, " ".join(it) if it is not None else io[k], " ".join(g)),
               dict(kind="pp", src=src, defs=d, undefs=u, impl=io[k], gcc=" ".join(g), classified=key), key)
    return io, mo


def spec_pp_vs_gcc(ctx, res, drv, cases, name):
    """the model without the deviations (Quirks.std) == gcc -E on the same sources"""
    cases = [c for c in cases if not undef_defined_in_file(c[0], c[2])]
    gres = gcc_batch(cases)
    mo = core.run_lines(drv, [], ["pp 0000 %s %s %s" % (lst(d), lst(u), hx(src)) for src, d, u in cases], timeout=600)[1]
    bad = []
    n = 0
    for (src, d, u), (g, gerr), m in zip(cases, gres, mo):
        if m.startswith("X"):
            continue
        n += 1
        mt = toks_of(m)
        if g is None:
            res.count("spec-pp-gcc-rejects")      # ill-formed for gcc (the model is no validator of the input)
        elif mt != g:
            bad.append("%r: model(std) %s gcc %s" % (src, m if mt is None else " ".join(mt), " ".join(g)))
    res.count("spec-pp-vs-gcc", n)
    res.oblig("spec:%s-vs-gcc" % name, not bad, "correspondence", "" if not bad else "%d differ; first: %s" % (len(bad), bad[0]))


# ---- M1 (audit): the directive loop against the abstract inclusion machine ------------------------------------------------

def sk_tie(ctx, res, drv, cases, io):
    """for every conditional source: lines kept by `runC` on the skeleton of the run == lines kept by the model's directive loop
    (theorem runLines_kept_eq_runC, executed) == lines the real simplecpp kept (the generated text lines start with t<k>)"""
    ops = ["sk %s %s %s %s" % (CODE_Q[0], lst(d), lst(u), hx(s)) for s, d, u in cases]
    mo = core.run_lines(drv, [], ops, timeout=600)[1]
    bad = []
    n = 0
    for (src, d, u), m, o in zip(cases, mo, io):
        mm = re.match(r"^K (.*) \| (.*)$", m)
        it = toks_of(o)
        if not mm or it is None:
            continue
        n += 1
        a, b = mm.group(1).split(), mm.group(2).split()
        lines = src.split("\n")
        kept_impl = [str(i) for i, l in enumerate(lines) if re.match(r"t\d+ ", l) and l.split()[0] in it]
        text_b = [x for x in b if re.match(r"t\d+ ", lines[int(x)])]
        if a != b or text_b != kept_impl:
            bad.append("%r: runC %s, directive loop %s, simplecpp %s" % (src, a, b, kept_impl))
    res.count("skeleton-cases", n)
    res.oblig("correspondence:runC-skeleton=directive-loop=simplecpp", not bad and n > 0, "correspondence",
              "" if not bad and n > 0 else "%d of %d differ; first: %s" % (len(bad), n, bad[0] if bad else "no case"))


# ---- repeated passes over one raw token list (cppcheck: one simplecpp::preprocess per configuration) ------------------------

def canon_mp(l, impl):
    """per pass canonical result of an `mp` line"""
    p = l.split(" ")
    if p[0] != "M":
        return [l]
    out = []
    for r in p[1:]:
        if r.startswith("T"):
            out.append("T " + r[1:])
        elif impl:
            out.append(canon_pp("E " + r[1:]))
        else:
            out.append(re.sub(r"^(E|X)", r"\1 ", r, 1))
    return out


def gen_chain_source(rng):
    """an if-section with #elif groups over macros whose -D values change from pass to pass"""
    names = ["A", "B", "C", "DD"]
    lines = []
    ctr = [0]
    for _ in range(rng.randrange(1, 4)):
        m = rng.choice(names)
        kind = rng.random()
        vals = rng.sample([0, 1, 2, 3], 3)
        if kind < 0.5:
            conds = ["%s == %d" % (m, v) for v in vals]
        elif kind < 0.8:
            ms = rng.sample(names, 3)
            conds = ["defined(%s)" % x for x in ms]
        else:
            conds = ["%s > %d" % (m, v) for v in vals]
        lines.append("#if " + conds[0])
        lines.append("t%d g0 ;" % ctr[0]); ctr[0] += 1
        for j in range(1, rng.choice([2, 3, 3])):
            lines.append("#elif " + conds[j])
            if rng.random() < 0.3:
                lines.append("#ifdef %s" % rng.choice(names))
                lines.append("t%d nested ;" % ctr[0]); ctr[0] += 1
                lines.append("#endif")
            lines.append("t%d g%d ;" % (ctr[0], j)); ctr[0] += 1
        if rng.random() < 0.7:
            lines.append("#else")
            lines.append("t%d other ;" % ctr[0]); ctr[0] += 1
        lines.append("#endif")
        lines.append("t%d between ;" % ctr[0]); ctr[0] += 1
    return "\n".join(lines) + "\n"


def gen_pass_defs(rng):
    ds = []
    for m in ["A", "B", "C", "DD"]:
        if rng.random() < 0.5:
            ds.append("%s=%d" % (m, rng.randrange(0, 4)))
    return ds


def mp_tie(ctx, res, exe, drv, n):
    """P_impl: pass k over the SAME raw tokens == a pass over fresh raw tokens with the same dui (no memory across passes);
    correspondence: every pass == model `runPasses` (each pass from scratch)"""
    rng = ctx.rng
    cases = []
    for i in range(n):
        src = gen_chain_source(rng) if rng.random() < 0.7 else gen_cond_source(rng, rng.choice([2, 3, 5]))
        passes = [gen_pass_defs(rng) for _ in range(rng.choice([2, 3, 4, 5]))]
        cases.append((src, passes))
    ops = ["mp %s %s %s" % (CODE_Q[0], hx(s), " ".join(lst(d) for d in ps)) for s, ps in cases]
    io = core.run_lines(exe, [], ops, timeout=600)[1]
    mo = core.run_lines(drv, [], ops, timeout=600)[1]
    if len(io) != len(ops) or len(mo) != len(ops):
        raise core.CheckBroken("C11 mp: %d ops, harness %d lines, driver %d lines" % (len(ops), len(io), len(mo)))
    fresh_ops = ["pp %s %s - %s" % (CODE_Q[0], lst(d), hx(s)) for s, ps in cases for d in ps]
    fo = [canon_pp(x) for x in core.run_lines(exe, [], fresh_ops, timeout=600)[1]]
    cio, cmo = [], []
    j = 0
    for (src, ps), i, m in zip(cases, io, mo):
        ci, cm = canon_mp(i, True), canon_mp(m, False)
        cio.append(" | ".join(ci)); cmo.append(" | ".join(cm))
        for k, d in enumerate(ps):
            f = fo[j]; j += 1
            res.count("repeated-passes")
            if k < len(ci) and ci[k] != f:
                a, b = toks_of(ci[k]), toks_of(f)
                report(res, "pass %d of simplecpp::preprocess over the same raw token list differs from a pass over fresh raw tokens with the same defines %s "
                            "(earlier passes: %s)\n%s  pass %d on reused raw tokens: %s\n  pass on fresh raw tokens   : %s" %
                       (k + 1, d, ps[:k], src, k + 1, " ".join(a) if a is not None else ci[k], " ".join(b) if b is not None else f),
                       dict(kind="mp", src=src, passes=ps, pass_index=k), None)
    core.correspond(ctx, res, "preprocess-repeated-passes", ops, cio, cmo, nontrivial=lambda op, out: True)


# ---- M2 (audit): #include resolution, -I, --include: the real Preprocessor on files against gcc (no model) ----------------

KEY_INC = {}


def gen_include_tree(rng, root):
    """writes a directory tree; returns (include dirs, forced includes, main file, description)"""
    os.makedirs(root)
    dirs = {"": root, "a": os.path.join(root, "a"), "b": os.path.join(root, "b"), "sub": os.path.join(root, "sub")}
    for k, d in dirs.items():
        os.makedirs(d, exist_ok=True)
    files = {}

    def put(rel, text):
        files[rel] = text
        open(os.path.join(root, rel), "w").write(text)

    hdrs = ["x.h", "y.h", "w.h"]
    isel = rng.sample(["a", "b"], rng.choice([0, 1, 2, 2]))
    where = {}
    for h in hdrs:
        places = [p for p in ["", "a", "b"] if rng.random() < 0.55] or [rng.choice(["", "a", "b"])]
        where[h] = places
        for pl in places:
            tag = h[0] + "_" + (pl or "src")
            body = []
            guard = rng.random() < 0.5
            once = (not guard) and rng.random() < 0.3
            if guard:
                body += ["#ifndef G_%s" % h[0].upper(), "#define G_%s" % h[0].upper()]
            if once:
                body.append("#pragma once")
            body.append("#define %s %s_val" % (h[0].upper(), tag))
            body.append("%s_text ;" % tag)
            if h == "x.h" and rng.random() < 0.5 and isel:
                body.append('#include "w.h"' if rng.random() < 0.7 else "#include <w.h>")
            if guard:
                body.append("#endif")
            put(os.path.join(pl, h) if pl else h, "\n".join(body) + "\n")
    # an unguarded header that selects a group by a macro the includer redefines between repeated inclusions
    sel = rng.random() < 0.6
    if sel:
        nel = rng.choice([1, 2, 3])
        body = ["#if MODE == 1", "mode_1 ;"]
        for j in range(2, 2 + nel):
            body += ["#elif MODE == %d" % j, "mode_%d ;" % j]
        if rng.random() < 0.8:
            body += ["#else", "mode_other ;"]
        body.append("#endif")
        put("s.h", "\n".join(body) + "\n")
    put(os.path.join("sub", "z.h"), '#define Z z_sub_val\nz_sub_text ;\n' + ('#include "../x.h"\n' if "" in where["x.h"] and rng.random() < 0.5 else ""))
    forced = []
    if rng.random() < 0.5:
        put("f.h", "#define F forced_val\nforced_text ;\n")
        forced.append(os.path.join(root, "f.h"))
    main = ["main_start ;"]
    for _ in range(rng.randrange(2, 6)):
        r = rng.random()
        h = rng.choice(hdrs)
        # mostly headers that can be found (a header found nowhere is an error for gcc: such trees are not compared)
        if r < 0.8 and rng.random() < 0.9:
            quoted_ok = "" in where[h] or any(d in where[h] for d in isel)
            angle_ok = any(d in where[h] for d in isel)
            if not quoted_ok:
                continue
            r = 0.1 if not angle_ok else r
        if r < 0.45:
            main.append('#include "%s"' % h)
        elif r < 0.8:
            main.append("#include <%s>" % h)
        else:
            main.append('#include "sub/z.h"')
        main.append("use X Y W Z F ;")
    if sel:
        for v in [rng.randrange(1, 6) for _ in range(rng.choice([2, 3, 4]))]:
            main += ["#define MODE %d" % v, '#include "s.h"', "#undef MODE"]
    put("main.c", "\n".join(main) + "\n")
    idirs = [os.path.join(root, d) for d in isel]
    return idirs, forced, "main.c", files


def inc_tie(ctx, res, exe, n):
    rng = ctx.rng
    bad = 0
    for k in range(n):
        root = os.path.join(ctx.tmp, "inc%d" % k)
        idirs, forced, main, files = gen_include_tree(rng, root)
        op = "inc %s %s %s %s" % (hx(root), lst(idirs), lst(forced), hx(main))
        o = canon_pp(core.run_lines(exe, [], [op], timeout=60)[1][0])
        cmd = ["gcc", "-E", "-P", "-undef", "-nostdinc"] + [x for d in idirs for x in ("-I", d)] + [x for f in forced for x in ("-include", f)] + [main]
        r = subprocess.run(cmd, cwd=root, stdout=subprocess.PIPE, stderr=subprocess.PIPE, text=True)
        res.count("include-cases")
        if r.returncode != 0:
            res.count("include-gcc-rejects")          # a header that is found nowhere
            continue
        g = pylex(r.stdout)
        it = toks_of(o)
        res.case("inc|" + json.dumps(files, sort_keys=True) + "|" + " ".join(idirs) + "|" + " ".join(forced), True,
                 dict(tie="include", files=files, I=[os.path.basename(d) for d in idirs], forced=[os.path.basename(f) for f in forced],
                      impl=" ".join(it or [o])) if k % 10 == 0 else None)
        if it == g:
            res.traces_validated += 1
            continue
        bad += 1
        report(res, "#include resolution: cppcheck's preprocessor and gcc -E disagree\n-I %s --include %s\n%s\n  cppcheck: %s\n  gcc     : %s" %
               ([os.path.relpath(d, root) for d in idirs], [os.path.relpath(f, root) for f in forced],
                "\n".join("--- %s\n%s" % kv for kv in sorted(files.items())), " ".join(it) if it is not None else o, " ".join(g)),
               dict(kind="inc", files=files, I=[os.path.relpath(d, root) for d in idirs], forced=[os.path.relpath(f, root) for f in forced]), None)
    res.oblig("P_impl:include-resolution-vs-gcc", bad == 0, "correspondence", "" if not bad else "%d of %d trees differ (see the violations)" % (bad, n))


# ---- createDUI tie ---------------------------------------------------------------------------------------------------------

NAMES = ["A", "B", "C", "DD"]


def gen_userdefines(rng):
    ds = []
    for m in NAMES:
        if rng.random() < 0.4:
            ds.append(m + rng.choice(["", "", "=0", "=1", "=2", "=" + rng.choice(NAMES)]))
    rng.shuffle(ds)
    return ";".join(ds)


def probes(tag):
    return "".join("#ifdef %s\n%s_%s ;\n#endif\n" % (n, tag, n) for n in NAMES)


def cd_tie(ctx, res, exe, drv, n):
    rng = ctx.rng
    cases = []
    for _ in range(n):
        ud = gen_userdefines(rng)
        cfg = gen_userdefines(rng) if rng.random() < 0.4 else ""
        if rng.random() < 0.1 and ud:
            ud += ";"
        undefs = [m for m in NAMES if rng.random() < 0.2]
        src = probes("first") + gen_cond_source(rng, rng.choice([0, 1, 2, 3])) + probes("last")
        cases.append((ud, undefs, cfg, src))
    ops = ["cd %s %s %s %s" % (hx(ud), lst(u), hx(cfg), hx(src)) for ud, u, cfg, src in cases]
    rc, io, err = core.run_lines(exe, [], ops, timeout=900)
    rc2, mo, err2 = core.run_lines(drv, [], ops, timeout=900)
    if len(io) != len(ops) or len(mo) != len(ops):
        raise core.CheckBroken("C11 cd: %d ops, harness %d lines, driver %d lines: %s %s" % (len(ops), len(io), len(mo), err[-300:], err2[-300:]))
    io = [canon_pp(x) for x in io]
    core.correspond(ctx, res, "createDUI+preprocess", ops, io, mo, nontrivial=lambda op, out: True)
    # P_impl: -D X (without -U X) => X defined at the start of the file; -U X => X never defined
    for (ud, undefs, cfg, src), o in zip(cases, io):
        t = toks_of(o)
        if t is None:
            continue
        dn = [re.split(r"[=(]", p)[0] for p in ud.split(";") if p]
        for x in dn:
            if x not in undefs and ("first_" + x) not in t:
                report(res, "-D%s but %s is not defined at the start of the file" % (x, x), dict(kind="cd", ud=ud, undefs=undefs, cfg=cfg, src=src, out=o), None)
        for x in undefs:
            if ("first_" + x) in t or ("last_" + x) in t:
                report(res, "-U%s but %s is defined while the file is preprocessed" % (x, x), dict(kind="cd", ud=ud, undefs=undefs, cfg=cfg, src=src, out=o), None)
        res.count("cd-D:%d-U:%d" % (min(len(dn), 3), len(undefs)))


# ---- the check ---------------------------------------------------------------------------------------------------------------

ASSUMPTIONS = [
    "evaluator theorem ifeval_eq_spec_paren: fully parenthesised spelling, decimal unsuffixed literals < 2^63, unary operators on leaves / parenthesised operands, strict evaluation defined; the class of minimal parentheses (`Agree`) is sampled, not proved",
    "macro replacement: the model `expand` is the C17 6.10.3 algorithm plus four observed deviations (Quirks), not a copy of Macro::expand; theorems cover flat object-like tables and function-like macros with flat bodies and macro-free arguments; #, ##, variadic, nested and recursive invocations are tied by sampling against simplecpp and gcc",
    "#include / -I / --include: no model, implementation compared with gcc -E on generated trees",
    "gcc 12 -E -P -undef -nostdinc is taken as the conforming preprocessor; `-U X` of cppcheck also suppresses `#define X` in the file (documented difference, such cases are not compared with gcc)",
    "lexer: only names / pp-numbers / single characters / the two-character operators of combineOperators; tokens separated by one space in the generated sources",
]


def run(ctx, res):
    rng = ctx.rng
    thorough = ctx.tier == "thorough"
    res.assumptions = list(ASSUMPTIONS)
    if not os.environ.get("C11_NOPROVE"):        # development switch only: the lake lock is shared by all authors
        core.prove(ctx, res, MODULES, THEOREMS)
    drv = os.environ.get("C11_DRV") or ctx.driver("drv_c11")
    exe = os.environ.get("C11_HARNESS") or ctx.harness("c11")     # development switch (mutation experiments of docs/C11.md)
    _reported.clear()
    detect_variant(res)

    # ---- corpus: witnesses of the known findings and past disagreements, replayed first -------------------------------
    corpus = load_corpus()
    ev_c = [c for c in corpus if c["kind"] == "ev"]
    if ev_c:
        ev_tie(ctx, res, exe, drv, [c["ast"] for c in ev_c], "evaluate-corpus", len(ev_c))
    pp_c = [c for c in corpus if c["kind"] == "pp"]
    if pp_c:
        pp_tie(ctx, res, exe, drv, [(c["src"], c.get("defs", []), c.get("undefs", [])) for c in pp_c], "preprocess-corpus", len(pp_c))
    seen = set(k for k, n in _reported.items() if n)
    for c in corpus:
        if c.get("key") and c["key"] not in seen:
            res.count("corpus-witness-no-longer-fails:" + c["key"])

    # ---- C-eval ------------------------------------------------------------------------------------------------------------
    n_ev = 12000 if thorough else 1800
    asts = []
    for i in range(n_ev):
        d = rng.choice([1, 2, 2, 3, 3, 4])
        r = rng.random()
        if r < 0.5:
            asts.append(gen_expr(rng, d, plain=True))
        elif r < 0.6:
            asts.append(gen_expr(rng, d, plain=True, ops=[16, 17, 7, 8, 9, 11]))     # logical / comparison shapes
        else:
            asts.append(gen_expr(rng, d))
    ev_tie(ctx, res, exe, drv, asts, "evaluate", 3000 if thorough else 400)
    # the same trees fully parenthesised: the class of theorem ifeval_eq_spec_paren (a deviation there has no key)
    ev_tie(ctx, res, exe, drv, asts[:(4000 if thorough else 600)], "evaluate-parenthesised", 600 if thorough else 100, op="specpf")
    # malformed conditions
    soups = [gen_soup(rng) for _ in range(3000 if thorough else 500)]
    sops = ["ev %s %s" % (lst(EV_DEFS), hx(t)) for t in soups]
    rc, io, err = core.run_lines(exe, [], sops, timeout=600)
    rc, mo, err = core.run_lines(drv, [], sops, timeout=600)
    core.correspond(ctx, res, "evaluate-malformed", sops, [canon_ev(x) for x in io], mo, nontrivial=lambda op, out: True)

    # ---- C-pp ---------------------------------------------------------------------------------------------------------------
    n_pp = 3000 if thorough else 450
    cases = []
    for i in range(n_pp):
        src = render(gen_macro_source(rng, rng.choice([2, 3, 4, 6]), hashes=rng.random() < 0.5))
        cases.append((src, [], []))
        res.count("pp-macro-source")
    pp_tie(ctx, res, exe, drv, cases, "preprocess-macros", 1500 if thorough else 120)
    spec_pp_vs_gcc(ctx, res, drv, cases[:(600 if thorough else 60)], "macros")
    # nested function-like invocations in argument position, depth 2-4 over 2-3 macros (6.10.3.1: arguments are macro replaced on
    # their own, nothing inherited from the enclosing invocation): simplecpp == model, and every case against gcc
    cases = [(gen_nested_source(rng), [], []) for i in range(1200 if thorough else 150)]
    res.count("pp-nested-source", len(cases))
    pp_tie(ctx, res, exe, drv, cases, "preprocess-nested-invocations", len(cases))
    spec_pp_vs_gcc(ctx, res, drv, cases[:(300 if thorough else 40)], "nested-invocations")
    cases = []
    for i in range(n_pp):
        src = gen_cond_source(rng, rng.choice([1, 2, 3, 5]))
        d, u = gen_defs(rng)
        cases.append((src, d, u))
        res.count("pp-cond-source")
    cio, cmo = pp_tie(ctx, res, exe, drv, cases, "preprocess-conditionals", 1500 if thorough else 120)
    sk_tie(ctx, res, drv, cases, cio)
    spec_pp_vs_gcc(ctx, res, drv, cases[:(600 if thorough else 60)], "conditionals")

    # ---- C-dui ---------------------------------------------------------------------------------------------------------------
    cd_tie(ctx, res, exe, drv, 2000 if thorough else 300)

    # ---- repeated passes over one raw token list --------------------------------------------------------------------------
    mp_tie(ctx, res, exe, drv, 1500 if thorough else 200)

    # ---- #include / -I / --include (no model: implementation against gcc) ----------------------------------------------------
    inc_tie(ctx, res, exe, 300 if thorough else 30)


def replay(ctx, res, rp):
    drv = ctx.driver("drv_c11")
    exe = ctx.harness("c11")
    fail = False
    if rp.get("kind") == "ev":
        rc, io, err = core.run_lines(exe, [], ["ev %s %s" % (lst(rp.get("defs", EV_DEFS)), hx(rp["text"]))])
        gb = gcc_branches([rp["text"]], rp.get("defs", EV_DEFS))[0]
        print("#if %s\n  simplecpp: %s\n  gcc      : %s\n  spec     : %s" % (rp["text"], io[0], gb, rp.get("spec")))
        ib = None if io[0].startswith("E") else (int(io[0].split()[1]) != 0)
        want = (rp["spec"] != 0) if rp.get("spec") is not None else gb
        fail = ib != want
    elif rp.get("kind") == "pp":
        d, u = rp.get("defs", []), rp.get("undefs", [])
        rc, io, err = core.run_lines(exe, [], ["pp %s %s %s %s" % (CODE_Q[0], lst(d), lst(u), hx(rp["src"]))])
        g, gerr = gcc_pp(rp["src"], d, u)
        o = canon_pp(io[0])
        it = toks_of(o)
        print("%s  simplecpp: %s\n  gcc      : %s" % (rp["src"], " ".join(it) if it is not None else o, " ".join(g) if g is not None else gerr))
        fail = g is not None and it != g
    elif rp.get("kind") == "mp":
        ps = rp["passes"]
        k = rp["pass_index"]
        i = core.run_lines(exe, [], ["mp %s %s %s" % (CODE_Q[0], hx(rp["src"]), " ".join(lst(d) for d in ps))])[1][0]
        f = canon_pp(core.run_lines(exe, [], ["pp %s %s - %s" % (CODE_Q[0], lst(ps[k]), hx(rp["src"]))])[1][0])
        ci = canon_mp(i, True)
        print(rp["src"])
        print("passes (defines): %s" % ps)
        print("pass %d on reused raw tokens: %s" % (k + 1, " ".join(toks_of(ci[k]) or [ci[k]])))
        print("pass on fresh raw tokens   : %s" % " ".join(toks_of(f) or [f]))
        fail = ci[k] != f
    elif rp.get("kind") == "inc":
        root = os.path.join(ctx.tmp, "replay_inc")
        for rel, text in rp["files"].items():
            os.makedirs(os.path.dirname(os.path.join(root, rel)), exist_ok=True)
            open(os.path.join(root, rel), "w").write(text)
        idirs = [os.path.join(root, d) for d in rp["I"]]
        forced = [os.path.join(root, f) for f in rp["forced"]]
        for d in idirs:
            os.makedirs(d, exist_ok=True)
        o = canon_pp(core.run_lines(exe, [], ["inc %s %s %s %s" % (hx(root), lst(idirs), lst(forced), hx("main.c"))])[1][0])
        r = subprocess.run(["gcc", "-E", "-P", "-undef", "-nostdinc"] + [x for d in idirs for x in ("-I", d)] + [x for f in forced for x in ("-include", f)] + ["main.c"],
                           cwd=root, stdout=subprocess.PIPE, stderr=subprocess.PIPE, text=True)
        it, g = toks_of(o), pylex(r.stdout)
        print("cppcheck: %s\ngcc     : %s" % (" ".join(it) if it is not None else o, " ".join(g)))
        fail = r.returncode == 0 and it != g
    elif rp.get("kind") == "cd":
        rc, io, err = core.run_lines(exe, [], ["cd %s %s %s %s" % (hx(rp["ud"]), lst(rp["undefs"]), hx(rp["cfg"]), hx(rp["src"]))])
        print(rp["src"]); print(canon_pp(io[0]))
        t = toks_of(canon_pp(io[0])) or []
        dn = [re.split(r"[=(]", p)[0] for p in rp["ud"].split(";") if p]
        fail = any(x not in rp["undefs"] and ("first_" + x) not in t for x in dn) or any(("first_" + x) in t or ("last_" + x) in t for x in rp["undefs"])
    if fail:
        print("VIOLATION property=C11 replay=(replayed)")
    print("replay: %s" % ("still fails" if fail else "does not fail"))
    return 1 if fail else 0

"""C26 — reports are faithful in every output format.

Obligations
  theorems   Cppcheck.C26.* (Lean): XML round trip / well-formedness, template rendering = simultaneous substitution,
             the injection counterexample (F10), duplicate filter, SARIF result list, JSON string escaping
  T1         entity table / ENTITY_RANGE / restricted flags of externals/tinyxml2 -> Gen/TinyXmlEntities.lean
             (Props proves it equal to the table the model and its theorems use)
  T2         the predefined --template formats of cli/cmdlineparser.cpp -> Gen/Templates.lean
             (Props proves every one of them is a well-formed template after the static substitution)
  T3         ErrorLogger::mCriticalErrorIds == the model's list; single-byte tables of fixInvalidChars / toxml /
             PrintString / picojson string escaping compared exhaustively (all 256 bytes) through driver and harness
  T4         attribute / element grammar of cppcheck-errors.rng -> Gen/RngAttrs.lean
  C1..C5     real toXML / toString / substituteTemplateFormatStatic / SarifReport::serialize / escaping functions
             == the model, on generated findings and templates
  R          the model's XML reader == expat on every document produced (and on mutated documents: one direction)
P_impl       on the real outputs, with independent parsers (expat, python json): XML well-formed and carrying the
             documented (sanitised) fields; text = simultaneous substitution of the fields; SARIF valid JSON with the
             located findings, levels and locations
"""
import json, os, re, subprocess, xml.etree.ElementTree as ET
from .. import core, build_repo

ID = "C26"
LEVEL = "proof"
RULE = ("cases = (finding, format) pairs: findings with generated ids / messages / symbol names / file names (mostly printable "
        "text plus XML-special characters, control bytes, NUL, valid and invalid UTF-8, {field} markers, backslash escapes), "
        "0-3 locations, 0-3 symbols; templates built from the documented fields, literal text, {inconclusive:..}, unknown markers "
        "and the predefined formats of cmdlineparser.cpp; non-trivial = some string field holds a byte outside [A-Za-z0-9 ._/-] "
        "or the template has >= 2 markers")
EXPLANATION = ("Lean theorems about the executable models of ErrorMessage::toXML / fixInvalidChars / tinyxml2 PrintString (XML), "
               "ErrorMessage::toString (text) and SarifReport::serialize + picojson (SARIF); models tied to the working tree by translators "
               "(entity table, predefined templates, critical ids, rng grammar, shape of the {inconclusive: loop) and by differential runs of "
               "the real functions in-process and of the binary; outputs re-parsed by expat / xmllint / python json. "
               "Hypotheses of the restricted theorems (each with a counterexample theorem and a replayed witness): XML round trip / "
               "well-formedness needs RawOK (id, guideline, classification, file0, file names, symbol names without C0 control bytes and "
               "valid UTF-8: F26b); rng conformance needs rngPlain (no guideline/classification/remark, origfile = file, one of the six "
               "user-visible severities); text = simultaneous substitution needs templates that tokenize and valuesOK (no substituted value "
               "holds a '{': F10; a non-tokenizing template may not return without the pos2 guard: F26f, fixed); 'no finding dropped' needs "
               "pairwise distinct text renderings (F26e); SARIF: the document text is proved to parse (strict byte-level JSON reader) to "
               "the tree whose results are the findings WITH a call stack (unlocated findings are dropped by sarifreport.cpp) - valid UTF-8 "
               "of that text is not provable (F26c) and is decided by P_impl. "
               "Outside the model: StdLogger itself (anonymous namespace; its duplicate filter is modelled as stdLogger and tied through "
               "the CLI), XML header/footer (real functions composed in the CLI tie; xml_report_partial is about the list of <error> "
               "elements), readCode's file access (the source line is a parameter), setmsg/$symbol, getGuideline, plist output, colours on "
               "a terminal, rng datatype facets (python + xmllint only).")
ASSUMPTIONS = [
    "XmlRd (the model's XML reader) accepts a subset of XML 1.0; 'XmlRd accepts => a conforming processor accepts with the same content' is checked against expat on every real output and on mutated documents (tie R), not proved",
    "the model's JSON reader is byte-level: UTF-8 validity of the SARIF text is outside the theorems (F26c; P_impl decodes strictly)",
    "mFileName is taken as given (Path::simplifyPath outside the model; the harness answers 'premise' when it changes a name)",
    "std::isprint in the C locale (cppcheck never calls setlocale); char is signed (x86-64 g++)",
    "ids are NCNames and Severity::none / internal findings are never written (premise of the rng P_impl)",
]
MODULES = ["Cppcheck.Props.C26"]
THEOREMS = ["Cppcheck.C26." + t for t in (
    "gen_entities_eq", "predefined_templates_wf",
    "toXML_roundtrip_partial", "toXML_wf_partial", "rawOK_ignores_messages", "toXML_wf_counterexample", "toXML_roundtrip_counterexample",
    "rng_els", "rng_error_names", "rng_loc_names", "rng_sev", "toXML_conforms_rng_partial",
    "sarif_results_tree", "sarif_rules_tree", "sarif_drops_unlocated", "sarif_string_roundtrip", "json_serialize_roundtrip", "sarif_document",
    "sarif_level_spec", "xml_report_partial", "code_field", "loc_code_field", "toString_code_independent_of_display_path",
    "render_eq_spec_partial", "render_injection_counterexample", "render_hang_counterexample",
    "each_once", "stdLogger_all_partial", "xml_dedup_by_text_counterexample")]

GEN_ENT = "TinyXmlEntities"
GEN_TPL = "Templates"
GEN_RNG = "RngAttrs"

SEVS = ["none", "error", "warning", "style", "performance", "portability", "information", "debug", "internal"]
FIELDS = ["id", "severity", "cwe", "message", "remark", "callstack", "file", "line", "column", "code"]
LOCFIELDS = ["file", "line", "column", "info", "code"]


class Unrecognised(Exception):
    pass


# ---- translators -------------------------------------------------------------------------------------

def c_unescape(lit):
    """value of the body of a C string literal (only the escapes that occur in the windows we read)"""
    out, i = "", 0
    while i < len(lit):
        c = lit[i]
        if c == "\\":
            n = lit[i + 1]
            m = {"n": "\n", "t": "\t", "r": "\r", "\\": "\\", '"': '"', "'": "'", "0": "\0"}
            if n not in m:
                raise Unrecognised("escape \\%s" % n)
            out += m[n]; i += 2
        else:
            out += c; i += 1
    return out


def lean_str(s):
    """Lean string literal for a python str of code points < 256"""
    out = '"'
    for ch in s:
        o = ord(ch)
        if ch == '"' or ch == "\\":
            out += "\\" + ch
        elif 0x20 <= o < 0x7f:
            out += ch
        else:
            out += "\\x%02x" % o
    return out + '"'


def lean_chars(s):
    """Lean `List Char` literal (kernel evaluation of String.toList on long literals is slow)"""
    def ch(c):
        o = ord(c)
        if c == "'" or c == "\\":
            return "'\\" + c + "'"
        if 0x20 <= o < 0x7f:
            return "'" + c + "'"
        return "Char.ofNat %d" % o
    return "[" + ", ".join(ch(c) for c in s) + "]"


def extract_entities():
    src = open(os.path.join(core.REPO, "externals/tinyxml2/tinyxml2.cpp"), encoding="latin-1").read()
    hdr = open(os.path.join(core.REPO, "externals/tinyxml2/tinyxml2.h"), encoding="latin-1").read()
    consts = {}
    for m in re.finditer(r"static const char (\w+)\s*=\s*'((?:\\.|[^'\\]))';", src):
        consts[m.group(1)] = c_unescape(m.group(2))
    m = re.search(r"static const int NUM_ENTITIES = (\d+);\s*static const Entity entities\[NUM_ENTITIES\] = \{(.*?)\};", src, re.S)
    if not m:
        raise Unrecognised("entities[] table not found in tinyxml2.cpp")
    n = int(m.group(1))
    ents = []
    body = m.group(2)
    pos = 0
    for e in re.finditer(r"\{\s*\"(\w+)\"\s*,\s*(\d+)\s*,\s*([^}]*?)\s*\}\s*,?", body):
        if body[pos:e.start()].strip():
            raise Unrecognised("entity table: unexpected text %r" % body[pos:e.start()])
        pos = e.end()
        pat, ln, val = e.group(1), int(e.group(2)), e.group(3).strip()
        if ln != len(pat):
            raise Unrecognised("entity %s: length field %d" % (pat, ln))
        if val in consts:
            v = consts[val]
        else:
            mm = re.match(r"^'((?:\\.|[^'\\]))'$", val)
            if not mm:
                raise Unrecognised("entity value %r" % val)
            v = c_unescape(mm.group(1))
        ents.append((pat, v))
    if body[pos:].strip() or len(ents) != n:
        raise Unrecognised("entity table: %d entries parsed, NUM_ENTITIES=%d, rest=%r" % (len(ents), n, body[pos:]))
    m = re.search(r"\bENTITY_RANGE\s*=\s*(\d+)", hdr)
    if not m:
        raise Unrecognised("ENTITY_RANGE")
    rng = int(m.group(1))
    restricted = re.findall(r"_restrictedEntityFlag\[static_cast<unsigned char>\('((?:\\.|[^'\\]))'\)\] = true;", src)
    if len(re.findall(r"_restrictedEntityFlag\[[^\n]*\]\s*=\s*true", src)) != len(restricted):
        raise Unrecognised("_restrictedEntityFlag assignments")
    # the shape of PrintString the model copies (signed compare, table lookup)
    ps = re.search(r"void XMLPrinter::PrintString\( const char\* p, bool restricted \)\s*\{(.*?)\n\}", src, re.S)
    if not ps or "*q > 0 && *q < ENTITY_RANGE" not in ps.group(1) or "entities[i].value == *q" not in ps.group(1):
        raise Unrecognised("PrintString body")
    return ents, rng, [c_unescape(r) for r in restricted]


def extract_templates():
    src = open(os.path.join(core.REPO, "cli/cmdlineparser.cpp"), encoding="latin-1").read()
    m = re.search(r'std::strncmp\(argv\[i\], "--template=", 11\) == 0\) \{(.*?)\n        \}\n', src, re.S)
    if not m:
        raise Unrecognised("--template= window")
    win = m.group(1)
    out = {}
    cur = None
    for line in win.split("\n"):
        mm = re.search(r'mSettings\.templateFormat == "(\w+)"', line)
        if mm:
            cur = mm.group(1)
            out[cur] = [None, None]
        mm = re.search(r'mSettings\.(templateFormat|templateLocation) = "((?:[^"\\]|\\.)*)";', line)
        if mm:
            if cur is None:
                raise Unrecognised("assignment outside a named template: " + line.strip())
            out[cur][0 if mm.group(1) == "templateFormat" else 1] = c_unescape(mm.group(2))
        elif "mSettings.template" in line and "= argv[i] + 11" not in line and "==" not in line:
            raise Unrecognised("template line: " + line.strip())
    m = re.search(r'if \(mSettings\.templateFormat\.empty\(\)\) \{\s*mSettings\.templateFormat = "((?:[^"\\]|\\.)*)";\s*'
                  r'if \(mSettings\.templateLocation\.empty\(\)\)\s*mSettings\.templateLocation = "((?:[^"\\]|\\.)*)";', src, re.S)
    if not m:
        raise Unrecognised("default template")
    out["default"] = [c_unescape(m.group(1)), c_unescape(m.group(2))]
    if len(out) < 8 or any(v[0] is None for v in out.values()):
        raise Unrecognised("templates parsed: %s" % out)
    return out


def extract_tostring_variant():
    """does the {inconclusive:…} loop of ErrorMessage::toString guard against an unterminated marker (pos2 == npos)?"""
    src = open(os.path.join(core.REPO, "lib/errorlogger.cpp"), encoding="latin-1").read()
    m = re.search(r'std::string::size_type pos1 = result\.find\("\{inconclusive:"\);\s*while \(pos1 != std::string::npos\) \{(.*?)\n    \}\n', src, re.S)
    if not m:
        raise Unrecognised("toString: {inconclusive: loop")
    body = [l.strip() for l in m.group(1).split("\n") if l.strip()]
    plain = ["const std::string::size_type pos2 = result.find('}', pos1+1);",
             "const std::string replaceFrom = result.substr(pos1,pos2-pos1+1);",
             "const std::string replaceWith = (certainty == Certainty::inconclusive) ? result.substr(pos1+14, pos2-pos1-14) : std::string();",
             "findAndReplace(result, replaceFrom, replaceWith);",
             'pos1 = result.find("{inconclusive:", pos1);']
    if body == plain:
        return False
    if body == plain[:1] + ["if (pos2 == std::string::npos)", "break;"] + plain[1:]:
        return True
    raise Unrecognised("toString: {inconclusive: loop body %r" % body)


def extract_readcode_accessor():
    """which accessor do the {code} expansions pass to readCode?  (must be getOrigFile(): the path cppcheck opened)"""
    src = open(os.path.join(core.REPO, "lib/errorlogger.cpp"), encoding="latin-1").read()
    calls = re.findall(r"(?<![\w:])readCode\(\s*([^,]+),", src)
    calls = [c.strip() for c in calls if not c.strip().startswith("const std::string")]      # drop the definition
    if len(calls) < 1:
        raise Unrecognised("no readCode call found in errorlogger.cpp")
    bad = [c for c in calls if not re.match(r"^[\w.()\->]+\.getOrigFile\(\)$", c)]
    return calls, bad


def extract_critical():
    src = open(os.path.join(core.REPO, "lib/errorlogger.cpp"), encoding="latin-1").read()
    m = re.search(r"const std::set<std::string> ErrorLogger::mCriticalErrorIds\{(.*?)\};", src, re.S)
    if not m:
        raise Unrecognised("mCriticalErrorIds")
    ids = re.findall(r'"([^"]+)"', m.group(1))
    if re.sub(r'"[^"]+"|[\s,]', "", m.group(1)):
        raise Unrecognised("mCriticalErrorIds body")
    return ids


def extract_rng():
    """element -> (required attrs, optional attrs, child elements) of cppcheck-errors.rng, plus the severity values"""
    t = ET.parse(os.path.join(core.REPO, "cppcheck-errors.rng"))
    ns = "{http://relaxng.org/ns/structure/1.0}"
    elems = {}

    def walk(e, cur, optional):
        tag = e.tag.replace(ns, "")
        if tag == "element":
            name = e.get("name")
            if cur is not None:
                elems[cur][2].append(name)
            elems[name] = [[], [], [], {}]
            for c in e:
                walk(c, name, False)
        elif tag == "attribute":
            (elems[cur][1] if optional else elems[cur][0]).append(e.get("name"))
            vals = [v.text for v in e.iter(ns + "value")]
            dt = [d.get("type") for d in e.iter(ns + "data")]
            par = [(p.get("name"), p.text) for p in e.iter(ns + "param")]
            elems[cur][3][e.get("name")] = dict(values=vals, data=dt, params=par)
        elif tag in ("optional",):
            for c in e:
                walk(c, cur, True)
        elif tag in ("zeroOrMore", "start", "grammar", "choice"):
            for c in e:
                walk(c, cur, optional)
        elif tag in ("data", "value", "param"):
            pass
        else:
            raise Unrecognised("rng construct " + tag)
    walk(t.getroot(), None, False)
    for need in ("error", "location", "symbol"):
        if need not in elems:
            raise Unrecognised("rng: no element " + need)
    return elems


def gen_texts():
    ents, rng, restricted = extract_entities()
    tpls = extract_templates()
    rngel = extract_rng()
    ent = ["import Cppcheck.Model.XmlEsc",
           "/- GENERATED by vlib/props/c26.py from externals/tinyxml2/tinyxml2.cpp/.h — do not edit -/",
           "namespace Cppcheck.Gen.TinyXmlEntities", "open Cppcheck.XmlEsc", "",
           "def entities : List Entity := [" + ", ".join("⟨%s.toList, Char.ofNat %d⟩" % (lean_str(p), ord(v)) for p, v in ents) + "]",
           "def entityRange : Nat := %d" % rng,
           "def restrictedFlags : List Char := [" + ", ".join("Char.ofNat %d" % ord(c) for c in restricted) + "]",
           "", "end Cppcheck.Gen.TinyXmlEntities", ""]
    tp = ["import Cppcheck.Model.Template",
          "/- GENERATED by vlib/props/c26.py from cli/cmdlineparser.cpp (--template=<name> and the default) — do not edit -/",
          "namespace Cppcheck.Gen.Templates", "",
          "/-- (name, templateFormat, templateLocation) as written in the source, before substituteTemplate*Static -/",
          "def predefined : List (String × List Char × List Char) := ["]
    names = sorted(tpls)
    tp.append(",\n".join("  -- %s\n  -- %s\n  (%s, %s,\n   %s)" % (tpls[n][0], tpls[n][1] or "", lean_str(n), lean_chars(tpls[n][0]), lean_chars(tpls[n][1] or "")) for n in names))
    tp += ["]", "", "end Cppcheck.Gen.Templates", ""]
    rg = ["import Cppcheck.Model.XmlEsc",
          "/- GENERATED by vlib/props/c26.py from cppcheck-errors.rng — do not edit -/",
          "namespace Cppcheck.Gen.RngAttrs", "",
          "/-- element, required attributes, optional attributes, child elements (names as character lists) -/",
          "def elements : List (List Char × List (List Char) × List (List Char) × List (List Char)) := ["]
    rg.append(",\n".join("  -- %s: required %s optional %s children %s\n  (%s, [%s], [%s], [%s])" % (
        k, v[0], v[1], v[2], lean_chars(k), ", ".join(lean_chars(a) for a in v[0]), ", ".join(lean_chars(a) for a in v[1]),
        ", ".join(lean_chars(a) for a in v[2])) for k, v in sorted(rngel.items())))
    rg += ["]", "",
           "-- severity values: %s" % rngel["error"][3]["severity"]["values"],
           "def severityValues : List (List Char) := [" + ", ".join(lean_chars(v) for v in rngel["error"][3]["severity"]["values"]) + "]",
           "", "end Cppcheck.Gen.RngAttrs", ""]
    return {GEN_ENT: "\n".join(ent), GEN_TPL: "\n".join(tp), GEN_RNG: "\n".join(rg)}, dict(entities=ents, range=rng, restricted=restricted, templates=tpls, rng=rngel,
                                                                                              brk=extract_tostring_variant())


def translate(ctx):
    texts, info = gen_texts()
    for name, text in texts.items():
        ctx.write_gen(name, text)
    return info


# ---- independent reference functions (python; used for P_impl only) -----------------------------------

def py_fix(b):
    return b"".join(bytes([c]) if 0x20 <= c <= 0x7e else b"\\%03o" % c for c in b)


def cstr(b):
    i = b.find(b"\0")
    return b if i < 0 else b[:i]


def split_symbols(b):
    if not b:
        return []
    parts = b.split(b"\n")
    if parts[-1] == b"":
        parts.pop()
    return parts


def expected_xml(f):
    """the documented content of <error> for a finding: (attrs, [loc attrs], [symbols]) as bytes"""
    a = [("id", cstr(f["id"]))]
    if f["guideline"]:
        a.append(("guideline", cstr(f["guideline"])))
    a.append(("severity", SEVS[f["sev"]].encode() if f["sev"] else b""))
    if f["classification"]:
        a.append(("classification", cstr(f["classification"])))
    a += [("msg", py_fix(f["short"])), ("verbose", py_fix(f["verbose"]))]
    if f["cwe"]:
        a.append(("cwe", b"%d" % f["cwe"]))
    if f["hash"]:
        a.append(("hash", b"%d" % f["hash"]))
    if f["inc"]:
        a.append(("inconclusive", b"true"))
    if f["file0"]:
        a.append(("file0", cstr(f["file0"])))
    if f["remark"]:
        a.append(("remark", py_fix(f["remark"])))
    locs = []
    for (file, orig, line, col, info) in reversed(f["locs"]):
        la = []
        if orig != file:
            la.append(("origfile", cstr(orig)))
        la += [("file", cstr(file)), ("line", b"%d" % max(line, 0)), ("column", b"%d" % col)]
        if info:
            la.append(("info", py_fix(info)))
        locs.append(la)
    return a, locs, [cstr(s) for s in split_symbols(f["symbols"])]


def expat_read(doc):
    """(attrs, locs, syms) of one <error> element as bytes, or None when expat rejects the document"""
    try:
        e = ET.fromstring(doc)
    except ET.ParseError:
        return None
    if e.tag != "error":
        return ("tag", e.tag)

    def enc(s):
        return s.encode("utf-8", "surrogatepass")
    attrs = [(k, enc(v)) for k, v in e.attrib.items()]
    locs, syms = [], []
    for c in e:
        if c.tag == "location":
            locs.append([(k, enc(v)) for k, v in c.attrib.items()])
        elif c.tag == "symbol":
            syms.append(enc(c.text or ""))
        else:
            return ("child", c.tag)
    return attrs, locs, syms


def canon_xerr(x):
    def at(a):
        return ",".join("%s=%s" % (k, core.hx(v)) for k, v in a) if a else "-"
    attrs, locs, syms = x
    return at(attrs) + "|" + (";".join(at(l) for l in locs) if locs else "-") + "|" + (",".join(core.hx(s) for s in syms) if syms else "-")


RNG = {}
BRK = [1]      # the model of record has the `pos2 == npos` guard of fix 3652a18 (T5 checks that the source has it)
NCNAME = re.compile(r"^[A-Za-z_][A-Za-z0-9_.\-]*$")


def rng_problems(got):
    """violations of the extracted cppcheck-errors.rng grammar by one re-read <error> (attrs, locs, syms)"""
    if not RNG:
        return []
    attrs, locs, syms = got
    probs = []

    def chk(el, a):
        req, opt, _ch, facets = RNG[el]
        names = [k for k, _ in a]
        for r in req:
            if r not in names:
                probs.append("%s: required attribute %s missing" % (el, r))
        for k, v in a:
            if k not in req and k not in opt:
                probs.append("%s: attribute %s not in the schema" % (el, k))
                continue
            fc = facets.get(k, {})
            if fc.get("values") and v.decode("utf-8", "replace") not in fc["values"]:
                probs.append("%s: %s=%r not among %s" % (el, k, v, fc["values"]))
            for dt in fc.get("data", []):
                t = v.decode("utf-8", "replace")
                if dt == "NCName" and not NCNAME.match(t):
                    probs.append("%s: %s is not an NCName" % (el, k))
                if dt == "integer":
                    if not re.match(r"^[+-]?[0-9]+$", t):
                        probs.append("%s: %s is not an integer" % (el, k))
                    else:
                        for pn, pv in fc.get("params", []):
                            if pn == "minExclusive" and not int(t) > int(pv):
                                probs.append("%s: %s=%s violates minExclusive %s" % (el, k, t, pv))
                            if pn == "minInclusive" and not int(t) >= int(pv):
                                probs.append("%s: %s=%s violates minInclusive %s" % (el, k, t, pv))
                if dt == "boolean" and t not in ("true", "false", "0", "1"):
                    probs.append("%s: %s is not a boolean" % (el, k))
    chk("error", attrs)
    for l in locs:
        chk("location", l)
    if locs and "location" not in RNG["error"][2]:
        probs.append("error: child location not in the schema")
    if syms and "symbol" not in RNG["error"][2]:
        probs.append("error: child symbol not in the schema")
    return probs


def classify_rng(probs):
    """premise: ids are NCNames and Severity::none is never reported; F26d (fixed by a735e94, the entry suppresses nothing):
    attributes / severities toXML writes but the schema does not know"""
    prem = re.compile(r"id is not an NCName|severity=b'' not among")
    rest = [p for p in probs if not prem.search(p)]
    if not rest:
        return "premise:id-not-ncname-or-severity-none"
    lag = re.compile(r"attribute (origfile|remark|guideline|classification) not in the schema|severity=b'(debug|internal)' not among|hash=1 violates")
    if all(lag.search(p) for p in rest):
        return "xml-rng-schema-lag"
    return None


def is_utf8_xml(b):
    try:
        s = b.decode("utf-8")
    except UnicodeDecodeError:
        return False
    return "\ufffe" not in s and "\uffff" not in s


def raw_fields(f):
    r = [("id", f["id"]), ("guideline", f["guideline"]), ("classification", f["classification"]), ("file0", f["file0"])]
    for (file, orig, line, col, info) in f["locs"]:
        r += [("file", file), ("origfile", orig)]
    return r


def raw_ok(f):
    """python twin of the Lean RawOK (cross-checked against the driver's verdict on every case)"""
    for _, v in raw_fields(f):
        v = cstr(v)
        if any(c < 0x20 for c in v) or not is_utf8_xml(v):
            return False
    for s in split_symbols(f["symbols"]):
        s = cstr(s)
        if any(c < 0x20 and c != 9 for c in s) or not is_utf8_xml(s):
            return False
    return True


def native(b):
    return b.replace(b"\\", b"/")


def stringify(loc):
    file, orig, line, col, info = loc
    return b"[" + native(file) + (b":%d" % line if line != -1 else b"") + b"]"


TOK = re.compile(rb"\{[^{}]*\}")


def template_wf(t):
    """no '{' outside complete {name} markers"""
    return b"{" not in TOK.sub(b"", t)


def endl_of(s):
    i = s.find(b"\r")
    if i < 0:
        return b"\n"
    return b"\r\n" if s[i + 1:i + 2] == b"\n" else b"\r"


def spec_subst(t, val):
    def rep(m):
        v = val(m.group(0)[1:-1])
        return m.group(0) if v is None else v
    return TOK.sub(rep, t)


def read_code_line(path, line):
    """the source line as readCode shows it: the line-th std::getline result (empty when the file cannot be read, line <= 0 or
    past the end), trailing blanks / CR cut, tabs as blanks"""
    try:
        data = open(path, "rb").read().split(b"\n")
    except OSError:
        return b""
    ends_nl = bool(data) and data[-1] == b""
    if ends_nl:
        data.pop()
    if line <= 0 or not data:
        return b""
    if line > len(data):
        # std::getline past the end: a file ending in a newline gives "" (the string is erased before the failed extraction);
        # otherwise eofbit is already set, the sentry fails and the string keeps the last line
        if ends_nl:
            return b""
        line = len(data)
    return data[line - 1].rstrip(b"\r\n\t ").replace(b"\t", b" ")


def spec_render(f, verbose, tf, tl, srcdir=None):
    """documented meaning: one simultaneous substitution of the fields (python twin of Template.Spec.render)"""
    def src(loc):
        return read_code_line(os.path.join(srcdir.encode() if isinstance(srcdir, str) else srcdir, loc[1]), loc[2]) if srcdir else b""
    last = f["locs"][-1] if f["locs"] else None
    env = {
        b"id": f["guideline"] or f["id"],
        b"severity": f["classification"] or (SEVS[f["sev"]].encode() if f["sev"] else b""),
        b"cwe": b"%d" % f["cwe"],
        b"message": f["verbose"] if verbose else f["short"],
        b"remark": f["remark"],
        b"callstack": b" -> ".join(stringify(l) for l in f["locs"]),
        b"file": native(last[0]) if last else b"nofile",
        b"line": (b"%d" % last[2]) if last else b"0",
        b"column": (b"%d" % last[3]) if last else b"0",
    }

    def val(code):
        def v(n):
            if n == b"code":
                return code
            if n.startswith(b"inconclusive:"):
                return n[13:] if f["inc"] else b""
            return env.get(n)
        return v
    pre = spec_subst(tf, val(None))
    code = (src(last) + endl_of(pre) + b" " * max(last[3] - 1, 0) + b"^") if last else b""
    out = spec_subst(tf, val(code))
    if tl and len(f["locs"]) >= 2:
        for (file, orig, line, col, info) in f["locs"]:
            lenv = {b"file": native(file), b"line": b"%d" % line, b"column": b"%d" % col, b"info": info or f["short"]}
            pre = spec_subst(tl, lambda n: None if n == b"code" else lenv.get(n))
            code = src((file, orig, line, col, info)) + endl_of(pre) + b" " * max(col - 1, 0) + b"^"
            out += b"\n" + spec_subst(tl, lambda n: code if n == b"code" else lenv.get(n))
    return out


def field_values(f, verbose):
    last = f["locs"][-1] if f["locs"] else None
    v = [f["guideline"] or f["id"], f["classification"], f["verbose"] if verbose else f["short"], f["remark"]]
    v += [l[0] for l in f["locs"]]
    return v


def loc_values(f):
    return [l[0] for l in f["locs"]] + [l[4] or f["short"] for l in f["locs"]]


CRITICAL = set()


def sarif_level(f):
    if f["id"].decode("latin-1") in CRITICAL:
        return "error"
    return {1: "error", 2: "error", 3: "warning", 4: "warning", 5: "warning"}.get(f["sev"], "note")


# ---- generators ------------------------------------------------------------------------------------------

WORDS = [b"Null pointer dereference", b"Array 'a[2]' accessed at index 2, which is out of bounds.", b"Variable 'x' is assigned a value that is never used.",
         b"Uninitialized variable: p", b"#error \"unsupported\"", b"Memory leak: buf", b"%d in format string (no. 1) requires 'int'",
         b"Condition 'x<0' is always false", b"syntax error", b"Expression 'a && b' depends on order of evaluation"]
IDS = [b"nullPointer", b"arrayIndexOutOfBounds", b"unreadVariable", b"uninitvar", b"preprocessorErrorDirective", b"memleak", b"syntaxError",
       b"misra-c2012-10.4", b"premium-cert-exp34-c", b"knownConditionTrueFalse", b"unknownMacro", b"checkersReport"]
FILES = [b"a.c", b"src/main.cpp", b"lib/token.cpp", b"/nonexistent-c26/include/stdio.h", b"test dir/file one.c", b"x.h", b"C:/proj/a.c"]
HOSTILE_XML = [b"<", b">", b"&", b'"', b"'", b"&amp;", b"&#10;", b"]]>", b"<!--", b"<a b='c'>", b"&lt;"]
CTRL = [bytes([c]) for c in (1, 2, 7, 8, 11, 12, 14, 27, 31, 127)]
WS = [b"\t", b"\n", b"\r", b"\r\n", b"  "]
UTF8 = ["é".encode(), "日本".encode(), "ß".encode(), "\U0001f600".encode(), "\u00a0".encode(), "\ufffd".encode()]
BADUTF8 = [b"\xe9", b"\xff", b"\xc0\xaf", b"\xed\xa0\x80", b"\x80", b"\xc3", b"\xe2\x82", b"\xf4\x90\x80\x80", b"\xef\xbf\xbe", b"\xef\xbf\xbf", b"caf\xe9"]
MARKERS = [b"{line}", b"{file}", b"{column}", b"{id}", b"{message}", b"{severity}", b"{callstack}", b"{code}", b"{remark}", b"{cwe}", b"{info}",
           b"{inconclusive:x}", b"{inconclusive:", b"{", b"}", b"{}", b"{foo}", b"{{line}}"]
ESCAPES = [b"\\n", b"\\t", b"\\r", b"\\b", b"\\\\", b"\\", b"\\x", b"\\0"]


def gen_bytes(rng, cls, base):
    """a string of class `cls` around the plain text `base`"""
    if cls == "plain":
        return base
    pool = dict(xml=HOSTILE_XML, ctrl=CTRL, ws=WS, utf8=UTF8, badutf8=BADUTF8, marker=MARKERS, escape=ESCAPES, nul=[b"\0"])[cls]
    parts = [base[:len(base) // 2], base[len(base) // 2:]]
    out = b""
    mode = rng.randrange(4)
    ins = rng.choice(pool)
    if mode == 0:
        out = ins + base
    elif mode == 1:
        out = base + ins
    elif mode == 2:
        out = parts[0] + ins + parts[1]
    else:
        out = parts[0] + ins + rng.choice(pool) + parts[1] + rng.choice(pool)
    return out


CLASSES = ["plain", "xml", "ctrl", "ws", "utf8", "badutf8", "marker", "escape", "nul"]


def rand_raw(rng):
    n = rng.choice([1, 2, 3, 5, 8])
    return bytes(rng.randrange(256) for _ in range(n))


def fix_file(b):
    """keep file names fixpoints of Path::simplifyPath (the model takes mFileName as given)"""
    b = b.replace(b"\\", b"_")
    while b"//" in b:
        b = b.replace(b"//", b"/")
    b = b.replace(b"./", b"_/").replace(b"/..", b"/__")
    if b.endswith(b"/."):
        b = b[:-1] + b"_"
    return b


def gen_finding(rng, res=None, profile=None):
    """profile: clean (raw fields plain / valid utf-8), msg (hostile bytes only where cppcheck sanitises), raw (anywhere)"""
    profile = profile or rng.choice(["clean", "clean", "msg", "msg", "msg", "raw", "raw"])

    def pick(base, allowed):
        cls = rng.choice(allowed)
        if res is not None:
            res.count("string-class:" + cls)
        if rng.random() < 0.04:
            return rand_raw(rng) if "ctrl" in allowed else base
        return gen_bytes(rng, cls, base)
    hostile = CLASSES
    mild = ["plain", "plain", "utf8", "marker", "escape", "xml"]       # allowed in raw fields of clean/msg profiles
    rawcls = hostile if profile == "raw" else (["plain", "plain", "utf8"] if profile == "clean" else mild)
    msgcls = ["plain", "plain", "utf8", "xml"] if profile == "clean" else hostile
    f = dict(profile=profile)
    f["id"] = pick(rng.choice(IDS), rawcls if profile == "raw" else ["plain", "plain", "plain", "marker"] if profile == "msg" else ["plain"])
    f["guideline"] = pick(b"c2012-10.4", rawcls) if rng.random() < 0.12 else b""
    f["classification"] = pick(rng.choice([b"Required", b"Advisory", b"L1"]), rawcls) if rng.random() < 0.12 else b""
    f["sev"] = rng.choice([1, 1, 2, 3, 3, 4, 5, 6, 7, 0])
    f["cwe"] = rng.choice([0, 0, 398, 476, 788, 65535, 1])
    f["hash"] = rng.choice([0, 0, 0, 1, 2, 12345678901234567, 18446744073709551615])
    f["inc"] = 1 if rng.random() < 0.3 else 0
    f["file0"] = fix_file(pick(rng.choice(FILES), rawcls)) if rng.random() < 0.4 else b""
    f["short"] = pick(rng.choice(WORDS), msgcls)
    f["verbose"] = f["short"] if rng.random() < 0.5 else pick(rng.choice(WORDS) + b" Extra detail.", msgcls)
    nsym = rng.choice([0, 0, 0, 1, 1, 2, 3])
    syms = [pick(rng.choice([b"x", b"buf", b"Foo::bar", b"operator<", b"a[2]"]), [c for c in rawcls if c != "ws"] + (["ws"] if profile == "raw" else []))
            for _ in range(nsym)]
    f["symbols"] = b"".join(s + b"\n" for s in syms)
    if syms and rng.random() < 0.2:
        f["symbols"] = f["symbols"][:-1]
    f["remark"] = pick(b"justified: see ticket 12", msgcls) if rng.random() < 0.15 else b""
    nloc = rng.choice([0, 1, 1, 1, 2, 2, 3])
    locs = []
    for _ in range(nloc):
        file = fix_file(pick(rng.choice(FILES), rawcls))
        orig = file if rng.random() < 0.8 else pick(rng.choice(FILES), rawcls)
        line = rng.choice([1, 3, 17, 256, 100000, 0, -1, -5]) if rng.random() < 0.9 else rng.randrange(1, 5000)
        col = rng.choice([0, 1, 2, 7, 40, 120])
        info = pick(rng.choice([b"Assignment 'p=0', assigned value is 0", b"Calling function 'f'", b"Null pointer dereference"]), msgcls) if rng.random() < 0.6 else b""
        locs.append((file, orig, line, col, info))
    f["locs"] = locs
    return f


def finding_wire(f):
    s = "%s %s %s %d %d %d %d %s %s %s %s %s %d" % (core.hx(f["id"]), core.hx(f["guideline"]), core.hx(f["classification"]), f["sev"], f["cwe"], f["hash"],
                                                    f["inc"], core.hx(f["file0"]), core.hx(f["short"]), core.hx(f["verbose"]), core.hx(f["symbols"]),
                                                    core.hx(f["remark"]), len(f["locs"]))
    for (file, orig, line, col, info) in f["locs"]:
        s += " %s %s %d %d %s" % (core.hx(file), core.hx(orig), line, col, core.hx(info))
    return s


def finding_json(f):
    d = dict(f)
    for k in ("id", "guideline", "classification", "file0", "short", "verbose", "symbols", "remark"):
        d[k] = f[k].hex()
    d["locs"] = [[l[0].hex(), l[1].hex(), l[2], l[3], l[4].hex()] for l in f["locs"]]
    return d


def finding_unjson(d):
    f = dict(d)
    for k in ("id", "guideline", "classification", "file0", "short", "verbose", "symbols", "remark"):
        f[k] = bytes.fromhex(d[k])
    f["locs"] = [(bytes.fromhex(l[0]), bytes.fromhex(l[1]), l[2], l[3], bytes.fromhex(l[4])) for l in d["locs"]]
    return f


def interesting(f):
    plain = re.compile(rb"^[A-Za-z0-9 ._/-]*$")
    return any(not plain.match(v) for v in (f["id"], f["short"], f["verbose"], f["symbols"], f["remark"], f["file0"]) + tuple(l[0] for l in f["locs"]))


LITS = [b": ", b" ", b":", b",", b" [", b"]", b"(", b")", b"\n", b" - ", b"error: ", b"}", b"}}", b"\t", b"\r\n", b"\r", b"%", b"$", b"\\n"]


def gen_template(rng, fields, hostile=False):
    n = rng.choice([1, 2, 3, 4, 5, 6, 8])
    out = b""
    nmark = 0
    for _ in range(n):
        k = rng.random()
        if k < 0.5:
            out += b"{" + rng.choice(fields).encode() + b"}"
            nmark += 1
        elif k < 0.6 and "id" in fields:
            out += b"{inconclusive:" + rng.choice([b"inconclusive:", b", inconclusive", b"", b" (inc) ", b"a:b"]) + b"}"
            nmark += 1
        elif k < 0.66:
            out += b"{" + rng.choice([b"foo", b"info", b"bold", b"Line", b"", b"id "]) + b"}"
        else:
            out += rng.choice(LITS)
        if hostile and rng.random() < 0.25:
            out += rng.choice([b"{", b"{inconclusive:", b"{{id}line}", b"{inconclusive:{id}}", b"{inconclusive:a{b}"])
    return out or b"{message}", nmark


# ---- the check ------------------------------------------------------------------------------------------------

def run_pair(ctx, exe, drv, ops, env=None):
    rc, impl, err = core.run_lines(exe, [], ops, timeout=900, env=env)
    if len(impl) != len(ops):
        raise core.CheckBroken("C26 harness produced %d lines for %d ops (rc=%s): %s" % (len(impl), len(ops), rc, err[-500:]))
    rc, model, err = core.run_lines(drv, [], ops, timeout=900)
    if len(model) != len(ops):
        raise core.CheckBroken("C26 driver produced %d lines for %d ops (rc=%s): %s" % (len(model), len(ops), rc, err[-500:]))
    return impl, model


def classify_xml(f):
    """known class of XML infidelity: an unsanitised field holds bytes XML cannot carry"""
    return None if raw_ok(f) else "xml-raw-field-bytes"


def classify_text(f, verbose, tf, tl):
    """known class of text infidelity (F10): a field value holds a '{' (a marker of a field substituted later is rewritten)"""
    vals = field_values(f, verbose) + (loc_values(f) if tl and len(f["locs"]) >= 2 else [])
    if any(b"{" in v for v in vals):
        return "template-marker-in-field"
    return None


def classify_sarif(fs, doc):
    try:
        doc.decode("utf-8")
    except UnicodeDecodeError:
        if any(not is_utf8_plain(v) for f in fs if f["locs"] for v in [f["id"], f["short"]] + [l[0] for l in f["locs"]]):
            return "sarif-non-utf8-bytes"
    return None


def is_utf8_plain(b):
    try:
        b.decode("utf-8")
        return True
    except UnicodeDecodeError:
        return False


def check_xml_case(res, f, impl_doc, model_line, where):
    """P_impl for one toXML output + reader-model vs expat cross-check"""
    toks = model_line.split(" ")
    mwf, mrawok, mrt, mcanon = toks[1] == "wf=1", toks[2] == "rawok=1", toks[3] == "rt=1", toks[4]
    got = expat_read(impl_doc)
    want = expected_xml(f)
    # R: reader model vs expat (on the real output)
    ewf = got is not None
    if ewf != mwf or (ewf and isinstance(got, tuple) and len(got) == 3 and canon_xerr(got) != mcanon):
        res.oblig("R:xml-reader-model-vs-expat", False, "correspondence",
                  "%s: expat wf=%s model wf=%s\nexpat: %s\nmodel: %s\ndoc: %r" % (where, ewf, mwf, canon_xerr(got) if ewf and len(got) == 3 else got, mcanon, impl_doc[:400]))
    if mrawok != raw_ok(f):
        res.oblig("R:rawok-twin", False, "correspondence", "%s: Lean RawOK=%s python raw_ok=%s finding=%s" % (where, mrawok, raw_ok(f), finding_json(f)))
    ok = ewf and len(got) == 3 and canon_xerr(got) == canon_xerr(want)
    if ok != mrt:
        res.oblig("R:roundtrip-verdict-twin", False, "correspondence", "%s: model round trip=%s, expat-based=%s" % (where, mrt, ok))
    res.count("xml:wf" if ewf else "xml:not-wf")
    if ok:
        probs = rng_problems(got)
        if probs:
            key = classify_rng(probs)
            if key and key.startswith("premise:"):
                res.count("rng:outside-premise(id not an NCName / severity none)")
            else:
                res.count("rng:violation:" + str(key))
                res.violation("XML output does not conform to cppcheck-errors.rng: %s" % "; ".join(probs[:4]),
                              dict(kind="xml", finding=finding_json(f), output=impl_doc.hex(), problems=probs), concrete=True, key=key)
        else:
            res.count("rng:conforms")
    if not ok:
        key = classify_xml(f)
        what = ("XML output of a finding is %s: %s" % ("not well-formed" if not ewf else "well-formed but does not carry the finding's fields",
                                                      impl_doc[:300]))
        res.violation(what, dict(kind="xml", finding=finding_json(f), output=impl_doc.hex(), expected=canon_xerr(want),
                                 got=(canon_xerr(got) if ewf and len(got) == 3 else str(got))), concrete=True, key=key)
        res.count("xml:violation:" + str(key))
    return ok


def check_text_case(res, f, verbose, tf, tl, impl_out, where):
    if not template_wf(tf) or not template_wf(tl):
        res.count("text:template-outside-premise")
        return None
    want = spec_render(f, verbose, tf, tl)
    if impl_out == want:
        res.count("text:ok")
        return True
    key = classify_text(f, verbose, tf, tl)
    res.count("text:violation:" + str(key))
    res.violation("text output differs from the simultaneous substitution of the fields: template %r got %r expected %r" % (tf, impl_out[:300], want[:300]),
                  dict(kind="text", finding=finding_json(f), verbose=verbose, template=tf.hex(), location=tl.hex(), output=impl_out.hex(), expected=want.hex()),
                  concrete=True, key=key)
    return False


def check_sarif_case(res, fs, doc, where):
    want = [f for f in fs if f["locs"]]
    try:
        j = json.loads(doc.decode("utf-8"))      # strict UTF-8 (json.loads(bytes) would let encoded surrogates pass)
    except (UnicodeDecodeError, ValueError) as ex:
        key = classify_sarif(fs, doc)
        res.count("sarif:violation:" + str(key))
        res.violation("SARIF output is not valid JSON (%s)" % type(ex).__name__, dict(kind="sarif", findings=[finding_json(f) for f in fs], output=doc.hex()),
                      concrete=True, key=key)
        return False
    ok = True
    why = ""
    try:
        run = j["runs"][0]
        rs = run["results"]
        if j["version"] != "2.1.0" or len(j["runs"]) != 1 or len(rs) != len(want):
            ok, why = False, "result count %d for %d located findings" % (len(rs), len(want))
        for r, f in zip(rs, want):
            exp = dict(ruleId=f["id"].decode("utf-8"), text=f["short"].decode("utf-8"), level=sarif_level(f),
                       locs=[(l[0].decode("utf-8"), max(l[2], 1), max(l[3], 1)) for l in f["locs"]])
            gotr = dict(ruleId=r["ruleId"], text=r["message"]["text"], level=r["level"],
                        locs=[(l["physicalLocation"]["artifactLocation"]["uri"], l["physicalLocation"]["region"]["startLine"],
                               l["physicalLocation"]["region"]["startColumn"]) for l in r["locations"]])
            if exp != gotr:
                ok, why = False, "result %r != expected %r" % (gotr, exp)
            if (f["hash"] != 0) != ("partialFingerprints" in r) or (f["hash"] and r["partialFingerprints"]["hash/v1"] != str(f["hash"])):
                ok, why = False, "fingerprint"
        rules = run["tool"]["driver"]["rules"]
        ids = []
        for f in want:
            if f["id"] not in ids:
                ids.append(f["id"])
        if [r["id"] for r in rules] != [i.decode("utf-8") for i in ids]:
            ok, why = False, "rules %r" % [r["id"] for r in rules]
    except (KeyError, IndexError, TypeError) as ex:
        ok, why = False, "shape: %r" % ex
    if ok:
        res.count("sarif:ok")
        if len(want) != len(fs):
            res.count("sarif:unlocated-findings-dropped", len(fs) - len(want))
    else:
        res.count("sarif:violation:None")
        res.violation("SARIF output does not carry the located findings: " + why, dict(kind="sarif", findings=[finding_json(f) for f in fs], output=doc.hex()),
                      concrete=True, key=None)
    return ok


def check_hang(ctx, res, exe, op, case, findings):
    """an op the model predicts not to return: give the real code 2 s"""
    try:
        r = subprocess.run([exe], input=(op + "\n").encode(), stdout=subprocess.PIPE, stderr=subprocess.PIPE, timeout=2)
        res.oblig("correspondence:C3:toString-no-return", False, "correspondence", "the model predicts that toString does not return, the real code printed %r for op %s" % (r.stdout[:200], op[:300]))
        return False
    except subprocess.TimeoutExpired:
        (i, vb, tf, tl, origin) = case
        res.violation("ErrorMessage::toString does not return for the template %r (unterminated {inconclusive: at offset 0 once the earlier passes are done)" % tf,
                      dict(kind="hang", template=tf.hex(), location=tl.hex(), verbose=vb, finding=finding_json(findings[i]) if findings else None),
                      concrete=True, key="template-unterminated-inconclusive-hang")
        return True


SRC_FILES = {
    b"a.c": b"int main(void)\n{\n\tint *p = 0;   \n    *p = 1;\t// deref\n  return 0;\r\n}\n",
    b"dir/b b.h": b"#define X(a) \\\n  ((a) + 1)\n\n\tstruct S { int x; };\nlast line without newline",
}


def code_cases(ctx, res, drv, exe, templates, thorough):
    """C3c: toString with {code} on findings whose display path differs from the path of the file (as -rp / setfile make it):
    the files exist only under origFile.  Real code (reads the files) == model (srcOf: line of the ORIGINAL file) == python spec."""
    rng = ctx.rng
    root = os.path.join(ctx.tmp, "srcroot").encode()
    for name, content in SRC_FILES.items():
        os.makedirs(os.path.dirname(os.path.join(root, name)), exist_ok=True)
        open(os.path.join(root, name), "wb").write(content)
    tpls = [(tf, tl) for (tf, tl, o) in templates if b"{code}" in tf or b"{code}" in tl]
    tpls += [(b"{code}", b"{code}"), (b"{file}:{line}:{column}: {message}\n{code}", b"{file}:{line}: note: {info}\n{code}"), (b"{code}|{code}\r\n", b"")]
    ops, mops, meta = [], [], []
    for _ in range(400 if thorough else 60):
        f = gen_finding(rng, None, "clean")
        nloc = rng.choice([1, 1, 2, 3])
        locs = []
        for _k in range(nloc):
            name = rng.choice(sorted(SRC_FILES))
            nlines = SRC_FILES[name].count(b"\n") + 1
            line = rng.choice([1, 2, 3, 4, 5, nlines, nlines + 3, 0])
            orig = os.path.join(root, name)
            disp = rng.choice([name, b"rel/" + name, b"nonexistent-" + name, orig])
            locs.append((fix_file(disp), orig, line, rng.choice([0, 1, 2, 5, 9]), rng.choice([b"", b"note text"])))
        f["locs"] = locs
        tf, tl = rng.choice(tpls)
        vb = rng.randrange(2)
        trip = []
        for (d, o, l, c, i) in locs:
            t = (o, l, read_code_line(o, l))
            if t not in trip:
                trip.append(t)
        ops.append("str %d %d %s %s %s" % (BRK[0], vb, core.hx(tf), core.hx(tl), finding_wire(f)))
        mops.append("strc %d %d %s %s %d%s %s" % (BRK[0], vb, core.hx(tf), core.hx(tl), len(trip),
                                                   "".join(" %s %d %s" % (core.hx(o), l, core.hx(t)) for (o, l, t) in trip), finding_wire(f)))
        meta.append((f, vb, tf, tl))
    rc, impl, err = core.run_lines(exe, [], ops, timeout=600)
    rc, model, err = core.run_lines(drv, [], mops, timeout=600)
    keep = [k for k in range(len(ops)) if k < len(impl) and impl[k] != "premise"]
    core.correspond(ctx, res, "C3c:toString-code-field(origFile != display file)", [mops[k] for k in keep], [impl[k] for k in keep], [model[k] for k in keep],
                    nontrivial=lambda op, out: True)
    for k in keep:
        f, vb, tf, tl = meta[k]
        if impl[k].startswith("throw") or not template_wf(tf) or not template_wf(tl):
            continue
        want = spec_render(f, vb, tf, tl, b"/")
        got = core.unhx(impl[k])
        if got != want:
            key = classify_text(f, vb, tf, tl)
            res.count("code:violation:" + str(key))
            res.violation("the {code} field does not show the source line of the file the finding points at (display path %r, file %r): got %r expected %r"
                          % (f["locs"][-1][0], f["locs"][-1][1], got[:300], want[:300]),
                          dict(kind="code", finding=finding_json(f), verbose=vb, template=tf.hex(), location=tl.hex(), files={k2.hex(): v.hex() for k2, v in SRC_FILES.items()},
                               output=got.hex(), expected=want.hex()), concrete=True, key=key)
        else:
            res.count("code:ok")


def rp_code_scenario(ctx, res):
    """CLI: the binary run from another working directory with -rp=<project>: every {code} line + caret == the real source line / column"""
    proj = os.path.join(ctx.tmp, "rpproj")
    work = os.path.join(ctx.tmp, "rpwork")
    os.makedirs(os.path.join(proj, "src"), exist_ok=True)
    os.makedirs(work, exist_ok=True)
    srcp = os.path.join(proj, "src", "np.c")
    open(srcp, "w").write("void f(void)\n{\n\tint *p = 0;   \n    *p = 1;\n}\n")
    for name, targs in (("explicit", [b"--template=@@{file}|{line}|{column}|{id}\\n{code}", b"--template-location=@@{file}|{line}|{column}|note\\n{code}"]), ("default", [])):
        rc, out, err = cli_run(ctx, [b"-q", b"-rp=" + proj.encode()] + targs + [srcp.encode()], work)
        lines = err.split(b"\n")
        n = bad = 0
        detail = b""
        i = 0
        while i < len(lines):
            m = re.match(rb"^@@([^|]+)\|(\d+)\|(\d+)\|", lines[i]) if name == "explicit" else re.match(rb"^([^:]+):(\d+):(\d+): ", lines[i])
            if not m:
                i += 1
                continue
            f, ln, col = m.group(1), int(m.group(2)), int(m.group(3))
            code = lines[i + 1] if i + 1 < len(lines) else b"<missing>"
            caret = lines[i + 2] if i + 2 < len(lines) else b"<missing>"
            i += 3
            n += 1
            want_code = read_code_line(os.path.join(proj.encode(), f), ln)
            want_caret = b" " * (max(col, 1) - 1) + b"^"
            if code != want_code or caret != want_caret:
                bad += 1
                detail = b"%s:%d:%d shows %r / %r, the source line is %r / %r" % (f, ln, col, code, caret, want_code, want_caret)
        res.case("cli:rp-code:" + name, True, dict(tie="P_impl:cli", op="cd <other dir>; cppcheck -q -rp=<proj> %s <proj>/src/np.c" % b" ".join(targs).decode(), impl="%d code fields, %d wrong" % (n, bad), model="-"))
        res.count("cli:rp-code-fields", n)
        if n < 2:
            res.oblig("cli:rp-code-scenario-produces-findings", False, "machinery", "the -rp {code} scenario (%s templates) printed %d code fields: %r" % (name, n, err[:300]))
        if bad:
            res.violation("cli -rp (%s templates): %d of %d {code} fields do not show the source line the finding points at: %s" % (name, bad, n, detail.decode("latin-1")),
                          dict(kind="cli-rp-code", templates=name, output=err.hex()), concrete=True, key=None)


def corpus_cases():
    p = os.path.join(core.VERIF, "corpus", "C26", "cases.json")
    return json.load(open(p)) if os.path.exists(p) else []


def run(ctx, res):
    import time
    rng = ctx.rng
    thorough = ctx.tier == "thorough"
    res.assumptions.extend(ASSUMPTIONS)
    t0 = time.time()
    phases = res.extra.setdefault("phase_seconds", {})

    def mark(name):
        nonlocal t0
        phases[name] = round(time.time() - t0, 1)
        t0 = time.time()
    # ---- translators (fail closed) -------------------------------------------------------------------------
    info = None
    try:
        info = translate(ctx)
        res.oblig("T1:tinyxml2-entity-table-extracted", True, "translation", "%d entities, range %d, restricted %r" % (len(info["entities"]), info["range"], info["restricted"]))
        res.oblig("T2:predefined-templates-extracted", True, "translation", "%d templates" % len(info["templates"]))
        res.oblig("T4:rng-grammar-extracted", True, "translation", "elements %s" % sorted(info["rng"]))
    except (Unrecognised, OSError, ET.ParseError) as ex:
        res.oblig("T:translators", False, "translation", "unrecognised shape: %s" % ex)
    if info:
        RNG.clear(); RNG.update(info["rng"])
        # the guarded loop (fix 3652a18) is the model of record: the unguarded shape is reported, never silently modelled
        BRK[0] = 1
        res.oblig("T5:toString-inconclusive-loop-guarded", bool(info["brk"]), "translation",
                  "" if info["brk"] else "ErrorMessage::toString: the {inconclusive: loop has no `if (pos2 == std::string::npos) break;` guard "
                  "(an unterminated marker at offset 0 makes toString loop forever, F26f)")
    try:
        calls, bad = extract_readcode_accessor()
        res.oblig("T6:code-field-reads-getOrigFile", not bad, "translation",
                  "" if not bad else "readCode is called with %s (the model reads loc.origFile: `srcOf`)" % bad)
    except Unrecognised as ex:
        res.oblig("T6:code-field-reads-getOrigFile", False, "translation", str(ex))
    mark("translate")
    core.prove(ctx, res, MODULES, THEOREMS)
    mark("prove")
    drv = ctx.driver("drv_c26")
    # VERIF_C26_HARNESS: a harness linked against a hand-mutated copy of an anchored source file (mutation experiments
    # of docs/C26.md, tools in corpus/C26/mutate.py); never set in a normal run
    exe = os.environ.get("VERIF_C26_HARNESS") or ctx.harness("c26")
    TOOLS["drv"], TOOLS["exe"] = drv, exe
    mark("driver+harness")
    try:
        CRITICAL.update(extract_critical())
    except Unrecognised:
        pass

    # ---- corpus first: witnesses of the known findings and past disagreements ------------------------------------
    for c in corpus_cases():
        if c.get("kind") == "cli":
            continue        # replayed by the CLI tier
        r = replay_case(ctx, res, drv, exe, c)
        res.count("corpus:%s:%s" % (c.get("name", "?"), "still-fails" if r else "passes"))

    # ---- T3: tables compared exhaustively ---------------------------------------------------------------------
    try:
        crit = extract_critical()
        CRITICAL.update(crit)
        rc, out, err = core.run_lines(drv, [], ["crit"])
        res.oblig("T3:critical-error-ids", out and out[0].split(" ") == crit, "translation", "source %s\nmodel %s" % (crit, out))
    except Unrecognised as ex:
        res.oblig("T3:critical-error-ids", False, "translation", str(ex))
    ops = []
    for c in range(256):
        b = bytes([c])
        ops += ["fix " + core.hx(b), "toxml " + core.hx(b), "fix " + core.hx(b"a" + b + b"b"), "toxml " + core.hx(b"a" + b + b"b")]
        if c:
            ops += ["ps 0 " + core.hx(b"a" + b + b"b"), "ps 1 " + core.hx(b"a" + b + b"b")]
    ops += ["ps 0 " + core.hx(b"ab\0cd"), "ps 1 " + core.hx(b"\0"), "ps 0 -", "fix -", "toxml -"]
    impl, model = run_pair(ctx, exe, drv, ops)
    core.correspond(ctx, res, "T3:single-byte-tables(fixInvalidChars,toxml,PrintString)", ops, impl, model, nontrivial=lambda op, out: True)

    mark("corpus+tables")
    # ---- findings ----------------------------------------------------------------------------------------------
    nf = 6000 if thorough else 260
    findings = [gen_finding(rng, res) for _ in range(nf)]
    ncorp = 0
    rc, vout, err = core.run_lines(exe, [], ["version"])
    version = vout[0]

    # C1: toXML
    ops = ["xml " + finding_wire(f) for f in findings]
    impl, model = run_pair(ctx, exe, drv, ops)
    keep = [i for i in range(len(ops)) if impl[i] != "premise"]
    res.count("outside-premise:simplifyPath-changes-file", len(ops) - len(keep))
    core.correspond(ctx, res, "C1:toXML", [ops[i] for i in keep], [impl[i] for i in keep], [model[i].split(" ")[0] for i in keep],
                    nontrivial=lambda op, out: True)
    # the non-triviality rule is applied here (correspond counts every op; re-register precisely)
    for i in keep:
        f = findings[i]
        res.case("xmlcase|" + ops[i], interesting(f), None)
        res.count("profile:" + f.get("profile", "corpus"))
        res.count("locations:%d" % len(f["locs"]))
        if impl[i].startswith("throw") or model[i] == "bad-op":
            continue
        check_xml_case(res, f, core.unhx(impl[i]), model[i], "finding %d" % i)

    # R: reader model vs expat on mutated documents (model wf => expat wf and same content)
    docs = [core.unhx(impl[i]) for i in keep if not impl[i].startswith("throw")]
    muts = []
    for d in rng.sample(docs, min(len(docs), 1500 if thorough else 60)):
        for _ in range(3):
            b = bytearray(d)
            k = rng.randrange(4)
            pos = rng.randrange(len(b))
            if k == 0:
                b[pos] = rng.choice(b"<>&\"'/= \n\t\r;#x") if rng.random() < 0.7 else rng.randrange(256)
            elif k == 1:
                del b[pos:pos + rng.choice([1, 1, 2, 5])]
            elif k == 2:
                b[pos:pos] = rng.choice([b"&lt;", b"&amp", b"&#65;", b" x='1'", b" id=\"dup\"", b"<symbol>s</symbol>", b"<location/>", b"</error>", b"<!-- c -->", b"]]>", b"\r\n", b"\xc3\xa9", b"\xe9"])
            else:
                b = b[:pos]
            muts.append(bytes(b))
    ops = ["rdxml " + core.hx(m) for m in muts]
    rc, mout, err = core.run_lines(drv, [], ops, timeout=900)
    bad = []
    for m, o in zip(muts, mout):
        try:
            e = ET.fromstring(m)
            ewf = True
        except ET.ParseError:
            ewf = False
        mwf = o.startswith("wf=1")
        res.count("reader-mutants:model-%s/expat-%s" % ("wf" if mwf else "no", "wf" if ewf else "no"))
        if mwf and not ewf:
            bad.append((m, o))
        elif mwf and ewf:
            # same element/attribute content
            evs = o.split(" ")[1:]
            opens = [x for x in evs if x.startswith("O:")]
            want = []
            for el in e.iter():
                want.append("O:%s:%s" % (el.tag, ",".join("%s=%s" % (k, core.hx(v.encode("utf-8"))) for k, v in el.attrib.items()) or "-"))
            if opens != want:
                bad.append((m, o, want))
    res.oblig("R:xml-reader-model-sound-on-mutants", not bad, "correspondence", "" if not bad else "model accepts / reads differently from expat: %r" % (bad[0],))
    res.extra["reader_mutants"] = len(muts)

    mark("xml")
    # ---- C2/C3: templates --------------------------------------------------------------------------------------
    tpls = []
    if info:
        for name, (tf, tl) in sorted(info["templates"].items()):
            tpls.append((tf.encode("latin-1"), (tl or "").encode("latin-1"), "predefined:" + name))
    ops = []
    raw_t = []
    for tf, tl, origin in tpls:
        for t in (tf, tl):
            for er in (0, 1):
                raw_t.append((t, er, 0))
    for _ in range(400 if thorough else 25):
        t, _n = gen_template(rng, FIELDS + ["bold", "reset", "red", "dim", "magenta", "default", "green", "blue"], hostile=rng.random() < 0.3)
        t = t.replace(b"\n", b"\\n").replace(b"\t", b"\\t") + rng.choice([b"", b"\\", b"\\b", b"{reset"])
        raw_t.append((t, rng.randrange(2), 0))
    ops = ["static %d 0 %s" % (er, core.hx(t)) for t, er, _ in raw_t]
    impl, model = run_pair(ctx, exe, drv, ops)
    core.correspond(ctx, res, "C2:substituteTemplateFormatStatic(no-colours)", ops, impl, model, nontrivial=lambda op, out: True)
    static_out = {}
    for (t, er, _), o in zip(raw_t, impl):
        static_out[(t, er)] = core.unhx(o)
    opsc = ["static %d 1 %s" % (er, core.hx(t)) for t, er, _ in raw_t]
    implc, modelc = run_pair(ctx, exe, drv, opsc, env={"CLICOLOR_FORCE": "1"})
    core.correspond(ctx, res, "C2:substituteTemplateFormatStatic(CLICOLOR_FORCE)", opsc, implc, modelc, nontrivial=lambda op, out: True)

    cases = []          # (finding index, verbose, tf, tl, origin)
    final_tpls = []
    for tf, tl, origin in tpls:
        final_tpls.append((static_out[(tf, 1)], static_out[(tl, 1)], origin))
    for _ in range(800 if thorough else 50):
        tf, nm = gen_template(rng, FIELDS, hostile=rng.random() < 0.12)
        tl = b"" if rng.random() < 0.5 else gen_template(rng, LOCFIELDS, hostile=rng.random() < 0.1)[0]
        final_tpls.append((tf, tl, "generated"))
    for i in range(ncorp, len(findings)):
        if i not in keep:
            continue
        for _ in range(3 if thorough else 2):
            tf, tl, origin = rng.choice(final_tpls)
            cases.append((i, rng.randrange(2), tf, tl, origin))
    ops = ["str %d %d %s %s %s" % (BRK[0], vb, core.hx(tf), core.hx(tl), finding_wire(findings[i])) for (i, vb, tf, tl, origin) in cases]
    # the model says where the real toString would not return (F26f): those ops never reach the harness stream
    rc, pre, err = core.run_lines(drv, [], ops, timeout=900)
    hang = [k for k in range(len(ops)) if k < len(pre) and pre[k] == "hang"]
    res.count("text:model-predicts-no-return", len(hang))
    for k in hang[:1]:
        check_hang(ctx, res, exe, ops[k], cases[k], findings)
    live = [k for k in range(len(ops)) if k not in set(hang)]
    ops = [ops[k] for k in live]
    cases = [cases[k] for k in live]
    impl, model = run_pair(ctx, exe, drv, ops)
    keep2 = [k for k in range(len(ops)) if impl[k] != "premise"]
    core.correspond(ctx, res, "C3:toString", [ops[k] for k in keep2], [impl[k] for k in keep2], [model[k] for k in keep2], nontrivial=lambda op, out: True)
    for k in keep2:
        (i, vb, tf, tl, origin) = cases[k]
        res.case("textcase|" + ops[k], interesting(findings[i]) or len(TOK.findall(tf)) >= 2, None)
        res.count("template:" + origin.split(":")[0])
        if impl[k].startswith("throw"):
            continue
        check_text_case(res, findings[i], vb, tf, tl, core.unhx(impl[k]), "case %d" % k)

    code_cases(ctx, res, drv, exe, final_tpls, thorough)
    mark("text")
    # ---- C4: SARIF ---------------------------------------------------------------------------------------------------
    groups = []
    for _ in range(1500 if thorough else 40):
        n = rng.choice([0, 1, 2, 3, 5])
        profile = rng.choice(["clean", "clean", "msg", "raw"])
        g = [gen_finding(rng, None, profile) for _ in range(n)]
        if n >= 2 and rng.random() < 0.6:
            g[-1]["id"] = g[0]["id"]          # rule dedup
        if n and rng.random() < 0.3:
            g[0]["id"] = rng.choice([b"syntaxError", b"preprocessorErrorDirective", b"internalAstError"])
        groups.append(g)
    ops = ["sarif %s %d%s" % (version, len(g), "".join(" " + finding_wire(f) for f in g)) for g in groups]
    impl, model = run_pair(ctx, exe, drv, ops)
    keep3 = [k for k in range(len(ops)) if impl[k] != "premise"]
    core.correspond(ctx, res, "C4:SarifReport::serialize", [ops[k] for k in keep3], [impl[k] for k in keep3], [model[k] for k in keep3], nontrivial=lambda op, out: True)
    for k in keep3:
        res.case("sarifcase|" + ops[k], any(interesting(f) for f in groups[k]), None)
        if impl[k].startswith("throw"):
            continue
        check_sarif_case(res, groups[k], core.unhx(impl[k]), "group %d" % k)
    # J: the model's strict JSON reader (the one `sarif_document` is about) on the REAL documents == python json
    jops = ["jparse " + impl[k] for k in keep3 if not impl[k].startswith("throw")]
    rc, jout, err = core.run_lines(drv, [], jops, timeout=900)
    jbad = []
    for op, o in zip(jops, jout):
        doc = core.unhx(op.split(" ")[1])
        try:
            j = json.loads(doc.decode("utf-8"))
        except (UnicodeDecodeError, ValueError):
            res.count("json-reader:python-rejects(non-utf8)/model-%s" % ("accepts" if o.startswith("json=1") else "rejects"))
            if not o.startswith("json=1"):
                jbad.append((doc[:200], o))       # byte-level grammar must still hold
            continue
        want = []
        for r in j["runs"][0]["results"]:
            locs = r["locations"]
            want.append("%s %s %s %d%s" % (core.hx(r["ruleId"].encode("utf-8")), core.hx(r["message"]["text"].encode("utf-8")), r["level"], len(locs),
                                            "".join(" %s %d %d" % (core.hx(l["physicalLocation"]["artifactLocation"]["uri"].encode("utf-8")),
                                                                   l["physicalLocation"]["region"]["startLine"], l["physicalLocation"]["region"]["startColumn"]) for l in locs)))
        exp = ("json=1 " + " ; ".join(want)).rstrip() if want else "json=1 "
        res.count("json-reader:both-accept")
        if o.rstrip() != exp.rstrip():
            jbad.append((exp[:300], o[:300]))
    res.oblig("J:json-reader-model-vs-python-json", not jbad, "correspondence", "" if not jbad else "model reader and python json differ on a real SARIF document: %r" % (jbad[0],))
    res.traces_validated += len(jops) - len(jbad)

    mark("sarif")
    cli_tier(ctx, res, thorough)
    mark("cli")


def err_finding(fname, line, text):
    """the finding cppcheck reports for `#error <text>` in column 1 of line `line` of file `fname`"""
    msg = b"#error " + text
    return dict(profile="cli", id=b"preprocessorErrorDirective", guideline=b"", classification=b"", sev=1, cwe=0, hash=0, inc=0, file0=b"",
                short=msg, verbose=msg, symbols=b"", remark=b"", locs=[(fname, fname, line, 2, b"")])


CLI_TEXT_POOL = [b"see {file} at {line}:{column}", b"<>&\"' tag", b"caf\xe9 latin1", b"utf8 \xc3\xa9\xe6\x97\xa5", b"ctl \x01\x02 x", b"{message} {id} {callstack}",
                 b"plain text", b"back\\nslash \\t", b"{inconclusive:x} {", b"a  b\tc", b"]]> <!-- x -->", b"{code}{severity}"]
CLI_TEMPLATES = [b"{file}:{line}:{column}: {severity}:{inconclusive:inconclusive:} {message} [{id}]", b"{file}:{line}:{message}", b"{file}:{line}: {message}\\n{code}", b"{id}", b"{message}",
                 b"{callstack}: ({severity}) {message}", b"{file},{line},{severity},{id},{message}", b"{line}|{column}|{cwe}|{remark}|{message}|{file}"]


def run_lines_cwd(exe, lines, cwd):
    r = subprocess.run([exe], cwd=cwd, input=("\n".join(lines) + "\n").encode(), stdout=subprocess.PIPE, stderr=subprocess.PIPE, timeout=300)
    out = r.stdout.decode().split("\n")
    if out and out[-1] == "":
        out.pop()
    return out


def cli_run(ctx, args, cwd):
    r = subprocess.run([ctx.cppcheck] + args, cwd=cwd, stdout=subprocess.PIPE, stderr=subprocess.PIPE, timeout=300)
    return r.returncode, r.stdout, r.stderr


def cli_case(ctx, res, case):
    """one CLI scenario: files with one `#error` each (or given verbatim), one output mode.
    Ties the StdLogger model (duplicate filter keyed by the text rendering + the writers) to the real binary and evaluates
    P_impl on what the binary printed.  Returns True when the property fails on this scenario."""
    drv, exe = TOOLS.get("drv") or ctx.driver("drv_c26"), TOOLS.get("exe") or ctx.harness("c26")
    TOOLS["drv"], TOOLS["exe"] = drv, exe        # built once per run (every ctx.driver call queues for the lake lock)
    d = os.path.join(ctx.tmp, "cli_%d" % ctx.rng.getrandbits(40))
    os.makedirs(d)
    names = []
    fs = []
    for (name_hex, line, text_hex) in case["files"]:
        name, text = bytes.fromhex(name_hex), bytes.fromhex(text_hex)
        os.makedirs(os.path.dirname(os.path.join(d.encode(), name)), exist_ok=True)
        with open(os.path.join(d.encode(), name), "wb") as fh:
            fh.write(b"\n" * (line - 1) + b"#error " + text + b"\n")
        names.append(name)
        fs.append(err_finding(name, line, text))
    for (name_hex, content_hex) in case.get("extra", []):
        with open(os.path.join(d.encode(), bytes.fromhex(name_hex)), "wb") as fh:
            fh.write(bytes.fromhex(content_hex))
    if "cmdline" in case:        # files named on the command line / findings expected, when they differ from `files`
        names = [bytes.fromhex(x) for x in case["cmdline"]]
        fs = [err_finding(bytes.fromhex(n), l, bytes.fromhex(t)) for (n, l, t) in case["findings"]]
    mode = case["mode"]
    tf_raw = bytes.fromhex(case.get("template", "")) or None
    args = [b"-q"]
    if tf_raw is not None:
        args.append(b"--template=" + tf_raw)
    if mode == "xml":
        args.append(b"--xml")
    elif mode == "sarif":
        args.append(b"--output-format=sarif")
    rc, out, err = cli_run(ctx, args + names, d)
    # the templates the run uses (static part substituted by the real code, no colours: stderr is a pipe)
    if tf_raw is None:
        tf_raw = DEFAULT_TPL[0]
        tl_raw = DEFAULT_TPL[1]
    else:
        tl_raw = b""
    rcx, so, _ = core.run_lines(exe, [], ["static 0 0 " + core.hx(tf_raw), "static 0 0 " + core.hx(tl_raw), "hdr 2", "version"])
    tf, tl = core.unhx(so[0]), core.unhx(so[1])
    hdr, ftr = [core.unhx(x) for x in so[2].split(" ")]
    version = so[3]
    # model: which findings reach the writer
    op = "std %d 0 %s %s %d%s" % (BRK[0], core.hx(tf), core.hx(tl), len(fs), "".join(" " + finding_wire(f) for f in fs))
    rcm, mo, _ = core.run_lines(drv, [], [op])
    kept_idx = [int(x) for x in mo[0].split("|")[0].split()]
    kept = [fs[i] for i in kept_idx]
    fails = False
    where = "cli:%s:%s" % (case.get("name", "?"), mode)
    if mode == "text":
        ops = ["str %d 0 %s %s %s" % (BRK[0], core.hx(tf), core.hx(tl), finding_wire(f)) for f in kept]
        io = run_lines_cwd(exe, ops, d) if ops else []      # in the scenario directory: {code} reads the same files
        expect = b"".join(core.unhx(x) + b"\n" for x in io)
        res.oblig("C5:%s" % where, err == expect, "correspondence", "" if err == expect else "binary printed %r, StdLogger model + toString give %r" % (err[:400], expect[:400]))
        res.case(where + "|" + op, True, dict(tie="C5:cli", op=case.get("name"), impl=repr(err[:120]), model=repr(expect[:120])))
        # P_impl: every finding of the run rendered exactly once, as the simultaneous substitution of the fields
        if template_wf(tf):
            for f in fs:
                want = spec_render(f, 0, tf, tl, d) + b"\n"
                n = (b"\n" + err).count(b"\n" + want) if want.strip() else 1
                if n != 1:
                    key = classify_text(f, 0, tf, tl)
                    if key is None and len(set(spec_render(g, 0, tf, tl, d) for g in fs)) < len(fs):
                        continue        # two findings with the same documented text: printed once by design
                    fails = True
                    res.violation("%s: the finding %r is rendered %d times as documented (output %r)" % (where, f["short"], n, err[:300]),
                                  dict(case), concrete=True, key=key)
    elif mode == "xml":
        ops = ["xml " + finding_wire(f) for f in kept]
        rci, io, _ = core.run_lines(exe, [], ops) if ops else (0, [], "")
        expect = hdr + b"\n" + b"".join(core.unhx(x) + b"\n" for x in io) + ftr + b"\n"
        res.oblig("C5:%s" % where, err == expect, "correspondence", "" if err == expect else "binary printed %r, model composition gives %r" % (err[:600], expect[:600]))
        res.case(where + "|" + op, True, None)
        # P_impl: the document parses, carries one <error> per distinct finding with the documented fields, validates against the rng
        try:
            root = ET.fromstring(err)
            got = []
            for e in root.iter("error"):
                got.append(canon_xerr(([(k, v.encode("utf-8")) for k, v in e.attrib.items()],
                                       [[(k, v.encode("utf-8")) for k, v in c.attrib.items()] for c in e if c.tag == "location"],
                                       [(c.text or "").encode("utf-8") for c in e if c.tag == "symbol"])))
            want = []
            for f in fs:
                c = canon_xerr(expected_xml(f))
                if c not in want:
                    want.append(c)
            if sorted(got) != sorted(want):
                dropped = len(set(canon_xerr(expected_xml(f)) for f in fs)) > len(kept)
                key = "xml-raw-field-bytes" if any(classify_xml(f) for f in fs) else ("xml-dedup-by-text" if dropped else None)
                fails = True
                res.violation("%s: the XML report does not carry the findings of the run: got %s expected %s" % (where, got, want), dict(case), concrete=True, key=key)
            else:
                xp = os.path.join(d, "out.xml")
                open(xp, "wb").write(err)
                r = subprocess.run(["xmllint", "--noout", "--relaxng", os.path.join(core.REPO, "cppcheck-errors.rng"), xp], stdout=subprocess.PIPE, stderr=subprocess.PIPE, text=True)
                res.count("cli:xmllint-rng:%s" % ("valid" if r.returncode == 0 else "invalid"))
                if r.returncode != 0:
                    fails = True
                    res.violation("%s: the XML report does not validate against cppcheck-errors.rng: %s" % (where, r.stderr[:300]), dict(case), concrete=True, key=None)
        except ET.ParseError as ex:
            fails = True
            key = "xml-raw-field-bytes" if any(classify_xml(f) for f in fs) else None
            res.violation("%s: the XML report is not well-formed (%s): %r" % (where, ex, err[:300]), dict(case), concrete=True, key=key)
    else:
        op2 = "sarif %s %d%s" % (version, len(kept), "".join(" " + finding_wire(f) for f in kept))
        rci, io, _ = core.run_lines(exe, [], [op2])
        expect = core.unhx(io[0]) + b"\n"
        res.oblig("C5:%s" % where, err == expect, "correspondence", "" if err == expect else "binary printed %r, model composition gives %r" % (err[:400], expect[:400]))
        res.case(where + "|" + op, True, None)
        distinct = []
        for f in fs:
            if f not in distinct:
                distinct.append(f)
        if len(kept) < len(distinct):
            fails = True
            res.violation("%s: %d distinct findings, %d reach the SARIF report (duplicate filter keyed by the text rendering %r)" % (where, len(distinct), len(kept), tf),
                          dict(case), concrete=True, key="xml-dedup-by-text")
        if not check_sarif_case(res, kept, err, where):
            fails = True
    res.count("cli:" + mode)
    return fails


DEFAULT_TPL = [b"", b""]
TOOLS = {}


def rp_scenario(ctx, res):
    """F26d on the real binary: `-rp` makes toXML write origfile=, which the shipped schema rejects (xmllint)"""
    d = os.path.join(ctx.tmp, "cli_rp")
    os.makedirs(d, exist_ok=True)
    open(os.path.join(d, "np.c"), "w").write("void f(void){ int *p = 0; *p = 1; }\n")
    rc, out, err = cli_run(ctx, [b"-q", b"--xml", b"-rp=" + d.encode(), os.path.join(d, "np.c").encode()], d)
    xp = os.path.join(d, "out.xml")
    open(xp, "wb").write(err)
    r = subprocess.run(["xmllint", "--noout", "--relaxng", os.path.join(core.REPO, "cppcheck-errors.rng"), xp], stdout=subprocess.PIPE, stderr=subprocess.PIPE, text=True)
    res.case("cli:rp-origfile", True, dict(tie="P_impl:xmllint", op="cppcheck -q --xml -rp=<dir> <dir>/np.c", impl=r.stderr[:160], model="-"))
    if b"origfile=" not in err:
        res.oblig("cli:rp-scenario-produces-origfile", False, "machinery", "the -rp scenario no longer produces an origfile attribute: %r" % err[:300])
        return
    if r.returncode != 0:
        msgs = [l for l in r.stderr.split("\n") if "validity error" in l]
        key = "xml-rng-schema-lag" if msgs and all("Invalid attribute origfile" in m for m in msgs) else None
        res.violation("cli:rp: the XML report does not validate against cppcheck-errors.rng: %s" % "; ".join(msgs[:2]),
                      dict(kind="cli-rp", output=err.hex()), concrete=True, key=key)
    res.count("cli:xmllint-rng:%s" % ("valid" if r.returncode == 0 else "invalid"))


def cli_tier(ctx, res, thorough):
    rng = ctx.rng
    if DEFAULT_TPL[0] == b"":
        info = extract_templates()
        DEFAULT_TPL[0] = info["default"][0].encode("latin-1")
        DEFAULT_TPL[1] = (info["default"][1] or "").encode("latin-1")
    h = lambda b: b.hex()
    cases = [c for c in corpus_cases() if c.get("kind") == "cli"]
    # duplicate filter: the same finding through two translation units; two findings one text
    inc = [[h(b"a.c"), h(b'#include "h.h"\n')], [h(b"b.c"), h(b'#include "h.h"\n')]]
    for mode in ("text", "xml", "sarif"):
        cases.append(dict(kind="cli", name="dup-same-finding", mode=mode, files=[[h(b"h.h"), 3, h(b"dup")]], extra=inc, cmdline=[h(b"a.c"), h(b"b.c")],
                          findings=[[h(b"h.h"), 3, h(b"dup")], [h(b"h.h"), 3, h(b"dup")]], **(dict(template=h(b"{file}:{line}:{message}")) if mode == "text" else {})))
    cases.append(dict(kind="cli", name="same-text-template-id", mode="text", template=h(b"{id}"), files=[[h(b"a.c"), 1, h(b"A")], [h(b"b.c"), 1, h(b"B")]]))
    cases.append(dict(kind="cli", name="same-text-template-id", mode="sarif", template=h(b"{id}"), files=[[h(b"a.c"), 1, h(b"A")], [h(b"b.c"), 1, h(b"B")]]))
    cases.append(dict(kind="cli", name="plain", mode="xml", files=[[h(b"a.c"), 2, h(b"plain <text> & more")], [h(b"dir name/b c.c"), 1, h(b"x")]]))
    cases.append(dict(kind="cli", name="plain", mode="sarif", files=[[h(b"a.c"), 2, h(b"plain \"text\" \\ / \x01")]]))
    n = 60 if thorough else 9
    for _ in range(n):
        k = rng.choice([1, 2, 2, 3])
        files = []
        for j in range(k):
            name = rng.choice([b"a%d.c", b"sp ace%d.c", b"q'%d.c", b"amp&%d.c", b"u\xc3\xa9%d.c", b"{line}%d.c"]) % j
            files.append([h(name), rng.choice([1, 2, 7]), h(rng.choice(CLI_TEXT_POOL))])
        mode = rng.choice(["text", "text", "xml", "sarif"])
        c = dict(kind="cli", name="generated", mode=mode, files=files)
        if mode == "text" or rng.random() < 0.3:
            c["template"] = h(rng.choice(CLI_TEMPLATES))
        cases.append(c)
    for c in cases:
        cli_case(ctx, res, c)
    rp_scenario(ctx, res)
    rp_code_scenario(ctx, res)


def replay_case(ctx, res, drv, exe, rp):
    """re-run one stored case on the real code (P_impl + correspondence of that case); True = the property still fails on it"""
    kind = rp.get("kind")
    if kind == "xml":
        f = finding_unjson(rp["finding"])
        ops = ["xml " + finding_wire(f)]
        impl, model = run_pair(ctx, exe, drv, ops)
        core.correspond(ctx, res, "corpus:toXML:" + rp.get("name", ""), ops, impl, [model[0].split(" ")[0]])
        nv = len(res.violations)
        ok = check_xml_case(res, f, core.unhx(impl[0]), model[0], "corpus")
        return (not ok) or len(res.violations) > nv
    if kind == "text":
        f = finding_unjson(rp["finding"])
        tf, tl, vb = bytes.fromhex(rp["template"]), bytes.fromhex(rp.get("location", "")), rp.get("verbose", 0)
        ops = ["str %d %d %s %s %s" % (BRK[0], vb, core.hx(tf), core.hx(tl), finding_wire(f))]
        impl, model = run_pair(ctx, exe, drv, ops)
        core.correspond(ctx, res, "corpus:toString:" + rp.get("name", ""), ops, impl, model)
        return check_text_case(res, f, vb, tf, tl, core.unhx(impl[0]), "corpus") is False
    if kind == "hang":
        f = finding_unjson(rp["finding"])
        tf, tl, vb = bytes.fromhex(rp["template"]), bytes.fromhex(rp.get("location", "")), rp.get("verbose", 0)
        op = "str %d %d %s %s %s" % (BRK[0], vb, core.hx(tf), core.hx(tl), finding_wire(f))
        rc, mo, _ = core.run_lines(drv, [], [op])
        if mo[0] == "hang":
            return check_hang(ctx, res, exe, op, (0, vb, tf, tl, "corpus"), [f])
        impl, model = run_pair(ctx, exe, drv, [op])
        core.correspond(ctx, res, "corpus:toString:" + rp.get("name", ""), [op], impl, model)
        return False
    if kind == "sarif":
        fs = [finding_unjson(x) for x in rp["findings"]]
        rc, vout, err = core.run_lines(exe, [], ["version"])
        ops = ["sarif %s %d%s" % (vout[0], len(fs), "".join(" " + finding_wire(f) for f in fs))]
        impl, model = run_pair(ctx, exe, drv, ops)
        core.correspond(ctx, res, "corpus:sarif:" + rp.get("name", ""), ops, impl, model)
        return not check_sarif_case(res, fs, core.unhx(impl[0]), "corpus")
    raise core.CheckBroken("corpus/replay case of unknown kind %r" % kind)


def replay_code(ctx, res, exe, rp):
    root = os.path.join(ctx.tmp, "srcroot").encode()
    f = finding_unjson(rp["finding"])
    # the stored paths point into the temp dir of the original run: re-create the files under the same names
    for (d, o, l, c, i) in f["locs"]:
        for name, content in rp["files"].items():
            if o.endswith(bytes.fromhex(name)):
                os.makedirs(os.path.dirname(o), exist_ok=True)
                open(o, "wb").write(bytes.fromhex(content))
    tf, tl, vb = bytes.fromhex(rp["template"]), bytes.fromhex(rp["location"]), rp["verbose"]
    rc, impl, err = core.run_lines(exe, [], ["str %d %d %s %s %s" % (BRK[0], vb, core.hx(tf), core.hx(tl), finding_wire(f))])
    want = spec_render(f, vb, tf, tl, b"/")
    ok = core.unhx(impl[0]) == want
    if not ok:
        res.violation("the {code} field does not show the source line: got %r expected %r" % (core.unhx(impl[0])[:200], want[:200]), rp, concrete=True, key=classify_text(f, vb, tf, tl))
    return not ok


def replay(ctx, res, rp):
    """re-run one stored case on the real code; 1 = still fails"""
    drv = ctx.driver("drv_c26")
    exe = ctx.harness("c26")
    try:
        info = translate(ctx)
        RNG.clear(); RNG.update(info["rng"])
        BRK[0] = 1
        CRITICAL.update(extract_critical())
    except Unrecognised:
        pass
    r2 = core.Result(ctx, LEVEL)
    if rp.get("kind") == "cli":
        if DEFAULT_TPL[0] == b"":
            t = extract_templates()
            DEFAULT_TPL[0], DEFAULT_TPL[1] = t["default"][0].encode("latin-1"), (t["default"][1] or "").encode("latin-1")
        fails = cli_case(ctx, r2, rp)
    elif rp.get("kind") == "cli-rp-code":
        rp_code_scenario(ctx, r2)
        fails = bool(r2.violations)
    elif rp.get("kind") == "code":
        fails = replay_code(ctx, r2, exe, rp)
    elif rp.get("kind") == "cli-rp":
        rp_scenario(ctx, r2)
        fails = bool(r2.violations)
    else:
        fails = replay_case(ctx, r2, drv, exe, rp)
    for v in r2.violations:
        print("VIOLATION property=C26 replay=(replayed) key=%s %s" % (v["key"], v["what"][:300]))
    print("replay: %s" % ("still fails" if fails else "passes"))
    return 1 if fails else 0

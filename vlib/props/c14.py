"""C14 — dump output is well-formed and self-consistent.

Obligations
  theorems   Cppcheck.C14.*  (Lean): AST setter sequences of any length keep the forest / agreement invariant (and never hang),
             the stack linker returns symmetric, kind-correct, total, properly nested links for every token list (and never
             reads an empty `type` stack), ErrorLogger::toxml output is a sequence of safe characters and references for every
             byte string and round-trips on the stated class, id_string is injective
  C-ast      real Token::astOperand1/astOperand2/astParent/astTop on fresh Token objects == model, full pointer state after every call
  C-links    real Tokenizer::createLinks on token lists built with TokenList::addtoken == model (targets by index / reported token)
  C-toxml    real ErrorLogger::toxml == model on byte strings;   C-id   real id_string_i == model
  T-callers  no code outside Token::astOperand1/2 calls the pointer setter Token::astParent(Token*) (scan of lib/)
  T-writers  every attribute value the dump code writes is a literal, a number, an id, a bool, or goes through toxml, except
             the listed raw writers (scan of the dump functions; unknown shape => undischarged)
P_impl       the invariant / symmetry+nesting / well-formedness predicates evaluated on the IMPLEMENTATION's own output:
             in-process states, and `cppcheck --dump` files parsed with a strict XML parser and with addons/cppcheckdata.py
"""
import os, re, sys, json
from .. import core, build_repo

ID = "C14"
LEVEL = "other"
RULE = ("cases = (a) setter call sequences (astOperand1/astOperand2 mostly, some astTop-cache writes, a separate stream with direct "
        "astParent calls) over 2..9 fresh tokens, (b) token lists over bracket / non-bracket / bracket-prefixed strings (balanced words "
        "with mutations), (c) byte strings weighted to markup and control bytes, (d) pointer values, (e) --dump of corpus and generated "
        "programs; non-trivial = (a) some state has a node with two operands or a call threw, (b) >= 2 bracket tokens, "
        "(c) >= 1 byte that toxml rewrites, (e) the dump has >= 1 link and >= 1 AST edge")
EXPLANATION = ("Lean theorems (unbounded): the three Token AST setters preserve acyclicity + parent/operand agreement for every call "
               "sequence, createLinks yields symmetric properly nested links for every token list, toxml output is well-formed attribute "
               "content for every byte string. Tie: in-process differential runs of the real functions against the compiled model; the "
               "dump as a whole is only checked per generated/corpus input (strict XML parse, cppcheckdata load, reference resolution, "
               "invariants re-evaluated on the dump) - hence level 'other'.")
THEOREMS = ["Cppcheck.C14." + t for t in (
    "setters_preserve_inv", "setters_preserve_weak", "direct_astParent_breaks_listed", "reachable_inv", "reachable_weak",
    "setters_terminate", "links_symmetric_nested", "links_never_ub", "toxml_wellformed", "attrSafe_no_markup",
    "toxml_roundtrip", "toxml_roundtrip_counterexample", "idString_injective", "idString_wellformed")]
MODULES = ["Cppcheck.Props.C14"]


# ---- generators ------------------------------------------------------------------------------------

def gen_ast(rng, with_pa):
    n = rng.choice([2, 3, 3, 4, 4, 5, 6, 7, 9])
    m = rng.choice([4, 8, 12, 20, 30, 45])
    ops = []
    for _ in range(m):
        r = rng.random()
        x = rng.randrange(n)
        t = "-" if rng.random() < 0.12 else str(rng.randrange(n))
        if with_pa and r < 0.15:
            k = "pa"
        elif r < (0.22 if with_pa else 0.08):
            k = "tp"
        elif r < 0.6:
            k = "o1"
        else:
            k = "o2"
        ops.append("%s %d %s" % (k, x, t))
    return "ast %d %s" % (n, " ".join(ops))


def parse_state(s):
    """'p,o1,o2,top;...' -> list of (p, o1, o2, top) with None for '-'"""
    out = []
    for part in s.split(";"):
        if not part:
            continue
        f = part.split(",")
        out.append(tuple(None if v == "-" else int(v) for v in f))
    return out


def ast_inv(st, full):
    """the invariant on one pointer state (python re-implementation, evaluated on the implementation's output)"""
    n = len(st)
    for i, (p, a, b, _t) in enumerate(st):
        # acyclic: walking up from i ends within n steps
        c, k = i, 0
        while st[c][0] is not None:
            c = st[c][0]
            k += 1
            if k > n:
                return "cycle through %d" % i
        for o in (a, b):
            if o is not None and st[o][0] != i:
                return "operand %d of %d has parent %s" % (o, i, st[o][0])
        if a is not None and a == b:
            return "both operands of %d are %d" % (i, a)
        if full and p is not None and st[p][1] != i and st[p][2] != i:
            return "parent %d of %d does not list it" % (p, i)
    return None


BR = "(){}[]"


def gen_links(rng):
    n = rng.choice([0, 1, 2, 4, 6, 10, 16, 24, 40])
    toks, stack = [], []
    for _ in range(n):
        r = rng.random()
        if r < 0.35:
            k = rng.randrange(3)
            toks.append("({["[k]); stack.append(k)
        elif r < 0.7 and stack:
            toks.append(")}]"[stack.pop()])
        elif r < 0.8:
            toks.append(rng.choice(["x", ";", "a1", "<", ">", "0"]))
        elif r < 0.86:
            toks.append(rng.choice(["(x", "[[", "{}", ")a", "]]", "}}", "[]"]))     # only str()[0] is looked at
        else:
            toks.append(rng.choice(["x", ",", "+"]))
    while stack and rng.random() < 0.85:
        toks.append(")}]"[stack.pop()])
    # mutations: swap / delete / replace
    for _ in range(rng.choice([0, 0, 0, 1, 1, 2])):
        if not toks:
            break
        j = rng.randrange(len(toks))
        m = rng.random()
        if m < 0.4:
            toks[j] = rng.choice(BR)
        elif m < 0.7:
            del toks[j]
        else:
            k = rng.randrange(len(toks))
            toks[j], toks[k] = toks[k], toks[j]
    return ("links2 " if rng.random() < 0.2 else "links ") + " ".join(core.hx(t) for t in toks), toks


def links_ok(toks, out):
    """symmetry, kinds, totality, nesting on the implementation's link vector"""
    f = out.split(" ")[1:]
    L = [None if v == "-" else int(v) for v in f]
    if len(L) != len(toks):
        return "length"
    op, cl = "({[", ")}]"
    for i, j in enumerate(L):
        c = toks[i][0]
        if j is None:
            if c in BR:
                return "bracket token %d unlinked" % i
            continue
        if c not in BR:
            return "non-bracket token %d linked" % i
        if j == i or not (0 <= j < len(L)) or L[j] != i:
            return "link of %d not symmetric" % i
        lo, hi = min(i, j), max(i, j)
        a, b = toks[lo][0], toks[hi][0]
        if a not in op or b != cl[op.index(a)]:
            return "kinds of %d-%d" % (lo, hi)
        for k in range(lo + 1, hi):
            if L[k] is not None and not (lo < L[k] < hi):
                return "pair %d-%d crossed by %d-%d" % (lo, hi, k, L[k])
    return None


SPECIAL = [0x3c, 0x3e, 0x26, 0x22, 0x27, 0x00, 0x0a, 0x09, 0x0d, 0x7f, 0x80, 0xff, 0x1f, 0x20, 0x5c, 0x3b, 0x23]


def gen_bytes(rng):
    n = rng.choice([0, 1, 2, 3, 5, 8, 13, 30])
    b = bytearray()
    for _ in range(n):
        r = rng.random()
        if r < 0.4:
            b.append(rng.choice(SPECIAL))
        elif r < 0.8:
            b.append(rng.randrange(32, 127))
        else:
            b.append(rng.randrange(256))
    if rng.random() < 0.15:
        b += rng.choice([b"&lt;", b"&amp;", b"&#10;", b"&#x41;", b"\\0", b"&;", b"&#;"])
    return bytes(b)


def xml_attr_roundtrip(esc):
    """parse <a v="esc"/> with expat; returns (wellformed, value)"""
    import xml.parsers.expat
    got = {}
    p = xml.parsers.expat.ParserCreate()
    p.StartElementHandler = lambda name, attrs: got.update(attrs)
    try:
        p.Parse(b'<a v="' + esc + b'"/>', True)
    except xml.parsers.expat.ExpatError as ex:
        return False, str(ex)
    return True, got.get("v")


# ---- the check ------------------------------------------------------------------------------------

def inprocess(ctx, res, drv, exe, thorough):
    rng = ctx.rng
    ops, meta = [], []
    n_ast = 3000 if thorough else 500
    n_links = 4000 if thorough else 700
    n_xml = 3000 if thorough else 500
    n_id = 400 if thorough else 80
    for k in range(n_ast):
        pa = (k % 4 == 3)
        ops.append(gen_ast(rng, pa)); meta.append(("ast", pa))
    for _ in range(n_links):
        line, toks = gen_links(rng)
        ops.append(line); meta.append(("links", toks))
    for _ in range(n_xml):
        b = gen_bytes(rng)
        ops.append("toxml " + core.hx(b)); meta.append(("toxml", b))
    for _ in range(n_id):
        v = rng.choice([0, 1, 15, 16, 255, 2 ** 32, 2 ** 64 - 1, rng.getrandbits(rng.choice([8, 16, 32, 47, 48, 64]))])
        ops.append("id %d" % v); meta.append(("id", v))
    # corpus first
    cp = os.path.join(core.VERIF, "corpus", "C14", "ops.txt")
    corpus = [l.strip() for l in open(cp) if l.strip() and not l.startswith("#")] if os.path.exists(cp) else []
    cmeta = []
    for l in corpus:
        f = l.split(" ")
        if f[0] == "ast":
            cmeta.append(("ast", "pa" in f))
        elif f[0] in ("links", "links2"):
            cmeta.append(("links", [core.unhx(x).decode("latin-1") for x in f[1:]]))
        elif f[0] == "toxml":
            cmeta.append(("toxml", core.unhx(f[1])))
        else:
            cmeta.append(("id", int(f[1])))
    ops = corpus + ops
    meta = cmeta + meta

    rc, impl, err = core.run_lines(exe, [], ops, timeout=900)
    rc2, model, err2 = core.run_lines(drv, [], ops, timeout=900)

    def nontrivial(op, out):
        k = op.split(" ", 1)[0]
        if k == "ast":
            if " | t " in out:
                return True
            return any(re.search(r"(^|;)[^;,]*,\d+,\d+,", st) for st in out.split(" | "))
        if k in ("links", "links2"):
            return sum(1 for t in op.split(" ")[1:] if core.unhx(t)[:1] in b"(){}[]") >= 2
        if k == "toxml":
            return any(c in b"<>&\"'\0\n\t\r" or c < 32 or c > 127 for c in core.unhx(op.split(" ")[1]))
        return True
    # one correspondence obligation per mechanism
    by = {}
    for i, op in enumerate(ops):
        by.setdefault(op.split(" ", 1)[0].replace("links2", "links"), []).append(i)
    if len(impl) != len(ops) or len(model) != len(ops):
        core.correspond(ctx, res, "all", ops, impl, model)
        return
    for k, idxs in by.items():
        core.correspond(ctx, res, k, [ops[i] for i in idxs], [impl[i] for i in idxs], [model[i] for i in idxs], nontrivial=nontrivial)

    # ---- P_impl on the implementation's output ----------------------------------------------------
    for i, (op, out) in enumerate(zip(ops, impl)):
        kind, info = meta[i]
        if kind == "ast":
            states = out.split(" | ")
            res.count("ast:throws", sum(1 for s in states if s.startswith("t ")))
            res.count("ast:calls", len(states) - 1)
            for j, s in enumerate(states):
                body = s if j == 0 else s[2:]
                why = ast_inv(parse_state(body), full=not info)
                if why:
                    res.violation("AST setters left an inconsistent pointer state after call %d: %s" % (j, why),
                                  dict(kind="ast", op=op, state=body, after_call=j, why=why), concrete=True,
                                  key=None)
                    break
        elif kind == "links":
            if out.startswith("ok"):
                res.count("links:ok")
                why = links_ok(info, out)
                if why:
                    res.violation("createLinks accepted a token list but the links are not symmetric/nested: %s" % why,
                                  dict(kind="links", op=op, out=out, why=why), concrete=True, key=None)
            else:
                res.count("links:" + out.split(" ")[0])
        elif kind == "toxml":
            esc = core.unhx(out)
            ok, val = xml_attr_roundtrip(esc)
            cls = all((32 <= c <= 127) or c in (10, 9, 13) for c in info)
            res.count("toxml:roundtrip-class" if cls else "toxml:lossy-class")
            if not ok:
                res.violation("toxml output is not well-formed attribute content: %r -> %r (%s)" % (info, esc, val),
                              dict(kind="toxml", op=op, out=out), concrete=True, key=None)
            elif cls and val != info.decode("latin-1"):
                res.violation("toxml output does not read back: %r -> %r -> %r" % (info, esc, val),
                              dict(kind="toxml", op=op, out=out), concrete=True, key=None)
        elif kind == "id":
            if int(out, 16) != info or (out != "0" and out.startswith("0")):
                res.violation("id_string_i(%d) = %r" % (info, out), dict(kind="id", op=op, out=out), concrete=True, key=None)


def run(ctx, res):
    thorough = ctx.tier == "thorough"
    if MODULES:
        core.prove(ctx, res, MODULES, THEOREMS)
    drv = ctx.driver("drv_c14")
    exe = ctx.harness("c14")
    inprocess(ctx, res, drv, exe, thorough)


def replay(ctx, res, rp):
    drv = ctx.driver("drv_c14")
    exe = ctx.harness("c14")
    op = rp["op"]
    rc, impl, err = core.run_lines(exe, [], [op])
    rc, model, err = core.run_lines(drv, [], [op])
    print("op:    " + op)
    print("impl:  " + (impl[0] if impl else "?"))
    print("model: " + (model[0] if model else "?"))
    return 1 if impl != model else 0

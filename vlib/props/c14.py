"""C14 — dump output is well-formed and self-consistent.

Obligations
  theorems   Cppcheck.C14.*  (Lean): AST setter sequences of any length keep the forest / agreement invariant (and never hang),
             the stack linker returns symmetric, kind-correct, total, properly nested links for every token list (and never
             reads an empty `type` stack), ErrorLogger::toxml output is a sequence of safe characters and references for every
             byte string and round-trips on the stated class, id_string is injective
  C-ast      real Token::astOperand1/astOperand2/astParent/astTop on fresh Token objects == model, full pointer state after every call
  C-links    real Tokenizer::createLinks on token lists built with TokenList::addtoken == model (targets by index / reported token)
  C-toxml    real ErrorLogger::toxml == model on byte strings;   C-id   real id_string_i == model
  T-callers  no code outside Token::astOperand1/2 calls the pointer setter Token::astParent(Token*) (scan of lib/)
  T-writers  every attribute value the dump code writes is a literal, a number, an id, a bool, or goes through toxml, except
             the listed raw writers (scan of the dump functions; unknown shape => undischarged)
P_impl       the invariant / symmetry+nesting / well-formedness predicates evaluated on the IMPLEMENTATION's own output:
             in-process states, and `cppcheck --dump` files parsed with a strict XML parser and with addons/cppcheckdata.py
"""
import os, re, sys, json, zlib
from .. import core, build_repo
from . import c14_dump, c14_writers

ID = "C14"
LEVEL = "other"
RULE = ("cases = (a) setter call sequences (astOperand1/astOperand2 mostly, some astTop-cache writes, a separate stream with direct "
        "astParent calls) over 2..9 fresh tokens, (b) token lists over bracket / non-bracket / bracket-prefixed strings (balanced words "
        "with mutations), (c) byte strings weighted to markup and control bytes, (d) pointer values, (e) --dump of corpus and generated "
        "programs, (f) createMutualLinks / link(nullptr) sequences and integers; non-trivial = (a) some state has a node with two operands or a call threw, (b) >= 2 bracket tokens, "
        "(c) >= 1 byte that toxml rewrites, (e) the dump has >= 1 link and >= 1 AST edge")
EXPLANATION = ("Lean theorems (unbounded): the three Token AST setters preserve acyclicity + parent/operand agreement for every call "
               "sequence, createLinks yields symmetric properly nested links for every token list, toxml output is well-formed attribute "
               "content for every byte string. Tie: in-process differential runs of the real functions against the compiled model; the "
               "dump as a whole is only checked per generated/corpus input (strict XML parse, cppcheckdata load, reference resolution, "
               "invariants re-evaluated on the dump) - hence level 'other'. NOT proved: (1) links are proved at creation time only (later "
               "createMutualLinks/link(nullptr) writes: symmetry lemmas under preconditions, no theorem about the dumped vector); (2) reference "
               "resolution (every id attribute names exactly one element of the right kind in the same <dump>) has no theorem; (3) document "
               "well-formedness is not composed from the per-value theorems.")
THEOREMS = ["Cppcheck.C14." + t for t in (
    "setters_preserve_inv", "setters_preserve_weak", "direct_astParent_breaks_listed", "reachable_inv", "reachable_weak",
    "setters_terminate", "links_symmetric_nested", "links_never_ub", "links_accepted_iff_balanced", "toxml_wellformed", "attrSafe_no_markup",
    "toxml_roundtrip", "toxml_roundtrip_counterexample", "idString_injective", "idString_wellformed",
    "mutualLinks_preserve_symmetric", "clearPair_preserves_symmetric", "clearLink_alone_counterexample", "number_wellformed",
    "enum_wellformed")]
ASSUMPTIONS = [
    "links: the theorems describe the vector createLinks returns; later passes write links only through createMutualLinks / link(nullptr) "
    "(T-link-writers) but whether each later write meets the preconditions of mutualLinks_preserve_symmetric / clearPair_preserves_symmetric, "
    "and nesting of the dumped links, is checked per dump only",
    "references: 'every id reference resolves inside its <dump>' has no model and no theorem; it is evaluated on every dump of the run "
    "(31 reference kinds, T-refs keeps the list complete, T-var-refs guards the two Variable reference writers)",
    "document: per-value results (toxml_wellformed, idString_wellformed, number_wellformed, enum_wellformed) and the writer classification "
    "(T-writers) are not composed into a theorem about the whole file; floating point values (MathLib::toString(double)) are classified "
    "'number' without a lemma; expat per dump is the evidence for document well-formedness",
    "AST: run/trace continue after a throw (the harness catches and continues); real clients unwind and write no dump",
]
MODULES = ["Cppcheck.Props.C14"]


# ---- generators ------------------------------------------------------------------------------------

def gen_ast(rng, with_pa):
    n = rng.choice([2, 3, 4, 5, 6, 7, 9, 12, 16, 24])
    m = rng.choice([4, 8, 12, 20, 30, 45, 70])
    ops = []
    for _ in range(m):
        r = rng.random()
        x = rng.randrange(n)
        t = "-" if rng.random() < 0.12 else str(rng.randrange(n))
        if with_pa and r < 0.15:
            k = "pa"
        elif r < (0.22 if with_pa else 0.08):
            k = "tp"
        elif r < 0.6:
            k = "o1"
        else:
            k = "o2"
        ops.append("%s %d %s" % (k, x, t))
    return "ast %d %s" % (n, " ".join(ops))


def parse_state(s):
    """'p,o1,o2,top;...' -> list of (p, o1, o2, top) with None for '-'"""
    out = []
    for part in s.split(";"):
        if not part:
            continue
        f = part.split(",")
        out.append(tuple(None if v == "-" else int(v) for v in f))
    return out


def ast_inv(st, full):
    """the invariant on one pointer state (python re-implementation, evaluated on the implementation's output)"""
    n = len(st)
    for i, (p, a, b, _t) in enumerate(st):
        # acyclic: walking up from i ends within n steps
        c, k = i, 0
        while st[c][0] is not None:
            c = st[c][0]
            k += 1
            if k > n:
                return "cycle through %d" % i
        for o in (a, b):
            if o is not None and st[o][0] != i:
                return "operand %d of %d has parent %s" % (o, i, st[o][0])
        if a is not None and a == b:
            return "both operands of %d are %d" % (i, a)
        if full and p is not None and st[p][1] != i and st[p][2] != i:
            return "parent %d of %d does not list it" % (p, i)
    return None


BR = "(){}[]"


def gen_links(rng):
    n = rng.choice([0, 1, 2, 4, 6, 10, 16, 24, 40])
    toks, stack = [], []
    for _ in range(n):
        r = rng.random()
        if r < 0.35:
            k = rng.randrange(3)
            toks.append("({["[k]); stack.append(k)
        elif r < 0.7 and stack:
            toks.append(")}]"[stack.pop()])
        elif r < 0.8:
            toks.append(rng.choice(["x", ";", "a1", "<", ">", "0"]))
        elif r < 0.86:
            toks.append(rng.choice(["(x", "[[", "{}", ")a", "]]", "}}", "[]"]))     # only str()[0] is looked at
        else:
            toks.append(rng.choice(["x", ",", "+"]))
    while stack and rng.random() < 0.93:
        toks.append(")}]"[stack.pop()])
    # mutations: swap / delete / replace
    for _ in range(rng.choice([0, 0, 0, 0, 0, 1, 1, 2])):
        if not toks:
            break
        j = rng.randrange(len(toks))
        m = rng.random()
        if m < 0.4:
            toks[j] = rng.choice(BR)
        elif m < 0.7:
            del toks[j]
        else:
            k = rng.randrange(len(toks))
            toks[j], toks[k] = toks[k], toks[j]
    return ("links2 " if rng.random() < 0.2 else "links ") + " ".join(core.hx(t) for t in toks), toks


def py_balanced(toks):
    st = []
    for t in toks:
        c = t[0]
        if c in "({[":
            st.append(c)
        elif c in ")}]":
            if not st or "({[".index(st.pop()) != ")}]".index(c):
                return False
    return not st


def links_ok(toks, out):
    """symmetry, kinds, totality, nesting on the implementation's link vector"""
    f = out.split(" ")[1:]
    L = [None if v == "-" else int(v) for v in f]
    if len(L) != len(toks):
        return "length"
    op, cl = "({[", ")}]"
    for i, j in enumerate(L):
        c = toks[i][0]
        if j is None:
            if c in BR:
                return "bracket token %d unlinked" % i
            continue
        if c not in BR:
            return "non-bracket token %d linked" % i
        if j == i or not (0 <= j < len(L)) or L[j] != i:
            return "link of %d not symmetric" % i
        lo, hi = min(i, j), max(i, j)
        a, b = toks[lo][0], toks[hi][0]
        if a not in op or b != cl[op.index(a)]:
            return "kinds of %d-%d" % (lo, hi)
        for k in range(lo + 1, hi):
            if L[k] is not None and not (lo < L[k] < hi):
                return "pair %d-%d crossed by %d-%d" % (lo, hi, k, L[k])
    return None


SPECIAL = [0x3c, 0x3e, 0x26, 0x22, 0x27, 0x00, 0x0a, 0x09, 0x0d, 0x7f, 0x80, 0xff, 0x1f, 0x20, 0x5c, 0x3b, 0x23]


def gen_lnk(rng):
    """createMutualLinks / link(nullptr) sequences; disciplined = only the writes the symmetry lemmas cover
    (mutual on two distinct unlinked tokens, clear of both ends of a pair)"""
    n = rng.choice([2, 3, 4, 6, 8, 12])
    disciplined = rng.random() < 0.6
    link = {}
    ops = []
    for _ in range(rng.choice([1, 3, 6, 10, 16])):
        if disciplined:
            free = [i for i in range(n) if i not in link]
            if len(free) >= 2 and (rng.random() < 0.65 or not link):
                a, b = rng.sample(free, 2)
                ops.append("m %d %d" % (a, b)); link[a] = b; link[b] = a
            elif link:
                a = rng.choice(sorted(link)); b = link[a]
                ops.append("z %d -" % a); ops.append("z %d -" % b); del link[a]; del link[b]
        else:
            if rng.random() < 0.7:
                ops.append("m %d %d" % (rng.randrange(n), rng.randrange(n)))
            else:
                ops.append("z %d -" % rng.randrange(n))
    return "lnk %d %s" % (n, " ".join(ops)), disciplined


def gen_bytes(rng):
    n = rng.choice([0, 1, 2, 3, 5, 8, 13, 30])
    b = bytearray()
    for _ in range(n):
        r = rng.random()
        if r < 0.4:
            b.append(rng.choice(SPECIAL))
        elif r < 0.8:
            b.append(rng.randrange(32, 127))
        else:
            b.append(rng.randrange(256))
    if rng.random() < 0.15:
        b += rng.choice([b"&lt;", b"&amp;", b"&#10;", b"&#x41;", b"\\0", b"&;", b"&#;"])
    return bytes(b)


def xml_attr_roundtrip(esc):
    """parse <a v="esc"/> with expat; returns (wellformed, value)"""
    import xml.parsers.expat
    got = {}
    p = xml.parsers.expat.ParserCreate()
    p.StartElementHandler = lambda name, attrs: got.update(attrs)
    try:
        p.Parse(b'<a v="' + esc + b'"/>', True)
    except xml.parsers.expat.ExpatError as ex:
        return False, str(ex)
    return True, got.get("v")


# ---- the check ------------------------------------------------------------------------------------

def inprocess(ctx, res, drv, exe, thorough):
    rng = ctx.rng
    ops, meta = [], []
    n_ast = 3000 if thorough else 500
    n_links = 4000 if thorough else 700
    n_xml = 3000 if thorough else 500
    n_id = 400 if thorough else 80
    for k in range(n_ast):
        pa = (k % 4 == 3)
        ops.append(gen_ast(rng, pa)); meta.append(("ast", pa))
    for _ in range(n_links):
        line, toks = gen_links(rng)
        ops.append(line); meta.append(("links", toks))
    for _ in range(n_xml):
        b = gen_bytes(rng)
        ops.append("toxml " + core.hx(b)); meta.append(("toxml", b))
    for _ in range(n_id):
        v = rng.choice([0, 1, 15, 16, 255, 2 ** 32, 2 ** 64 - 1, rng.getrandbits(rng.choice([8, 16, 32, 47, 48, 64]))])
        ops.append("id %d" % v); meta.append(("id", v))
    for _ in range(1200 if thorough else 200):
        line, disc = gen_lnk(rng)
        ops.append(line); meta.append(("lnk", disc))
    for _ in range(600 if thorough else 100):
        v = rng.choice([0, 1, -1, 9, 10, -10, 2 ** 31, -2 ** 31, 2 ** 63 - 1, -2 ** 63, rng.randrange(-10 ** 6, 10 ** 6), rng.getrandbits(62) - 2 ** 61])
        ops.append("num %d" % v); meta.append(("num", v))
    # corpus first
    cp = os.path.join(core.VERIF, "corpus", "C14", "ops.txt")
    corpus = [l.strip() for l in open(cp) if l.strip() and not l.startswith("#")] if os.path.exists(cp) else []
    cmeta = []
    for l in corpus:
        f = l.split(" ")
        if f[0] == "ast":
            cmeta.append(("ast", "pa" in f))
        elif f[0] in ("links", "links2"):
            cmeta.append(("links", [core.unhx(x).decode("latin-1") for x in f[1:]]))
        elif f[0] == "toxml":
            cmeta.append(("toxml", core.unhx(f[1])))
        elif f[0] == "lnk":
            cmeta.append(("lnk", False))
        elif f[0] == "num":
            cmeta.append(("num", int(f[1])))
        else:
            cmeta.append(("id", int(f[1])))
    ops = corpus + ops
    meta = cmeta + meta

    rc, impl, err = core.run_lines(exe, [], ops, timeout=900)
    rc2, model, err2 = core.run_lines(drv, [], ops, timeout=900)

    def nontrivial(op, out):
        k = op.split(" ", 1)[0]
        if k == "ast":
            if " | t " in out:
                return True
            return any(re.search(r"(^|;)[^;,]*,\d+,\d+,", st) for st in out.split(" | "))
        if k in ("links", "links2"):
            return sum(1 for t in op.split(" ")[1:] if core.unhx(t)[:1] in b"(){}[]") >= 2
        if k == "toxml":
            return any(c in b"<>&\"'\0\n\t\r" or c < 32 or c > 127 for c in core.unhx(op.split(" ")[1]))
        if k == "lnk":
            return op.count(" m ") >= 2
        return True
    # one correspondence obligation per mechanism
    by = {}
    for i, op in enumerate(ops):
        by.setdefault(op.split(" ", 1)[0].replace("links2", "links"), []).append(i)
    if len(impl) != len(ops) or len(model) != len(ops):
        core.correspond(ctx, res, "all", ops, impl, model)
        return
    for k, idxs in by.items():
        core.correspond(ctx, res, k, [ops[i] for i in idxs], [impl[i] for i in idxs], [model[i] for i in idxs], nontrivial=nontrivial)

    # the reference reader `unescape` of the Lean model against a real XML parser (expat), on the escaped strings
    xops = [o for o in ops if o.startswith("toxml ")]
    rcx, xmodel, errx = core.run_lines(drv, [], ["toxmlx " + o.split(" ")[1] for o in xops], timeout=900)
    ximpl = []
    for o in xops:
        ok, val = xml_attr_roundtrip(core.unhx(impl[ops.index(o)]))
        ximpl.append(core.hx(val.encode("latin-1", "replace")) if ok and val is not None else "malformed")
    core.correspond(ctx, res, "reader-vs-expat", xops, ximpl, [m.split(" ")[1] if len(m.split(" ")) == 3 else m for m in xmodel],
                    nontrivial=lambda op, out: "26" in op.split(" ")[1] or nontrivial(op, out))
    del res.samples[8:]

    # ---- P_impl on the implementation's output ----------------------------------------------------
    for i, (op, out) in enumerate(zip(ops, impl)):
        kind, info = meta[i]
        if kind == "ast":
            states = out.split(" | ")
            res.count("ast:throws", sum(1 for s in states if s.startswith("t ")))
            res.count("ast:calls", len(states) - 1)
            for j, s in enumerate(states):
                body = s if j == 0 else s[2:]
                why = ast_inv(parse_state(body), full=not info)
                if why:
                    res.violation("AST setters left an inconsistent pointer state after call %d: %s" % (j, why),
                                  dict(kind="ast", op=op, state=body, after_call=j, why=why), concrete=True,
                                  key=None)
                    break
        elif kind == "links":
            if out.startswith("ok") != py_balanced(info):
                res.violation("createLinks %s a token list whose brackets are %sbalanced" %
                              ("accepted" if out.startswith("ok") else "rejected", "" if py_balanced(info) else "un"),
                              dict(kind="links", op=op, out=out, why="acceptance != balancedness"), concrete=True, key=None)
            if out.startswith("ok"):
                res.count("links:ok")
                why = links_ok(info, out)
                if why:
                    res.violation("createLinks accepted a token list but the links are not symmetric/nested: %s" % why,
                                  dict(kind="links", op=op, out=out, why=why), concrete=True, key=None)
            else:
                res.count("links:" + out.split(" ")[0])
        elif kind == "toxml":
            esc = core.unhx(out)
            ok, val = xml_attr_roundtrip(esc)
            cls = all((32 <= c <= 127) or c in (10, 9, 13) for c in info)
            res.count("toxml:roundtrip-class" if cls else "toxml:lossy-class")
            if not ok:
                res.violation("toxml output is not well-formed attribute content: %r -> %r (%s)" % (info, esc, val),
                              dict(kind="toxml", op=op, out=out), concrete=True, key=None)
            elif cls and val != info.decode("latin-1"):
                res.violation("toxml output does not read back: %r -> %r -> %r" % (info, esc, val),
                              dict(kind="toxml", op=op, out=out), concrete=True, key=None)
        elif kind == "lnk":
            res.count("lnk:disciplined" if info else "lnk:wild")
            if info and out != "-":
                last = [None if v == "-" else int(v) for v in out.split(" | ")[-1].split(",")]
                if any(j is not None and (j == i or last[j] != i) for i, j in enumerate(last)):
                    res.violation("createMutualLinks on unlinked tokens / clearing both ends of a pair left an asymmetric link vector: %s" % out[-120:],
                                  dict(kind="lnk", op=op, out=out), concrete=True, key=None)
        elif kind == "num":
            if not re.match(r"^-?[0-9]+$", out) or int(out) != info:
                res.violation("std::to_string(%d) = %r" % (info, out), dict(kind="num", op=op, out=out), concrete=True, key=None)
        elif kind == "id":
            if int(out, 16) != info or (out != "0" and out.startswith("0")):
                res.violation("id_string_i(%d) = %r" % (info, out), dict(kind="id", op=op, out=out), concrete=True, key=None)


# ---- translators ---------------------------------------------------------------------------------

def t_callers(ctx, res):
    """the pointer fields are written only inside the three setters, and astParent(Token*) is called only by astOperand1/2"""
    import glob
    bad, sites = [], 0
    for f in sorted(glob.glob(os.path.join(core.REPO, "lib", "*.cpp")) + glob.glob(os.path.join(core.REPO, "lib", "*.h")) +
                    glob.glob(os.path.join(core.REPO, "cli", "*.cpp")) + glob.glob(os.path.join(core.REPO, "frontend", "*.cpp"))):
        base = os.path.basename(f)
        src = c14_writers.strip_comments(open(f, encoding="utf-8", errors="replace").read())
        for m in re.finditer(r"\bastParent\s*\(\s*[^)\s]", src):
            line = src.count("\n", 0, m.start()) + 1
            text = src[src.rfind("\n", 0, m.start()) + 1:src.find("\n", m.start())].strip()
            sites += 1
            ok = (base == "token.cpp" and text in ("void Token::astParent(Token* tok)", "mImpl->mAstOperand1->astParent(nullptr);",
                                                   "mImpl->mAstOperand2->astParent(nullptr);", "tok->astParent(this);")) or \
                 (base == "token.h" and text == "void astParent(Token* tok);")
            if not ok:
                bad.append("%s:%d: %s" % (base, line, text))
        for m in re.finditer(r"\bmAst(Parent|Operand1|Operand2)\s*=[^=]", src):
            line = src.count("\n", 0, m.start()) + 1
            text = src[src.rfind("\n", 0, m.start()) + 1:src.find("\n", m.start())].strip()
            sites += 1
            ok = base == "token.cpp" and text in ("parent->mImpl->mAstOperand1 = nullptr;", "parent->mImpl->mAstOperand2 = nullptr;",
                                                  "mImpl->mAstParent = tok;", "mImpl->mAstOperand1 = tok;", "mImpl->mAstOperand2 = tok;")
            if not ok:
                bad.append("%s:%d: %s" % (base, line, text))
    res.extra["ast_pointer_write_sites"] = sites
    res.oblig("T-callers:ast-pointers-written-only-by-the-setters", not bad and sites >= 11, "translation",
              "" if not bad and sites >= 11 else "unexpected writer of an AST pointer / caller of astParent(Token*) (sites=%d): %s" % (sites, bad[:5]))
    return bad


def translate(ctx):
    """Gen/DumpEnums.lean: every literal the enum printers called by the dump code can return (enum_wellformed is proved over it)"""
    table, problems = c14_writers.scan_enums(core.REPO)
    if table and all(table.values()):
        ctx.write_gen("DumpEnums", c14_writers.gen_enums_text(table))
    return table, problems


LINK_DIRECT_OK = {
    ("token.h", "mLink = linkToToken;"), ("token.cpp", "mNext->mLink->mLink = this;"), ("token.cpp", "this->mLink->mLink = mNext;"),
    ("token.cpp", "std::swap(mLink, mNext->mLink);"), ("token.cpp", "mLink = fromToken->mLink;"),
}


def t_link_writers(ctx, res):
    """every write of Token::mLink is Token::link() (+ the swapWithNext / takeData moves inside token.cpp), and every call of
    link(x) in lib/ is `link(nullptr)`, one half of an adjacent mutual pair `a->link(b); b->link(a);`, or takeData's
    `mLink->link(this);` - so the link vector changes only by the operations of mutualLinks / clearLink (Model/Links.lean)"""
    import glob
    bad, n_mutual, n_clear, n_cml = [], 0, 0, 0
    for f in sorted(glob.glob(os.path.join(core.REPO, "lib", "*.cpp")) + glob.glob(os.path.join(core.REPO, "lib", "*.h"))):
        base = os.path.basename(f)
        src = c14_writers.strip_comments(open(f, encoding="utf-8", errors="replace").read())
        for m in re.finditer(r"\bmLink\s*=[^=]|std::swap\(mLink", src):
            text = src[src.rfind("\n", 0, m.start()) + 1:src.find("\n", m.start())].strip()
            if (base, text) not in LINK_DIRECT_OK:
                bad.append("%s:%d: direct write: %s" % (base, src.count("\n", 0, m.start()) + 1, text))
        n_cml += len(re.findall(r"\bcreateMutualLinks\s*\(", src))
        stmts = [(mm.start(), mm.group(1), mm.group(2).strip()) for mm in
                 re.finditer(r"^[ \t]*([\w>()\[\].\-]+?)(?:->|\.)link\(((?:[^()\n]|\([^()\n]*\))*)\);[ \t]*$", src, re.M)]
        k = 0
        while k < len(stmts):
            pos, recv, arg = stmts[k]
            line = src.count("\n", 0, pos) + 1
            if arg == "":
                k += 1; continue            # a read: tok->link()
            if arg == "nullptr":
                n_clear += 1; k += 1; continue
            if k + 1 < len(stmts) and stmts[k + 1][1] == arg and stmts[k + 1][2] == recv and \
                    src[pos:stmts[k + 1][0]].count(";") == 1:
                n_mutual += 1; k += 2; continue
            if base == "token.cpp" and recv == "mLink" and arg == "this":
                k += 1; continue            # Token::takeData
            bad.append("%s:%d: %s->link(%s) is neither a clear nor half of an adjacent mutual pair" % (base, line, recv, arg))
            k += 1
    res.extra["link_write_sites"] = dict(createMutualLinks_calls=n_cml, mutual_pairs=n_mutual, clears=n_clear)
    ok = not bad and n_cml >= 40 and n_mutual >= 20
    res.oblig("T-link-writers:links-written-only-by-mutual-pairs-and-clears", ok, "translation",
              "" if ok else "unexpected link writer (createMutualLinks calls=%d, pairs=%d): %s" % (n_cml, n_mutual, bad[:5]))


def t_var_refs(ctx, res):
    """the two places of SymbolDatabase::printXml that write a reference to a Variable are tied to the list <variables> is written from
    (F14b was a <varlist> entry without that tie)"""
    src = c14_writers.strip_comments(open(os.path.join(core.REPO, "lib", "symboldatabase.cpp"), encoding="utf-8", errors="replace").read())
    body = c14_writers.body_of(src, r"void\s+SymbolDatabase::printXml\s*\(std::ostream\s*&out\)\s*const\s*\{") or ""
    why = []
    m = re.search(r'"      <varlist>\\n";(.*?)"      </varlist>\\n";', body, re.S)
    if not m:
        why.append("<varlist> writer not found")
    else:
        w = re.sub(r"\s+", " ", m.group(1))
        if not re.search(r"if \(var->declarationId\(\) >= mVariableList\.size\(\) \|\| mVariableList\[var->declarationId\(\)\] != &\*var\) continue; outs \+= \" *<var id=", w):
            why.append("<varlist> entries are not guarded by membership in mVariableList")
    m = re.search(r'variable=\\"";\s*outs \+= id_string\(arg\);(.*?)\}', body, re.S)
    if not m or not re.search(r"\b(argVariables\.push_back|variables\.insert)\(arg\);", m.group(1)):
        why.append("<arg variable=...> does not record the argument for <variables>")
    if not re.search(r"for \(const Variable \*var : mVariableList\)", body) or not re.search(r"for \(const Variable \*arg : argVariables\)", body):
        why.append("<variables> is not assembled from mVariableList and the recorded arguments")
    if not re.search(r"seen\.insert\(var\)\.second", body):
        why.append("<variables> does not de-duplicate mVariableList (dup-id, c8541cd)")
    res.oblig("T-var-refs:variable-references-tied-to-the-variables-list", not why, "translation", "; ".join(why))


def t_enums(ctx, res):
    try:
        table, problems = translate(ctx)
    except Exception as ex:
        res.oblig("T-enums:enum-printers-return-literals-only", False, "translation", "scanner failed: %r" % ex)
        return
    res.extra["enum_printer_literals"] = {k: len(v) for k, v in table.items()}
    res.oblig("T-enums:enum-printers-return-literals-only", not problems and len(table) == len(c14_writers.ENUM_FUNCS), "translation",
              "; ".join(problems[:4]))


REF_ATTRS = set()      # attribute names the dump writers emit through id_string (filled by t_writers on every run)


def t_containers(ctx, res):
    """the <containers> section is written from a collection that cannot hold a container twice: a std::set, or a vector that is
    sorted before std::unique (fail closed; the ORDER of the elements is C29's matter, F29b)"""
    src = c14_writers.strip_comments(open(os.path.join(core.REPO, "lib", "tokenize.cpp"), encoding="utf-8", errors="replace").read())
    body = c14_writers.body_of(src, r"void\s+Tokenizer::dump\s*\(std::ostream\s*&out\)\s*const\s*\{") or ""
    why = []
    decl = re.search(r"std::(set|vector)<const Library::Container\s*\*>\s+containers;", body)
    nolit = re.sub(r'"(?:[^"\\]|\\.)*"', '""', body)
    uses = [re.sub(r"\s+", " ", u) for u in re.findall(r"\bcontainers\b[^;{]*[;{]", nolit)]
    if not decl:
        why.append("declaration of `containers` not recognised")
    elif decl.group(1) == "set":
        allowed = [r"^containers;$", r"^containers\.insert\(tok->valueType\(\)->container\);$", r"^containers\.erase\(nullptr\);$",
                   r"^containers\.empty\(\)\) \{$", r"^containers\) \{$"]
        for u in uses:
            if not any(re.match(a, u) for a in allowed):
                why.append("unrecognised use of the set: " + u[:80])
    else:
        flat = re.sub(r"\s+", " ", body)
        m = re.search(r"std::sort\(containers\.begin\(\), containers\.end\(\)[^;]*\); containers\.erase\(std::unique\(containers\.begin\(\), containers\.end\(\)\), containers\.end\(\)\);", flat)
        if not m:
            why.append("`containers` is a vector that is not de-duplicated by std::sort followed by erase(std::unique(...))")
    if not re.search(r"for \(const Library::Container\s*\* ?c ?: containers\)", body):
        why.append("<container> loop over `containers` not found")
    res.oblig("T-containers:containers-section-written-from-a-duplicate-free-collection", not why, "translation", "; ".join(why))


def t_writers(ctx, res):
    try:
        writers, unknown, missing = c14_writers.scan(core.REPO)
    except Exception as ex:
        res.oblig("T-writers:dump-attribute-writers", False, "translation", "scanner failed: %r" % ex)
        return []
    raw = [(f, a, e) for (f, a, e, k) in writers if k == "RAW"]
    new_raw = [r for r in raw if r not in c14_writers.EXPECTED_RAW]
    kinds = {}
    for (_f, _a, _e, k) in writers:
        kinds[k] = kinds.get(k, 0) + 1
    res.extra["dump_writers_by_kind"] = kinds
    res.extra["dump_raw_writers"] = ["%s: %s=\"<%s>\"  -- %s" % (f, a, e, c14_writers.EXPECTED_RAW.get((f, a, e), "NEW")) for (f, a, e) in raw]
    ok = not unknown and not missing and not new_raw and kinds.get("toxml", 0) >= 20 and kinds.get("id", 0) >= 30
    res.oblig("T-writers:dump-attribute-writers", ok, "translation",
              "" if ok else "unknown shapes: %s | functions not found: %s | raw writers not in the reviewed list: %s" % (unknown[:4], missing, new_raw))
    # every attribute written through id_string is an id definition or a reference the dump checker resolves
    REF_ATTRS.clear()
    REF_ATTRS.update(a for (_f, a, _e, k) in writers if k == "id" and a and a != "id")
    known = set(a for (_e, a) in c14_dump.REFS) | {"id"}
    unk_ref = sorted(set((f, a) for (f, a, _e, k) in writers if k == "id" and a not in known))
    res.oblig("T-refs:every-id-attribute-is-resolved-by-the-dump-check", not unk_ref and kinds.get("id", 0) >= 30, "translation",
              "" if not unk_ref else "id-valued attributes the dump checker does not know: %s" % unk_ref)
    return new_raw


# ---- CLI: dumps of corpus and generated programs ---------------------------------------------------

_CD = []


def load_cppcheckdata():
    if not _CD:
        import importlib.util
        spec = importlib.util.spec_from_file_location("cppcheckdata_repo", os.path.join(core.REPO, "addons", "cppcheckdata.py"))
        m = importlib.util.module_from_spec(spec)
        spec.loader.exec_module(m)
        _CD.append(m)
    return _CD[0]


def c_unescape(s):
    out, i = [], 0
    simple = {"n": "\n", "t": "\t", "\\": "\\", '"': '"', "'": "'", "0": "\0", "r": "\r", "a": "\a", "b": "\b", "f": "\f", "v": "\v", "?": "?"}
    while i < len(s):
        c = s[i]
        if c == "\\" and i + 1 < len(s):
            d = s[i + 1]
            if d in simple:
                out.append(simple[d]); i += 2
            elif d == "x":
                m = re.match(r"[0-9a-fA-F]{1,2}", s[i + 2:])
                out.append(chr(int(m.group(0), 16)) if m else "x"); i += 2 + (len(m.group(0)) if m else 0)
            else:
                out.append(d); i += 2
        else:
            out.append(c); i += 1
    return "".join(out)


_SNIP = []


def snippets():
    """code strings of the repository's own unit tests (test/test*.cpp): adjacent string literals joined and unescaped"""
    if _SNIP:
        return _SNIP[0]
    import glob
    seen, out = set(), []
    for f in sorted(glob.glob(os.path.join(core.REPO, "test", "test*.cpp"))):
        src = open(f, encoding="utf-8", errors="replace").read()
        for m in re.finditer(r'(?:"(?:[^"\\\n]|\\.)*"\s*){1,80}', src):
            lits = re.findall(r'"((?:[^"\\\n]|\\.)*)"', m.group(0))
            code = c_unescape("".join(lits))
            if len(code) < 25 or len(code) > 3000 or (";" not in code and "{" not in code):
                continue
            if re.match(r"^\s*\[", code) or re.search(r"\((error|warning|style|performance|portability|information)[,)]", code) or "##" in code[:4]:
                continue
            if not re.search(r"[a-zA-Z_]\w*\s*[({=;]", code):
                continue
            if code in seen:
                continue
            seen.add(code)
            lang = "c" if re.search(r"\.c\b\"|false\)|Standards::Language::C\b", src[m.end():m.end() + 80]) else "cpp"
            out.append((os.path.basename(f), lang, code))
    _SNIP.append(out)
    return out


IDS = ["a", "b", "x", "y", "p", "q", "n", "v", "buf", "T1", "U2"]
STRS = ['"abc"', '"<a href=\\"x\\">&amp;</a>"', '"a\\tb\\n"', '"\\x01\\x7f"', '"caf\\xc3\\xa9"', '"\\xe9"', '"it\'s"', 'L"w<>"', '"]]>"', '"&#10;"',
        "'<'", "'&'", "'\\''", "'\"'", "'\\0'"]


def gen_expr(rng, d=0):
    r = rng.random()
    if d > 3 or r < 0.25:
        return rng.choice(IDS + ["0", "1", "42", "0x1fU", "1.5f"] + STRS[:3])
    if r < 0.45:
        return "%s %s %s" % (gen_expr(rng, d + 1), rng.choice(["+", "-", "*", "<", ">", "<<", ">>", "&", "&&", "|", "==", "<=", "%", ","]), gen_expr(rng, d + 1))
    if r < 0.55:
        return "(%s)" % gen_expr(rng, d + 1)
    if r < 0.65:
        return "%s[%s]" % (rng.choice(IDS), gen_expr(rng, d + 1))
    if r < 0.75:
        return "%s(%s)" % (rng.choice(["f", "g", "h", "sizeof", "M"]), ", ".join(gen_expr(rng, d + 2) for _ in range(rng.choice([0, 1, 2, 3]))))
    if r < 0.82:
        return "%s ? %s : %s" % (gen_expr(rng, d + 1), gen_expr(rng, d + 1), gen_expr(rng, d + 1))
    if r < 0.88:
        return "(%s)%s" % (rng.choice(["int", "char*", "unsigned long", "T1", "u32"]), gen_expr(rng, d + 1))
    if r < 0.93:
        return "%s%s" % (rng.choice(["!", "-", "~", "*", "&", "++", "--"]), rng.choice(IDS))
    return "%s.%s" % (rng.choice(IDS), rng.choice(["m", "size()", "v[0]"]))


def gen_stmt(rng, cpp, d=0):
    r = rng.random()
    if d > 2 or r < 0.3:
        return "%s = %s;" % (rng.choice(IDS), gen_expr(rng))
    if r < 0.4:
        return "if (%s) { %s } else { %s }" % (gen_expr(rng), gen_stmt(rng, cpp, d + 1), gen_stmt(rng, cpp, d + 1))
    if r < 0.48:
        return "for (int i = 0; i < %s; i++) { %s }" % (gen_expr(rng, 2), gen_stmt(rng, cpp, d + 1))
    if r < 0.55:
        return "while (%s) { %s break; }" % (gen_expr(rng, 2), gen_stmt(rng, cpp, d + 1))
    if r < 0.62:
        return "int arr%d[%s] = {%s};" % (rng.randrange(9), rng.choice(["3", "2+1", "N"]), ", ".join(gen_expr(rng, 3) for _ in range(3)))
    if r < 0.68:
        return "const char *s%d = %s;" % (rng.randrange(9), rng.choice(STRS))
    if r < 0.74:
        return "switch (%s) { case 1: %s break; default: break; }" % (gen_expr(rng, 2), gen_stmt(rng, cpp, d + 1))
    if r < 0.8:
        return "return %s;" % gen_expr(rng)
    if cpp and r < 0.84:
        k = rng.randrange(9)
        return ("std::string s%d = %s; std::vector<int> u%d; std::map<int, std::string> m%d; u%d.push_back((int)s%d.size()); "
                "s%d += m%d[u%d.empty() ? 0 : u%d[0]]; u%d.resize(s%d.length() + m%d.size());" %
                (k, rng.choice(STRS[:3]), k, k, k, k, k, k, k, k, k, k, k))
    if cpp and r < 0.86:
        return "std::vector<std::pair<int, std::vector<%s>>> w%d; w%d.push_back({});" % (rng.choice(["int", "T1", "char"]), rng.randrange(9), rng.randrange(9))
    if cpp and r < 0.91:
        return "auto l%d = [&](int k) { %s return k; };" % (rng.randrange(9), gen_stmt(rng, cpp, d + 1))
    if cpp and r < 0.95:
        return "S<%s> t%d; t%d.v = static_cast<%s>(%s);" % (rng.choice(["int", "A<B<int>>", "(1>2)"]), rng.randrange(9), rng.randrange(9), rng.choice(["int", "long"]), gen_expr(rng, 2))
    return "{ %s %s }" % (gen_stmt(rng, cpp, d + 1), gen_stmt(rng, cpp, d + 1))


def gen_program(rng):
    cpp = rng.random() < 0.6
    L = []
    if rng.random() < 0.6:
        L.append("#define M(x) ((x) %s 1)" % rng.choice(["+", "<<", "<", "&"]))
    if rng.random() < 0.4:
        L.append("#define N 3")
    if rng.random() < 0.35:
        L.append("#if defined(A) && (B < 3 || C > \"x\"[0])\nint cfgA;\n#elif defined(D)\nint cfgD;\n#else\nint cfg0;\n#endif")
    L.append("typedef unsigned int u32;")
    L.append("typedef struct tag%d { int m; int v[4]; } T1;" % rng.randrange(5))
    if rng.random() < 0.5:
        L.append("typedef int (*fp_t)(int, char *);")
    if cpp:
        L.append("#include <vector>\n#include <string>\n#include <map>")
        L.append("std::size_t total(const std::string &name, const std::vector<int> &ids, const std::string &suffix, const std::map<int, int> &mm) "
                 "{ return name.size() + ids.size() + suffix.size() + mm.size() + name.length(); }")
        L.append("template<class T> struct S { T v; T get() const { return v; } };")
        L.append("template<class T> struct B { T b; }; template<class T> struct A { T a; };")
        if rng.random() < 0.6:
            L.append("namespace NS { using U2 = S<u32>; template<class T> using Vec = std::vector<T>; }")
        if rng.random() < 0.5:
            L.append("struct Base { virtual int f(int) { return 0; } virtual ~Base() {} }; struct Der : public Base { int f(int k) override { return k; } };")
        if rng.random() < 0.4:
            L.append("enum class E : char { e1 = '<', e2 = '&' };")
    else:
        L.append("typedef struct tagU { u32 m; } U2;")
        L.append("enum E { e1 = '<', e2 };")
    for k in range(rng.choice([1, 2, 3])):
        L.append("int fn%d(int a, T1 *p, u32 n) {\n  int x = 0, y = 1; T1 b; U2 q;\n  %s\n  return x;\n}" %
                 (k, "\n  ".join(gen_stmt(rng, cpp) for _ in range(rng.choice([2, 4, 6])))))
    return ("cpp" if cpp else "c"), "\n".join(L) + "\n"


def mutate(rng, code):
    code = list(code)
    for _ in range(rng.choice([1, 1, 2, 3])):
        if not code:
            break
        j = rng.randrange(len(code))
        m = rng.random()
        if m < 0.35:
            code[j] = rng.choice("(){}[]<>;,\"'&")
        elif m < 0.65:
            del code[j]
        elif m < 0.85:
            code.insert(j, rng.choice("(){}[]<>;"))
        else:
            k = rng.randrange(len(code))
            code[j], code[k] = code[k], code[j]
    return "".join(code)


def locate_malformed(dump, text):
    """which element holds the offending line of a malformed dump"""
    m = re.search(r"line (\d+)", text)
    if not m:
        return "?"
    try:
        with open(dump, "rb") as f:
            for k, line in enumerate(f, 1):
                if k == int(m.group(1)):
                    mm = re.match(rb"^\s*<([\w-]+)", line)
                    return mm.group(1).decode() if mm else "?"
    except OSError:
        pass
    return "?"


def classify(key, text, dump):
    if key == "xml-malformed":
        el = locate_malformed(dump, text)
        return "xml-malformed:" + el, el
    return key, None


def run_cases(ctx, res, cases, label):
    """cases: dict(name, origin, lang, files={rel: bytes}, main, args). Runs cppcheck --dump and evaluates P_impl on every dump."""
    import subprocess
    cd = load_cppcheckdata()
    root = os.path.join(ctx.tmp, "cli_" + label)
    os.makedirs(root, exist_ok=True)
    single, batch = [], []
    for k, c in enumerate(cases):
        (single if (c.get("args") or len(c["files"]) > 1) else batch).append((k, c))
    jobs = []      # (cwd, argv, [(case index, dump path)])
    B = 50
    for b0 in range(0, len(batch), B):
        d = os.path.join(root, "b%d" % (b0 // B))
        os.makedirs(d)
        ent = []
        for k, c in batch[b0:b0 + B]:
            fn = "c%d.%s" % (k, c["lang"])
            open(os.path.join(d, fn), "wb").write(list(c["files"].values())[0])
            ent.append((k, os.path.join(d, fn + ".dump")))
        jobs.append((d, [ctx.cppcheck, "--dump", "--quiet", "-j2", "."], ent))
    for k, c in single:
        d = os.path.join(root, "s%d" % k)
        os.makedirs(d)
        for rel, content in c["files"].items():
            open(os.path.join(d, rel), "wb").write(content)
        jobs.append((d, [ctx.cppcheck, "--dump", "--quiet"] + list(c.get("args") or []) + [c["main"]], [(k, os.path.join(d, c["main"] + ".dump"))]))
    n_viol = 0
    for cwd, argv, ent in jobs:
        rc = None
        for attempt in range(40):
            try:
                r = subprocess.run(argv, cwd=cwd, stdout=subprocess.PIPE, stderr=subprocess.PIPE, timeout=600)
                rc = r.returncode
                break
            except subprocess.TimeoutExpired:
                rc = -999
                res.count("cli:timeout")
                break
            except OSError:
                # the binary is being relinked by a concurrent check of a colleague (ETXTBSY / EACCES): wait for the linker
                import time
                time.sleep(3)
        if rc is None:
            raise core.CheckBroken("cannot execute %s" % argv[0])
        if rc < 0 and rc != -999:
            res.count("cli:signal")
        for k, dump in ent:
            c = cases[k]
            res.count("cli:origin:" + c["origin"])
            if not os.path.exists(dump):
                res.count("cli:no-dump-file")
                res.case("cli|" + c["name"], False)
                continue
            st, problems = c14_dump.check_dump(dump, cd, REF_ATTRS or None)
            for (tag, attr, want) in (c.get("expect_attr") or []):
                try:
                    import xml.etree.ElementTree as ET
                    got = [e.get(attr) for e in ET.parse(dump).getroot().iter(tag)]
                except Exception as ex:
                    got = ["unparsable: %s" % ex]
                if want not in got:
                    problems.append(("attr-value-lost", "<%s %s=...> reads back as %r, the value written was %r" % (tag, attr, got[:3], want)))
            nt = st["links"] >= 1 and st["ast_edges"] >= 1
            samp = None
            if nt and len(res.samples) < 12 and c["origin"] in ("generated", "snippet", "corpus"):
                samp = dict(tie="cli-dump", case=c["name"], stats=st, problems=len(problems))
            res.case("cli|" + c["name"] + "|%08x" % zlib.crc32(b"\0".join(c["files"][k] for k in sorted(c["files"]))), nt, samp)
            res.count("cli:configs", st["configs"]); res.count("cli:tokens", st["tokens"]); res.count("cli:references-resolved", st["refs"])
            res.count("cli:links", st["links"]); res.count("cli:ast-edges", st["ast_edges"])
            if st["configs"] == 0:
                res.count("cli:dump-without-configuration")
            if not problems:
                res.traces_validated += 1
            seen = set()
            for key, text in problems:
                ck, _ = classify(key, text, dump)
                if ck in seen:
                    continue
                seen.add(ck)
                n_viol += 1
                if n_viol > 40:
                    continue
                res.violation("dump of %s (%s): %s: %s" % (c["name"], c["origin"], ck, text[:300]),
                              dict(kind="cli", name=c["name"], origin=c["origin"], lang=c["lang"], main=c["main"], args=c.get("args") or [],
                                   files={rel: core.hx(b) for rel, b in c["files"].items()}, problem=ck, detail=text[:1000],
                                   replay_cmd="./check.py C14 --replay <this file>"), concrete=True, key=ck)
            try:
                os.remove(dump)
            except OSError:
                pass


def mk_case(name, origin, lang, code, args=None, extra=None):
    main = "a." + lang
    files = {main: code if isinstance(code, bytes) else code.encode("latin-1", "replace")}
    for rel, content in (extra or {}).items():
        files[rel] = content if isinstance(content, bytes) else content.encode("latin-1", "replace")
    return dict(name=name, origin=origin, lang=lang, files=files, main=main, args=args or [])


def cli(ctx, res, thorough):
    import glob
    rng = ctx.rng
    cases = []
    # corpus: witnesses and regression programs, always first
    cp = os.path.join(core.VERIF, "corpus", "C14", "cli.json")
    if os.path.exists(cp):
        for c in json.load(open(cp)):
            cc = mk_case("corpus:" + c["name"], "corpus", c["lang"], c["code"], c.get("args"), c.get("files"))
            cc["expect_attr"] = c.get("expect_attr")
            cases.append(cc)
    # repository corpora
    cfgs = sorted(glob.glob(os.path.join(core.REPO, "test", "cfg", "*.c")) + glob.glob(os.path.join(core.REPO, "test", "cfg", "*.cpp")))
    if not thorough:
        small = [f for f in cfgs if os.path.getsize(f) < 25000]
        cfgs = rng.sample(small, min(4, len(small)))
    for f in cfgs:
        base, ext = os.path.splitext(os.path.basename(f))
        args = ["--library=" + base] if os.path.exists(os.path.join(core.REPO, "cfg", base + ".cfg")) else []
        cases.append(dict(name="test/cfg/" + os.path.basename(f), origin="test-cfg", lang=ext[1:], files={os.path.basename(f): open(f, "rb").read()},
                          main=os.path.basename(f), args=args + ["--inline-suppr"]))
    samples = sorted(glob.glob(os.path.join(core.REPO, "samples", "*", "*.c")) + glob.glob(os.path.join(core.REPO, "samples", "*", "*.cpp")))
    for f in (samples if thorough else rng.sample(samples, min(8, len(samples)))):
        ext = os.path.splitext(f)[1][1:]
        cases.append(mk_case("samples/" + "/".join(f.split(os.sep)[-2:]), "samples", ext, open(f, "rb").read()))
    sn = snippets()
    res.extra["unit_test_snippets_available"] = len(sn)
    pick = rng.sample(sn, min(2500 if thorough else 120, len(sn)))
    for (f, lang, code) in pick:
        cases.append(mk_case("snippet:%s:%08x" % (f, zlib.crc32(code.encode("utf-8", "replace"))), "snippet", lang, code))
    gens = []
    for k in range(400 if thorough else 40):
        lang, code = gen_program(rng)
        gens.append((lang, code))
        cases.append(mk_case("generated:%d" % k, "generated", lang, code))
    for k in range(500 if thorough else 50):
        if rng.random() < 0.5 and pick:
            _f, lang, code = rng.choice(pick)
        else:
            lang, code = rng.choice(gens)
        cases.append(mk_case("mutated:%d" % k, "mutated", lang, mutate(rng, code)))
    run_cases(ctx, res, cases, "main")
    res.extra["cli_cases"] = len(cases)


def run(ctx, res):
    thorough = ctx.tier == "thorough"
    t_enums(ctx, res)            # writes Gen/DumpEnums.lean before the Lean build
    core.prove(ctx, res, MODULES, THEOREMS)
    t_callers(ctx, res)
    t_link_writers(ctx, res)
    t_var_refs(ctx, res)
    t_containers(ctx, res)
    t_writers(ctx, res)
    res.assumptions += ASSUMPTIONS
    drv = ctx.driver("drv_c14")
    exe = ctx.harness("c14")
    inprocess(ctx, res, drv, exe, thorough)
    cli(ctx, res, thorough)
    if any(not o["ok"] for o in res.obligations) and not any(v["concrete"] for v in res.violations):
        search(ctx, res, drv, exe)


def search(ctx, res, drv, exe):
    """an obligation broke and no failing input is known yet: widen the samples (in-process streams and CLI programs)"""
    sub = core.Result(ctx, res.level)
    inprocess(ctx, sub, drv, exe, True)
    cli(ctx, sub, True) if any(o["kind"] == "translation" and not o["ok"] for o in res.obligations) else None
    res.extra["search_evaluations"] = sub.evaluations
    res.violations.extend(sub.violations)


def replay(ctx, res, rp):
    if rp.get("kind") == "cli":
        c = dict(name=rp["name"], origin=rp.get("origin", "replay"), lang=rp["lang"], main=rp["main"], args=rp.get("args") or [],
                 files={rel: core.unhx(h) for rel, h in rp["files"].items()})
        sub = core.Result(ctx, "other")
        run_cases(ctx, sub, [c], "replay")
        for v in sub.violations:
            print("VIOLATION property=C14 replay=(replayed) %s" % v["what"][:400])
        print("replay: %d problem(s)" % len(sub.violations))
        return 1 if sub.violations else 0
    drv = ctx.driver("drv_c14")
    exe = ctx.harness("c14")
    op = rp["op"]
    rc, impl, err = core.run_lines(exe, [], [op])
    rc, model, err = core.run_lines(drv, [], [op])
    print("op:    " + op)
    print("impl:  " + (impl[0] if impl else "?"))
    print("model: " + (model[0] if model else "?"))
    sub = core.Result(ctx, "other")
    bad = impl != model
    if impl:
        k = op.split(" ")[0]
        if k == "ast":
            for j, s in enumerate(impl[0].split(" | ")):
                why = ast_inv(parse_state(s if j == 0 else s[2:]), full=" pa " not in op)
                if why:
                    print("VIOLATION property=C14 replay=(replayed) state after call %d: %s" % (j, why)); bad = True; break
        elif k in ("links", "links2") and impl[0].startswith("ok"):
            why = links_ok([core.unhx(x).decode("latin-1") for x in op.split(" ")[1:]], impl[0])
            if why:
                print("VIOLATION property=C14 replay=(replayed) " + why); bad = True
    return 1 if bad else 0

"""C01 — value-flow facts hold in every UB-free execution.

Obligations
  theorems   Cppcheck.C01.* (Props/C01.lean): calculate_sound, calculate_error_iff, infer_sound (current code, after fix 8842d71;
             infer_sound_counterexample / infer_prefix_sound_partial are about the pre-fix function, F20), fold_binary_sound_partial
             (+ fold_binary_unsigned_wrap_counterexample, F5), carry_impossible_* (Impossible value through x op= k; `*=` with k <= 0 refuted, F1h), validator_sound / validator_sound_bigstep (all MiniC programs,
             all inputs, all platform records, no hypothesis), interpreter_agrees_bigstep
  C1         in-process correspondence (harness/c01.cpp vs lean/Driver/C01.lean): calculate<bigint>, calculate<int>,
             castValue, truncateIntValue, infer(makeIntegralInferModel(), …), getMinValue/getMaxValue
  T          operator list of the impossible-value guard of ValueFlowAnalyzer::isWritable == Calc.carryOps (fail closed)
  E2E        generated MiniC programs (quiet fragment + compound-assignment family + narrow-operand unary family) printed as C; `cppcheck --dump` facts (hook H1: indirect=) mapped to MiniC
             occurrences and passed to the verified validator (accepted = proved for all inputs of that program);
             rejected => violation search with the Lean interpreter, root-cause reduction, classification
  SPEC       the MiniC interpreter (the semantics the validator is proved against) agrees with gcc -fsanitize=undefined
P_impl       transfer functions: the real result holds of concrete operands (python reference C semantics);
             end-to-end: a reported Known/Impossible fact holds in a concrete UB-free execution of the program
docs/C01.md describes models, theorems, the generated fragment and the findings.
"""
import os, re, json
from .. import core, build_repo

ID = "C01"
LEVEL = "other"
RULE = ("transfer cases = (operator, operand pair) with operands from {0, ±1, ±2, type limits of 8/16/32/64 bits ±1, 2^k±1, "
        "shift counts around 0/31/32/62/63/64, random 64-bit}, value lists built around a concrete operand (claims that hold of it, "
        "soft values that need not) and unconstrained lists; non-trivial = the real function returned a result (not error / empty list). "
        "programs = the corpus (10 finding witnesses, 8 positive programs with loops/casts/unsigned) + generated MiniC functions of the "
        "quiet fragment (docs/C01.md section 4), 20 per translation unit; a program case is non-trivial when cppcheck attached at least one "
        "Known/Impossible fact to a mapped occurrence other than a literal; gcc cross-check programs use the whole MiniC language")
EXPLANATION = ("Proved in Lean: calculate and infer are sound on the stated domains (infer: since fix 8842d71; the pre-fix function is refuted, F20), the fact "
               "validator is sound for every MiniC program, argument vector and platform record (validator_sound, no hypothesis), the "
               "interpreter equals the big-step semantics. Each reported fact the validator accepts is thereby proved for all inputs of that "
               "program; programs are sampled and the generated fragment is small (int variables, + - *, comparisons, && ||, if/else, "
               "compound assignment, ++/--: every wider construct makes cppcheck report facts that executions contradict, see the known "
               "findings and docs/C01.md section 4), so the property is decided only there (level other). Outside the model: floats, pointers, "
               "arrays, structs, calls, globals, switch, goto, C++, symbolic facts, container/lifetime values, facts with indirect != 0, "
               "Possible values. castValue: correspondence only.")
THEOREMS = ["Cppcheck.C01.calculate_sound", "Cppcheck.C01.calculate_error_iff", "Cppcheck.C01.infer_sound_counterexample",
            "Cppcheck.C01.infer_sound", "Cppcheck.C01.infer_prefix_sound_partial", "Cppcheck.C01.fold_binary_unsigned_wrap_counterexample",
            "Cppcheck.C01.fold_binary_sound_partial", "Cppcheck.C01.validator_sound", "Cppcheck.C01.validator_sound_bigstep",
            "Cppcheck.C01.interpreter_agrees_bigstep", "Cppcheck.C01.carry_impossible_shift_sound",
            "Cppcheck.C01.carry_impossible_mul_counterexample", "Cppcheck.C01.carry_impossible_mul_zero_counterexample",
            "Cppcheck.C01.carry_impossible_mul_sound_partial", "Cppcheck.C01.carry_impossible_div_not_carried",
            "Cppcheck.C01.carry_div_counterexample"]
MODULES = ["Cppcheck.Props.C01"]

OPS = ["+", "-", "*", "/", "%", "&", "|", "^", ">", "<", "<<", ">>", "&&", "||", "==", "!=", ">=", "<=", "<=>"]
CMP_OPS = ["<", "<=", ">", ">=", "==", "!="]
I64MIN, I64MAX = -2 ** 63, 2 ** 63 - 1


def wrap64(v):
    v &= (1 << 64) - 1
    return v - (1 << 64) if v >> 63 else v


def tdiv(x, y):
    q = abs(x) // abs(y)
    return q if (x < 0) == (y < 0) else -q


def c_sem(op, x, y):
    """ISO C semantics of `x op y` on long long; None = undefined / implementation-defined / outside long long"""
    def rng(v):
        return v if I64MIN <= v <= I64MAX else None
    if op == "+": return rng(x + y)
    if op == "-" or op == "<=>": return rng(x - y)
    if op == "*": return rng(x * y)
    if op == "/":
        if y == 0 or (x == I64MIN and y == -1): return None
        return tdiv(x, y)
    if op == "%":
        if y == 0 or (x == I64MIN and y == -1): return None
        return x - tdiv(x, y) * y
    if op == "&": return wrap64((x & (2 ** 64 - 1)) & (y & (2 ** 64 - 1)))
    if op == "|": return wrap64((x & (2 ** 64 - 1)) | (y & (2 ** 64 - 1)))
    if op == "^": return wrap64((x & (2 ** 64 - 1)) ^ (y & (2 ** 64 - 1)))
    if op == "<<":
        if y < 0 or y >= 64 or x < 0: return None
        return rng(x << y)
    if op == ">>":
        if y < 0 or y >= 64 or x < 0: return None
        return x >> y
    if op == ">": return int(x > y)
    if op == "<": return int(x < y)
    if op == ">=": return int(x >= y)
    if op == "<=": return int(x <= y)
    if op == "==": return int(x == y)
    if op == "!=": return int(x != y)
    if op == "&&": return int(x != 0 and y != 0)
    if op == "||": return int(x != 0 or y != 0)
    raise ValueError(op)


def interesting(rng):
    k = rng.random()
    if k < 0.25:
        return rng.choice([0, 1, -1, 2, -2, 3, 7, 8, 10, 100, -100])
    if k < 0.5:
        b = rng.choice([7, 8, 15, 16, 31, 32, 62, 63])
        return rng.choice([2 ** b - 1, 2 ** b, -(2 ** b), -(2 ** b) - 1 if b < 63 else -(2 ** b), 2 ** b + 1 if b < 63 else 2 ** b - 1, -(2 ** b) + 1]) if b < 63 else rng.choice([I64MAX, I64MIN, I64MAX - 1, I64MIN + 1])
    if k < 0.65:
        b = rng.randrange(1, 63)
        return rng.choice([1, -1]) * (2 ** b + rng.choice([-1, 0, 1]))
    if k < 0.8:
        return rng.randrange(-1000, 1000)
    return rng.randrange(I64MIN, I64MAX + 1)


def shift_count(rng):
    return rng.choice([0, 1, 2, 7, 8, 15, 16, 30, 31, 32, 33, 61, 62, 63, 64, 65, -1, 100, rng.randrange(0, 64)])


# ---- value lists ---------------------------------------------------------------------------------------------
def vtok(kind, bound, i, isint=True):
    return ("" if isint else "~") + kind + bound + str(i)


def parse_vtok(t):
    isint = not t.startswith("~")
    if not isint:
        t = t[1:]
    return dict(isint=isint, kind=t[0], bound=t[1], v=int(t[2:]))


def holds(val, x):
    """does the claim of a Known / Impossible value hold of the concrete x (None = the value claims nothing)"""
    if val["kind"] == "K":
        return x == val["v"]
    if val["kind"] == "I":
        return {"P": x != val["v"], "U": x > val["v"], "L": x < val["v"]}[val["bound"]]
    return None


def gen_list_for(rng, a, big=False):
    """a value list whose claims hold of a; soft (Possible / Inconclusive) values are unconstrained"""
    n = rng.choice([1, 1, 1, 2, 2, 3, 4])
    span = (lambda: rng.choice([1, 1, 2, 3, 10, 1000, 2 ** 31])) if not big else (lambda: rng.choice([1, 2 ** 40, 2 ** 61, 2 ** 62, 2 ** 63 - 1]))
    out = []
    clamp = lambda v: max(I64MIN, min(I64MAX, v))
    for _ in range(n):
        k = rng.random()
        if k < 0.18:
            out.append(vtok("K", "P", a))
        elif k < 0.30:
            out.append(vtok("I", "P", clamp(a + rng.choice([-1, 1]) * span())))
        elif k < 0.45:
            out.append(vtok("I", "U", clamp(a - span())))
        elif k < 0.60:
            out.append(vtok("I", "L", clamp(a + span())))
        elif k < 0.70:
            out.append(vtok("P", "P", clamp(a + rng.choice([0, 0, -1, 1, 5]) * span())))
        elif k < 0.78:
            out.append(vtok("P", "L", clamp(a - rng.choice([0, 1, 1, 1, -3]) * span())))
        elif k < 0.86:
            out.append(vtok("P", "U", clamp(a + rng.choice([0, 1, 1, 1, -3]) * span())))
        elif k < 0.92:
            out.append(vtok("N", rng.choice("PUL"), clamp(a + rng.choice([0, 1, -1]) * span())))
        else:
            out.append(vtok(rng.choice("KPNI"), rng.choice("PUL"), clamp(a + rng.choice([0, 1, -1]) * span()), isint=False))
    if rng.random() < 0.1:
        out = [vtok("K", "P", a)]
    return out


def gen_list_free(rng):
    return [vtok(rng.choice("KPNI"), rng.choice("PUL"), interesting(rng) if rng.random() < 0.5 else rng.randrange(-6, 7), rng.random() < 0.93)
            for _ in range(rng.choice([0, 1, 1, 2, 2, 3, 4, 5]))]


def transfer_ops(rng, n_calc, n_infer):
    ops, meta = [], []
    for _ in range(n_calc):
        op = rng.choice(OPS)
        x = interesting(rng)
        y = shift_count(rng) if op in ("<<", ">>") and rng.random() < 0.8 else interesting(rng)
        if rng.random() < 0.1:
            y = x
        ops.append("calc %s %d %d" % (op, x, y)); meta.append(("calc", op, x, y))
    for op in OPS:
        for x in (-1, 0, 1):
            ops.append("calcn %s %d 0" % (op, x)); meta.append(("calcn", op, x, 0))
    for _ in range(n_calc // 4):
        v = interesting(rng); s = rng.randrange(2)
        bit = rng.choice([1, 7, 8, 15, 16, 31, 32, 33, 63, 64, 65, rng.randrange(1, 70)]) if s else rng.choice([0, 1, 8, 16, 32, 63, 64, rng.randrange(0, 70)])
        ops.append("cast %d %d %d" % (v, s, bit)); meta.append(("cast", v, s, bit))
        sz = rng.choice([0, 1, 2, 4, 8, rng.randrange(0, 9)])
        ops.append("trunc %d %d %d" % (v, sz, s)); meta.append(("trunc", v, sz, s))
    for _ in range(n_infer):
        op = rng.choice(CMP_OPS + ["-", "-", "-"]) if rng.random() < 0.93 else rng.choice(OPS)
        mode = rng.random()
        if mode < 0.7:
            big = mode > 0.62
            a = interesting(rng) if big else rng.choice([rng.randrange(-20, 20), rng.randrange(-2 ** 31, 2 ** 31), rng.randrange(-2 ** 61, 2 ** 61)])
            b = a + rng.choice([0, 0, 1, -1, 2, -7, 100]) if rng.random() < 0.5 else (interesting(rng) if big else rng.randrange(-20, 20))
            b = max(I64MIN, min(I64MAX, b))
            L, R = gen_list_for(rng, a, big), gen_list_for(rng, b, big)
            ops.append("infer %s %s / %s" % (op, " ".join(L), " ".join(R))); meta.append(("infer", op, a, b, L, R))
        else:
            L, R = gen_list_free(rng), gen_list_free(rng)
            ops.append("infer %s %s / %s" % (op, " ".join(L), " ".join(R))); meta.append(("infer", op, None, None, L, R))
        if rng.random() < 0.2:
            ops.append("minmaxv %s" % " ".join(L)); meta.append(("minmaxv", L))
    return ops, meta


def in_domain(toks):
    return all(abs(parse_vtok(t)["v"]) < 2 ** 62 for t in toks)


def classify_infer(exe, op, L, R, res_tok):
    """known-finding classes of an `infer` result that does not hold of concrete operands"""
    r = parse_vtok(res_tok)
    if op == "-" and r["kind"] == "I":
        soft = [t for t in L + R if parse_vtok(t)["isint"] and parse_vtok(t)["kind"] in "PN"]
        if soft:
            hardL = [t for t in L if not (parse_vtok(t)["isint"] and parse_vtok(t)["kind"] in "PN")]
            hardR = [t for t in R if not (parse_vtok(t)["isint"] and parse_vtok(t)["kind"] in "PN")]
            rc, out, err = core.run_lines(exe, [], ["infer - %s / %s" % (" ".join(hardL), " ".join(hardR))])
            if out and res_tok not in out[0].split():
                return "infer-minus-impossible-from-possible-ref"
    return None


def transfer_p_impl(ctx, res, exe, ops, meta, impl):
    """P_impl on the implementation's answers: the reported result holds of the concrete operands"""
    excluded_fail = 0
    for op_line, m, out in zip(ops, meta, impl):
        if m[0] == "calc":
            _, op, x, y = m
            want = c_sem(op, x, y)
            res.count("calc:" + ("err" if out == "err" else "ok") + (":c-undef" if want is None else ""))
            if out.startswith("ok:") and want is not None and int(out[3:]) != want:
                res.violation("calculate<bigint>(%s, %d, %d) = %s but C semantics on long long gives %d" % (op, x, y, out[3:], want),
                              dict(kind="calc", op=op_line, impl=out, reference=want), concrete=True, key=None)
        elif m[0] == "infer" and m[2] is not None and out not in ("-", "bad-op"):
            _, op, a, b, L, R = m
            val = c_sem(op, a, b) if op in CMP_OPS + ["-"] else None
            if val is None:
                continue
            for t in out.split():
                h = holds(parse_vtok(t), val)
                if h is False:
                    if not (in_domain(L) and in_domain(R)):
                        excluded_fail += 1
                        continue
                    key = classify_infer(exe, op, L, R, t)
                    res.violation("infer(%s, [%s], [%s]) yields %s, but every claim in the lists holds of lhs=%d, rhs=%d and lhs %s rhs = %d"
                                  % (op, " ".join(L), " ".join(R), t, a, b, op, val),
                                  dict(kind="infer", op=op_line, impl=out, a=a, b=b, value=val), concrete=True, key=key)
    res.extra["infer_failures_at_excluded_points(|bound|>=2^62)"] = excluded_fail
    print("C01 note: %d result(s) of the real infer() fail at operand bounds outside the hypothesis of infer_sound (|bound| >= 2^62-1: "
          "signed overflow in the C++, counted, not reported)" % excluded_fail)


def run_transfer(ctx, res, drv, exe, n_calc, n_infer):
    ops, meta = transfer_ops(ctx.rng, n_calc, n_infer)
    corpus = load_corpus().get("transfer", [])
    cops = [c["op"] for c in corpus]
    ops = cops + ops
    meta = [tuple(c["meta"]) if "meta" in c else ("corpus",) for c in corpus] + meta
    rc, impl, err = core.run_lines(exe, [], ops)
    rc2, model, err2 = core.run_lines(drv, [], ops)
    core.correspond(ctx, res, "transfer", ops, impl, model, nontrivial=lambda op, out: out not in ("err", "-", "bad-op", "undefined"))
    if len(impl) == len(ops):
        transfer_p_impl(ctx, res, exe, ops, meta, impl)
    return ops, meta, impl


# ================================================================================================================
# Stage 2: MiniC programs -> C text -> cppcheck --dump facts -> verified validator / violation search
# ================================================================================================================
RANKS = ["c", "s", "i", "l", "q"]
CNAME = {"cs": "signed char", "cu": "unsigned char", "ss": "short", "su": "unsigned short", "is": "int", "iu": "unsigned int",
         "ls": "long", "lu": "unsigned long", "qs": "long long", "qu": "unsigned long long"}
LIT_SUFFIX = {"is": "", "iu": "u", "ls": "l", "lu": "ul", "qs": "ll", "qu": "ull"}
BIN_ARITH = ["+", "-", "*", "/", "%", "&", "|", "^", "<<", ">>"]
BIN_CMP = ["<", "<=", ">", ">=", "==", "!="]

# what the generator emits in the quick / thorough tiers: grown only as far as the unchanged tree stays quiet (docs/C01.md lists
# what each excluded construct triggers in cppcheck; witnesses for those live in corpus/C01/cases.json)
GRAMMAR = dict(
    types=["is"], lit_types=["is"],
    bin_ops=["+", "-", "*", "<", "<=", ">", ">=", "==", "!="],
    un_ops=["-"], logical=True, cast=False, cond=False, compound=True, compound_ops=["+", "-"], incdec=True, loops=False,
    relational=False, ifs=True, early_return=False, not_cond=False, bare_cond=False, same_operands=False,
)
# the whole MiniC language (used by the interpreter / validator self-tests and available to the violation search)
GRAMMAR_FULL = dict(
    types=["is", "iu", "cs", "cu", "ss", "su", "ls", "lu", "qs"], lit_types=None,
    bin_ops=["+", "-", "*", "/", "%", "&", "|", "^", "<<", ">>"] + BIN_CMP,
    un_ops=["-", "~", "!"], logical=True, cast=True, cond=True, compound=True, compound_ops=None, incdec=True, loops=True,
    relational=True, ifs=True, early_return=True, not_cond=True, bare_cond=True, same_operands=True,
)


class Plat:
    def __init__(self, name, char_bit, short, int_, long_, llong):
        self.name, self.cb, self.sz = name, char_bit, dict(c=1, s=short, i=int_, l=long_, q=llong)

    def bits(self, ty):
        return self.cb * self.sz[ty[0]]

    def tmin(self, ty):
        return -(1 << (self.bits(ty) - 1)) if ty[1] == "s" else 0

    def tmax(self, ty):
        return (1 << (self.bits(ty) - 1)) - 1 if ty[1] == "s" else (1 << self.bits(ty)) - 1

    def wire(self):
        return "%d,%d,%d,%d,%d" % (self.cb, self.sz["s"], self.sz["i"], self.sz["l"], self.sz["q"])

    def conv(self, ty, v):
        b = self.bits(ty)
        v &= (1 << b) - 1
        return v - (1 << b) if ty[1] == "s" and v >> (b - 1) else v


PLATFORMS = {"unix64": Plat("unix64", 8, 2, 4, 8, 8), "unix32": Plat("unix32", 8, 2, 4, 4, 8), "win64": Plat("win64", 8, 2, 4, 4, 8),
             "win32A": Plat("win32A", 8, 2, 4, 4, 8), "win32W": Plat("win32W", 8, 2, 4, 4, 8)}


class ProgGen:
    """generates one MiniC function as (wire tokens, C text, occurrence table).

    Independence discipline (the validator has no relational domain, cppcheck has symbolic values):
      * `rel[x]` = variables whose current value was computed from, or flowed into, the current value of x;
      * a condition (if / while / ?: / && / ||) only tests variables with an empty `rel`, against constants;
      * binary operators have at most one operand that mentions variables;
      * inside a loop body the variables tested by the loop condition are only updated by `x++ / x-- / x op= const`
        and never read by an assignment to another variable."""

    def __init__(self, rng, plat, grammar=None, size=None):
        self.rng, self.plat, self.g = rng, plat, dict(GRAMMAR, **(grammar or {}))
        self.nid = 0
        self.vars = []          # types, index = variable number
        self.names = []
        self.live = []          # variables declared so far (indices), readable
        self.size = size or rng.choice([4, 6, 8, 10, 14])
        self.loop_depth = 0
        self.rel = {}           # var -> set of related vars
        self.protected = []     # stack of sets: loop-condition variables of the enclosing loops

    def fresh(self):
        self.nid += 1
        return self.nid

    # ---- relation bookkeeping -----------------------------------------------------------------------------------
    def prot(self):
        r = set()
        for p in self.protected:
            r |= p
        return r

    def independent(self):
        return [x for x in self.live if not self.rel.get(x)]

    def readable(self):
        """variables an assigned expression may read"""
        pr = self.prot()
        return [x for x in self.live if x not in pr]

    def note_assign(self, x, e):
        vs = vars_of(e)
        new = set()
        for v in vs:
            if v != x:
                new |= {v} | self.rel.get(v, set())
        if x in vs:
            new |= self.rel.get(x, set())
        new.discard(x)
        for y in list(self.rel):
            self.rel[y].discard(x)
        self.rel[x] = set(new)
        for y in new:
            self.rel.setdefault(y, set()).add(x)

    def snapshot(self):
        return {k: set(v) for k, v in self.rel.items()}

    def merge(self, other):
        for k, v in other.items():
            self.rel.setdefault(k, set()).update(v)

    # ---- expressions: node = ("T", id, inner) --------------------------------------------------------------------
    def lit(self, v=None, ty=None):
        rng = self.rng
        ty = ty or rng.choice(self.g.get("lit_types") or (["is"] * 6 + ["iu", "iu", "ls", "lu", "qs"]))
        if ty not in LIT_SUFFIX:
            ty = "is"
        if v is None:
            k = rng.random()
            if k < 0.55:
                v = rng.choice([0, 1, 1, 2, 3, 4, 5, 7, 8, 10, 16, 31, 32, 100, 255, 256])
            elif k < 0.8:
                v = rng.randrange(0, 1000)
            else:
                b = rng.choice([7, 8, 15, 16, 31, 32])
                v = rng.choice([2 ** b - 1, 2 ** b, 2 ** b + 1])
        if v > self.plat.tmax(ty):
            v = self.plat.tmax(ty)      # a literal that does not fit gets a wider type in C: keep the value inside the type
        return ("T", self.fresh(), ("L", v, ty))

    def var(self, x):
        return ("T", self.fresh(), ("V", x))

    def leaf(self, pool):
        if pool and self.rng.random() < 0.6:
            return self.var(self.rng.choice(pool))
        return self.lit()

    def expr(self, depth, pool):
        """pool = variables the expression may read"""
        rng, g = self.rng, self.g
        if depth <= 0 or rng.random() < 0.3:
            return self.leaf(pool)
        k = rng.random()
        if k < 0.55:
            op = rng.choice(g["bin_ops"])
            a = self.expr(depth - 1, pool)
            if op in ("<<", ">>") and rng.random() < 0.8:
                b = self.lit(rng.choice([0, 1, 2, 3, 4, 7, 8, 15, 16, 31]), "is")
            elif op in ("/", "%") and rng.random() < 0.7:
                b = self.lit(rng.choice([1, 2, 3, 4, 7, 8, 10, 16]), rng.choice(self.g.get("lit_types") or ["is", "is", "iu"]))
            elif has_var(a) and not g.get("relational"):
                b = self.const_expr(depth - 1)
            else:
                b = self.expr(depth - 1, pool)
            if strip_ids(a) == strip_ids(b) and not g.get("same_operands"):
                b = self.lit()
            if rng.random() < 0.3:
                if not (op in ("<<", ">>", "/", "%", "-")):
                    a, b = b, a
            return self.no_const_ub(("T", self.fresh(), ("B", op, a, b)))
        if k < 0.67 and g["un_ops"]:
            op = rng.choice(g["un_ops"])
            sub = self.expr(depth - 1, pool)
            if op == "-" and sub[2][0] == "L":
                # `-` directly in front of a number is joined into one negative literal token by the tokenizer (and `a + -5`
                # is rewritten to `a - 5`): never print that shape
                sub = self.var(rng.choice(pool)) if pool else ("T", self.fresh(), ("B", "+", sub, self.lit()))
            return ("T", self.fresh(), ("U", op, sub))
        if k < 0.77 and g["logical"]:
            return ("T", self.fresh(), (rng.choice("AO"), self.cond_expr(depth - 1), self.cond_expr(depth - 1)))
        if k < 0.87 and g["cast"]:
            return ("T", self.fresh(), ("C", rng.choice(g["types"]), self.expr(depth - 1, pool)))
        if k < 0.95 and g["cond"]:
            a = self.expr(depth - 1, pool)
            b = self.const_expr(depth - 1) if has_var(a) and not g.get("relational") else self.expr(depth - 1, pool)
            return ("T", self.fresh(), ("Q", self.cond_expr(depth - 1), a, b))
        return self.leaf(pool)

    def const_expr(self, depth):
        rng = self.rng
        if depth <= 0 or rng.random() < 0.6:
            return self.lit()
        return self.no_const_ub(("T", self.fresh(), ("B", rng.choice(["+", "-", "*"]), self.const_expr(depth - 1), self.const_expr(depth - 1))))

    def no_const_ub(self, e):
        """a constant subexpression whose evaluation is undefined makes every execution through it undefined (all facts there
        are vacuous, but only a backward analysis could tell): replace it by a literal"""
        try:
            if py_eval(self.plat, self.vars, e) is None:
                return self.lit()
        except NonConst:
            pass
        return e

    def cond_expr(self, depth, x=None):
        """a condition: comparison of an independent variable with a constant (or a constant when there is none)"""
        rng, g = self.rng, self.g
        ind = self.independent()
        k = rng.random()
        if depth > 0 and k < 0.12 and g.get("not_cond", True):
            return ("T", self.fresh(), ("U", "!", self.cond_expr(depth - 1, x)))
        if depth > 0 and k < 0.27 and g["logical"]:
            return ("T", self.fresh(), (rng.choice("AO"), self.cond_expr(depth - 1, x), self.cond_expr(depth - 1)))
        if x is None:
            if not ind:
                return ("T", self.fresh(), ("B", rng.choice(BIN_CMP), self.lit(), self.lit()))
            x = rng.choice(ind)
        if k > 0.9 and g.get("bare_cond"):
            return self.var(x)
        c = self.lit(rng.choice([0, 0, 1, 2, 3, 4, 5, 8, 10, 100]), rng.choice(self.g.get("lit_types") or ["is"]))
        a, b = (self.var(x), c) if rng.random() < 0.8 else (c, self.var(x))
        return ("T", self.fresh(), ("B", rng.choice(BIN_CMP), a, b))

    # ---- statements ------------------------------------------------------------------------------------------------
    def new_var(self, ty, is_param=False):
        x = len(self.vars)
        self.vars.append(ty)
        self.names.append(("p%d" if is_param else "v%d") % x)
        self.rel[x] = set()
        return x

    def assign_target(self):
        """a variable that may be overwritten with an arbitrary value here: not a loop-condition variable of an enclosing loop"""
        pr = self.prot()
        c = [x for x in self.live if x not in pr]
        return self.rng.choice(c) if c else None

    def stmt(self, depth):
        rng, g = self.rng, self.g
        k = rng.random()
        pool = self.readable()
        if k < 0.28 or not self.live:
            e = self.expr(2, pool) if rng.random() < 0.7 else self.const_expr(1)
            x = self.new_var(rng.choice(g["types"]))
            self.note_assign(x, e)
            self.live.append(x)
            return ("=", self.fresh(), x, e, True)
        if k < 0.45:
            x = self.assign_target()
            if x is not None:
                e = self.expr(2, pool) if rng.random() < 0.6 else self.const_expr(1)
                if e[2] == ("V", x):
                    e = self.const_expr(1)
                self.note_assign(x, e)
                return ("=", self.fresh(), x, e, False)
        if k < 0.53 and g["compound"]:
            x = rng.choice(self.live)
            op = rng.choice(g.get("compound_ops") or ["+", "-", "*", "&", "|", "^", "+", "-", "<<", ">>", "/", "%"])
            e = self.lit(rng.choice([1, 2, 3, 4, 8]), "is")
            return ("op=", self.fresh(), op, x, e)       # x op= const keeps rel[x]
        if k < 0.62 and g["incdec"]:
            return ("++", self.fresh(), rng.random() < 0.6, rng.random() < 0.4, rng.choice(self.live))
        if k < 0.85 and depth > 0 and g.get("ifs", True):
            c = self.cond_expr(1)
            mark = len(self.live)
            before = self.snapshot()
            a = self.block(depth - 1, rng.choice([1, 1, 2, 3]))
            del self.live[mark:]
            after_a = self.snapshot()
            self.rel = before
            b = self.block(depth - 1, rng.choice([1, 1, 2])) if rng.random() < 0.5 else ("skip",)
            del self.live[mark:]
            self.merge(after_a)
            return ("if", c, a, b)
        if k < 0.95 and depth > 0 and g["loops"]:
            if rng.random() < 0.6 or not self.independent():
                i = self.new_var(rng.choice(g.get("counter_types") or ["is"]))
                init = ("=", self.fresh(), i, self.lit(rng.choice([0, 0, 1, 2]), "is"), True)
                self.live.append(i)
                mark = len(self.live)
                c = ("T", self.fresh(), ("B", rng.choice(["<", "<", "<=", "!="]), self.var(i), self.lit(rng.choice([1, 2, 3, 5, 10]), "is")))
                self.protected.append({i}); self.loop_depth += 1
                body = self.block(depth - 1, rng.choice([1, 2, 3]))
                self.loop_depth -= 1; self.protected.pop()
                del self.live[mark:]
                inc = ("++", self.fresh(), True, rng.random() < 0.5, i)
                return (";", init, ("while", c, (";", body, inc)))
            x = rng.choice(self.independent())
            mark = len(self.live)
            c = self.cond_expr(1, x)
            self.protected.append(set(vars_of(c))); self.loop_depth += 1
            body = self.block(depth - 1, rng.choice([1, 2, 3]))
            self.loop_depth -= 1; self.protected.pop()
            del self.live[mark:]
            upd = ("++", self.fresh(), rng.random() < 0.5, rng.random() < 0.5, x) if rng.random() < 0.7 else ("op=", self.fresh(), rng.choice(["+", "-"]), x, self.lit(rng.choice([1, 2, 3]), "is"))
            return ("while", c, (";", body, upd))
        if self.loop_depth > 0 and k < 0.98 and g.get("ifs", True):
            return ("if", self.cond_expr(1), (rng.choice(["break", "continue"]),), ("skip",))
        if rng.random() < 0.5 and g.get("early_return", True) and g.get("ifs", True):
            return ("if", self.cond_expr(1), ("return", self.expr(1, pool)), ("skip",))
        e = self.const_expr(1)
        x = self.new_var(rng.choice(g["types"]))
        self.note_assign(x, e)
        self.live.append(x)
        return ("=", self.fresh(), x, e, True)

    def block(self, depth, n):
        sts = [self.stmt(depth) for _ in range(n)]
        r = sts[-1]
        for s in reversed(sts[:-1]):
            r = (";", s, r)
        return r

    def func(self):
        rng = self.rng
        self.nparams = rng.choice([1, 2, 2, 3])
        for _ in range(self.nparams):
            self.live.append(self.new_var(rng.choice(self.g["types"]), True))
        body = self.block(2, self.size)
        body = (";", body, ("return", self.expr(2, list(self.live))))
        return body


class NonConst(Exception):
    pass


def py_eval(plat, vars_, e, env=None):
    """python copy of MiniC.evalE (value only): None = undefined behaviour; raises NonConst for a variable when env is None"""
    inner = e[2]
    k = inner[0]
    if k == "L":
        return plat.conv(inner[2], inner[1])
    if k == "V":
        if env is None:
            raise NonConst()
        return env[inner[1]]
    def arith(t, r):
        if t[1] == "s":
            return r if plat.tmin(t) <= r <= plat.tmax(t) else None
        return plat.conv(t, r)
    if k == "U":
        a = py_eval(plat, vars_, inner[2], env)
        if a is None:
            return None
        if inner[1] == "!":
            return int(a == 0)
        t = promote(plat, ty_of(plat, vars_, inner[2]))
        a = plat.conv(t, a)
        return arith(t, -a) if inner[1] == "-" else plat.conv(t, -a - 1)
    if k == "B":
        a = py_eval(plat, vars_, inner[2], env)
        if a is None:
            return None
        b = py_eval(plat, vars_, inner[3], env)
        if b is None:
            return None
        op = inner[1]
        ta, tb = ty_of(plat, vars_, inner[2]), ty_of(plat, vars_, inner[3])
        if op in ("<<", ">>"):
            t = promote(plat, ta)
            a, c = plat.conv(t, a), plat.conv(promote(plat, tb), b)
            if c < 0 or c >= plat.bits(t):
                return None
            if op == "<<":
                if t[1] == "s":
                    return None if a < 0 else arith(t, a << c)
                return plat.conv(t, a << c)
            return a >> c
        t = uac(plat, ta, tb)
        a, b = plat.conv(t, a), plat.conv(t, b)
        if op == "+": return arith(t, a + b)
        if op == "-": return arith(t, a - b)
        if op == "*": return arith(t, a * b)
        if op == "/": return None if b == 0 else arith(t, tdiv(a, b))
        if op == "%":
            if b == 0 or (t[1] == "s" and a == plat.tmin(t) and b == -1):
                return None
            return a - tdiv(a, b) * b
        m = (1 << plat.bits(t)) - 1
        if op == "&": return plat.conv(t, (a & m) & (b & m))
        if op == "|": return plat.conv(t, (a & m) | (b & m))
        if op == "^": return plat.conv(t, (a & m) ^ (b & m))
        return int({"<": a < b, "<=": a <= b, ">": a > b, ">=": a >= b, "==": a == b, "!=": a != b}[op])
    if k in "AO":
        a = py_eval(plat, vars_, inner[1], env)
        if a is None:
            return None
        if k == "A" and a == 0:
            return 0
        if k == "O" and a != 0:
            return 1
        b = py_eval(plat, vars_, inner[2], env)
        return None if b is None else int(b != 0)
    if k == "C":
        a = py_eval(plat, vars_, inner[2], env)
        return None if a is None else plat.conv(inner[1], a)
    if k == "Q":
        c = py_eval(plat, vars_, inner[1], env)
        if c is None:
            return None
        t = uac(plat, ty_of(plat, vars_, inner[2]), ty_of(plat, vars_, inner[3]))
        v = py_eval(plat, vars_, inner[2] if c != 0 else inner[3], env)
        return None if v is None else plat.conv(t, v)
    raise ValueError(k)


def vars_of(e):
    inner = e[2]
    if inner[0] == "V":
        return {inner[1]}
    r = set()
    for c in inner[1:]:
        if isinstance(c, tuple) and c and c[0] == "T":
            r |= vars_of(c)
    return r


def has_var(e):
    inner = e[2]
    if inner[0] == "V":
        return True
    return any(has_var(c) for c in inner[1:] if isinstance(c, tuple) and c and c[0] == "T")


def strip_ids(e):
    inner = e[2]
    return tuple(strip_ids(c) if isinstance(c, tuple) and c and c[0] == "T" else c for c in inner)


def wire_expr(e, out):
    _, id_, inner = e
    out += ["T", str(id_)]
    k = inner[0]
    if k == "L":
        out += ["L", str(inner[1]), inner[2]]
    elif k == "V":
        out += ["V", str(inner[1])]
    elif k == "U":
        out += ["U", inner[1]]; wire_expr(inner[2], out)
    elif k == "B":
        out += ["B", inner[1]]; wire_expr(inner[2], out); wire_expr(inner[3], out)
    elif k in "AO":
        out += [k]; wire_expr(inner[1], out); wire_expr(inner[2], out)
    elif k == "C":
        out += ["C", inner[1]]; wire_expr(inner[2], out)
    elif k == "Q":
        out += ["Q"]; wire_expr(inner[1], out); wire_expr(inner[2], out); wire_expr(inner[3], out)


def wire_stmt(s, out):
    k = s[0]
    if k == "skip":
        out.append("skip")
    elif k == "=":
        out += ["=", str(s[1]), str(s[2])]; wire_expr(s[3], out)
    elif k == "op=":
        out += ["op=", str(s[1]), s[2], str(s[3])]; wire_expr(s[4], out)
    elif k == "++":
        out += ["++", str(s[1]), "1" if s[2] else "0", "1" if s[3] else "0", str(s[4])]
    elif k == ";":
        out.append(";"); wire_stmt(s[1], out); wire_stmt(s[2], out)
    elif k == "if":
        out.append("if"); wire_expr(s[1], out); wire_stmt(s[2], out); wire_stmt(s[3], out)
    elif k == "while":
        out.append("while"); wire_expr(s[1], out); wire_stmt(s[2], out)
    elif k in ("break", "continue"):
        out.append(k)
    elif k == "return":
        out.append("return"); wire_expr(s[1], out)


class Printer:
    """prints the function as C; records for every mapped occurrence id the offset and spelling of its token"""

    def __init__(self, names, vars_, nparams):
        self.names, self.vars, self.nparams = names, vars_, nparams
        self.buf = []
        self.n = 0
        self.marks = {}      # id -> (offset, token text, node kind)

    def emit(self, t):
        self.buf.append(t); self.n += len(t)

    def mark(self, id_, text, kind):
        self.marks[id_] = (self.n, text, kind)

    def expr(self, e):
        _, id_, inner = e
        k = inner[0]
        if k == "L":
            t = str(inner[1]) + LIT_SUFFIX[inner[2]]
            self.mark(id_, t, "lit"); self.emit(t)
        elif k == "V":
            self.mark(id_, self.names[inner[1]], "var"); self.emit(self.names[inner[1]])
        elif k == "U":
            sub = inner[2]
            self.emit("(")
            self.mark(id_, inner[1], "un"); self.emit(inner[1]); self.expr(sub)
            self.emit(")")
        elif k == "B":
            self.emit("("); self.expr(inner[2]); self.emit(" ")
            self.mark(id_, inner[1], "bin"); self.emit(inner[1]); self.emit(" "); self.expr(inner[3]); self.emit(")")
        elif k in "AO":
            t = "&&" if k == "A" else "||"
            self.emit("("); self.expr(inner[1]); self.emit(" "); self.mark(id_, t, "logical"); self.emit(t); self.emit(" ")
            self.expr(inner[2]); self.emit(")")
        elif k == "C":
            self.emit("("); self.mark(id_, "(", "cast"); self.emit("(" + CNAME[inner[1]] + ")"); self.expr(inner[2]); self.emit(")")
        elif k == "Q":
            self.emit("("); self.expr(inner[1]); self.emit(" "); self.mark(id_, "?", "cond"); self.emit("? ")
            self.expr(inner[2]); self.emit(" : "); self.expr(inner[3]); self.emit(")")

    def stmt(self, s, ind):
        k = s[0]
        pad = "    " * ind
        if k == "skip":
            return
        if k == "=":
            self.emit(pad)
            if s[4]:
                self.emit(CNAME[self.vars[s[2]]] + " " + self.names[s[2]] + " = ")   # declaration: `=` is not an operator
            else:
                self.emit(self.names[s[2]] + " "); self.mark(s[1], "=", "assign"); self.emit("= ")
            self.expr(s[3]); self.emit(";\n")
        elif k == "op=":
            self.emit(pad + self.names[s[3]] + " "); self.mark(s[1], s[2] + "=", "compound"); self.emit(s[2] + "= "); self.expr(s[4]); self.emit(";\n")
        elif k == "++":
            t = "++" if s[2] else "--"
            self.emit(pad)
            if s[3]:
                self.mark(s[1], t, "incdec"); self.emit(t + self.names[s[4]])
            else:
                self.emit(self.names[s[4]]); self.mark(s[1], t, "incdec"); self.emit(t)
            self.emit(";\n")
        elif k == ";":
            self.stmt(s[1], ind); self.stmt(s[2], ind)
        elif k == "if":
            self.emit(pad + "if ("); self.expr(s[1]); self.emit(") {\n"); self.stmt(s[2], ind + 1); self.emit(pad + "}")
            if s[3] != ("skip",):
                self.emit(" else {\n"); self.stmt(s[3], ind + 1); self.emit(pad + "}")
            self.emit("\n")
        elif k == "while":
            self.emit(pad + "while ("); self.expr(s[1]); self.emit(") {\n"); self.stmt(s[2], ind + 1); self.emit(pad + "}\n")
        elif k in ("break", "continue"):
            self.emit(pad + k + ";\n")
        elif k == "return":
            self.emit(pad + "return "); self.expr(s[1]); self.emit(";\n")

    def func(self, body):
        self.emit("long long f(" + ", ".join(CNAME[self.vars[i]] + " " + self.names[i] for i in range(self.nparams)) + ")\n{\n")
        self.stmt(body, 1)
        self.emit("}\n")
        text = "".join(self.buf)
        # offset -> (line, column), 1-based
        pos, line, col = {}, 1, 1
        starts = [0]
        for i, ch in enumerate(text):
            if ch == "\n":
                starts.append(i + 1)
        import bisect
        occ = {}
        for id_, (off, t, kind) in self.marks.items():
            ln = bisect.bisect_right(starts, off)
            occ[id_] = dict(line=ln, col=off - starts[ln - 1] + 1, text=t, kind=kind)
        return text, occ


def node_index(body):
    """id -> inner node for every expression node and statement id"""
    idx = {}

    def ex(e):
        _, id_, inner = e
        idx[id_] = inner
        for c in inner[1:]:
            if isinstance(c, tuple) and c and c[0] == "T":
                ex(c)

    def st(s):
        k = s[0]
        if k == "=":
            idx[s[1]] = s; ex(s[3])
        elif k == "op=":
            idx[s[1]] = s; ex(s[4])
        elif k == "++":
            idx[s[1]] = s
        elif k == ";":
            st(s[1]); st(s[2])
        elif k == "if":
            ex(s[1]); st(s[2]); st(s[3])
        elif k == "while":
            ex(s[1]); st(s[2])
        elif k == "return":
            ex(s[1])
    st(body)
    return idx


def make_program(rng, plat, grammar=None, size=None):
    g = ProgGen(rng, plat, grammar, size)
    body = g.func()
    w = []
    wire_stmt(body, w)
    wire = "%d %d %s %s" % (g.nparams, len(g.vars), " ".join(g.vars), " ".join(w))
    text, occ = Printer(g.names, g.vars, g.nparams).func(body)
    return dict(wire=wire, text=text, occ=occ, vars=g.vars, nparams=g.nparams, body=body, plat=plat.name)


# ---- static types (python copy of MiniC.tyOf; only used for reading the dump and classifying) -------------------
def promote(plat, t):
    if RANKS.index(t[0]) < 2:
        return "is" if plat.tmin("is") <= plat.tmin(t) and plat.tmax(t) <= plat.tmax("is") else "iu"
    return t


def uac(plat, a, b):
    a, b = promote(plat, a), promote(plat, b)
    if a == b:
        return a
    if a[1] == b[1]:
        return b if RANKS.index(a[0]) < RANKS.index(b[0]) else a
    u, s = (b, a) if a[1] == "s" else (a, b)
    if RANKS.index(s[0]) <= RANKS.index(u[0]):
        return u
    if plat.tmax(u) <= plat.tmax(s):
        return s
    return s[0] + "u"


def ty_of(plat, vars_, e):
    inner = e[2]
    k = inner[0]
    if k == "L": return inner[2]
    if k == "V": return vars_[inner[1]]
    if k == "U": return "is" if inner[1] == "!" else promote(plat, ty_of(plat, vars_, inner[2]))
    if k == "B":
        if inner[1] in BIN_CMP: return "is"
        if inner[1] in ("<<", ">>"): return promote(plat, ty_of(plat, vars_, inner[2]))
        return uac(plat, ty_of(plat, vars_, inner[2]), ty_of(plat, vars_, inner[3]))
    if k in "AO": return "is"
    if k == "C": return inner[1]
    if k == "Q": return uac(plat, ty_of(plat, vars_, inner[2]), ty_of(plat, vars_, inner[3]))
    raise ValueError(k)


# ---- cppcheck --dump -------------------------------------------------------------------------------------------
TOKEN_RE = re.compile(r'<token id="([0-9a-fx]+)" file="[^"]*" linenr="(\d+)" column="(\d+)" str="([^"]*)"([^>]*)/>')
VALUES_RE = re.compile(r'<values id="([0-9a-fx]+)">(.*?)</values>', re.S)
VALUE_RE = re.compile(r'<value ([^>]*)/>')
ATTR_RE = re.compile(r'([\w-]+)="([^"]*)"')


def xml_unescape(t):
    return t.replace("&lt;", "<").replace("&gt;", ">").replace("&quot;", '"').replace("&apos;", "'").replace("&amp;", "&")


def parse_dump(path):
    """-> (platform attrs, {(line, col): dict(str, values=[attr dict], unsigned)})"""
    text = open(path, encoding="utf-8", errors="replace").read()
    m = re.search(r"<platform ([^>]*)/>", text)
    plat = dict(ATTR_RE.findall(m.group(1))) if m else {}
    cfg = text.find("<dump cfg=")
    end = text.find("</dump>", cfg)
    body = text[cfg:end if end > 0 else len(text)]
    values = {}
    for vm in VALUES_RE.finditer(body):
        values[vm.group(1)] = [dict(ATTR_RE.findall(x.group(1))) for x in VALUE_RE.finditer(vm.group(2))]
    toks = {}
    for tm in TOKEN_RE.finditer(body):
        attrs = dict(ATTR_RE.findall(tm.group(5)))
        toks[(int(tm.group(2)), int(tm.group(3)))] = dict(str=xml_unescape(tm.group(4)), values=values.get(attrs.get("values"), []),
                                                            unsigned=attrs.get("valueType-sign") == "unsigned", vt=attrs.get("valueType-type"))
    return plat, toks


def facts_of(prog, plat, toks):
    """claims (Known / Impossible INT values with indirect=0) on the mapped occurrences.
    -> (facts [dict(occ, tok, K/I, bound, v)], mapping problems [str])"""
    facts, problems = [], []
    for id_, o in prog["occ"].items():
        t = toks.get((o["line"], o["col"]))
        if t is None or t["str"] != o["text"]:
            problems.append("occurrence %d (%s %r at %d:%d) maps to %r" % (id_, o["kind"], o["text"], o["line"], o["col"], t and t["str"]))
            continue
        for v in t["values"]:
            if "intvalue" not in v or v.get("indirect", "0") != "0":
                continue
            kind = "K" if v.get("known") == "true" else "I" if v.get("impossible") == "true" else None
            if kind is None:
                continue
            iv = int(v["intvalue"])
            if iv >= 2 ** 63:
                iv -= 2 ** 64          # printed through biguint for unsigned tokens: recover the bigint
            facts.append(dict(occ=id_, k=kind, b={"Point": "P", "Upper": "U", "Lower": "L"}[v.get("bound", "Point")], v=iv, tok=o["text"]))
    return facts, problems


def fact_tok(f):
    return "%d:%s%s%d" % (f["occ"], f["k"], f["b"], f["v"])


def fact_holds(f, x):
    if f["k"] == "K":
        return x == f["v"]
    return {"P": x != f["v"], "U": x > f["v"], "L": x < f["v"]}[f["b"]]


def boundary_args(rng, plat, prog, n, fact_values=()):
    """argument vectors: per parameter a candidate set (program literals and neighbours, 0, +-1, type limits, a few random
    values); the first vectors are diagonal, the others random points of the product"""
    lits = sorted(set(int(x) for x in re.findall(r"\b(\d+)[ul]*\b", prog["text"])))
    lits = [l for l in lits if l < 2 ** 40][:40]
    ptys = prog["vars"][:prog["nparams"]]
    cands = []
    for t in ptys:
        c = {0, 1, -1, 2, -2, plat.tmin(t), plat.tmax(t), plat.tmin(t) + 1, plat.tmax(t) - 1}
        for l in lits:
            c |= {l - 1, l, l + 1, -l}
        for fv in fact_values:       # inputs that put an operand at the boundary the rejected fact talks about
            c |= {fv - 1, fv, fv + 1}
            for l in lits[:12]:
                c |= {fv + l, fv - l, l - fv}
        c |= {rng.randrange(-300, 300) for _ in range(3)} | {rng.randrange(plat.tmin(t), plat.tmax(t) + 1) for _ in range(3)}
        cands.append(sorted(set(plat.conv(t, v) for v in c)))
    out = [[plat.conv(t, 0) for t in ptys]]
    seen = {tuple(out[0])}
    # phase 1: the full product of small per-parameter sets (type limits, 0, +-1, and the neighbours of every literal the
    # parameter is directly compared with), as far as it stays below 3000 vectors
    cmp_lits = {}
    def scan(e):
        inner = e[2]
        if inner[0] == "B" and inner[1] in BIN_CMP:
            for x, y in ((inner[2], inner[3]), (inner[3], inner[2])):
                if x[2][0] == "V" and y[2][0] == "L":
                    cmp_lits.setdefault(x[2][1], set()).add(y[2][1])
        for c in inner[1:]:
            if isinstance(c, tuple) and c and c[0] == "T":
                scan(c)
    for id_, node in prog.get("index", {}).items():
        if node[0] in ("=", "op=", "++"):
            continue
        scan(("T", id_, node))
    small = []
    for i, t in enumerate(ptys):
        c = {0, 1, -1, plat.tmin(t), plat.tmax(t)}
        for l in cmp_lits.get(i, ()):
            c |= {l - 1, l, l + 1}
        small.append(sorted(set(plat.conv(t, v) for v in c)))
    total = 1
    for c in small:
        total *= len(c)
    if total <= 3000:
        import itertools
        for args in itertools.product(*small):
            if args not in seen:
                seen.add(args); out.append(list(args))
    n += len(out)
    tries = 0
    while len(out) < n and tries < 4 * n:
        tries += 1
        args = tuple(rng.choice(c) for c in cands)
        if args not in seen:
            seen.add(args); out.append(list(args))
    return out


def run_cppcheck_dump(ctx, path, platname):
    import time
    for attempt in range(30):
        try:
            rc, out, err = core.sh([os.environ.get("C01_CPPCHECK") or ctx.cppcheck, "--dump", "-q", "--platform=" + platname, "--max-configs=1", path], timeout=300)
            return rc, out + err
        except (PermissionError, FileNotFoundError, OSError):
            time.sleep(2)      # the shared binary is being relinked by a concurrent check
    return -1, "cppcheck binary not executable"


def enclosing_ifs(body):
    """statement/expression id -> tuple of (if-statement ordinal, branch) it is nested in"""
    enc, counter = {}, [0]

    def ex(e, path):
        enc[e[1]] = path
        for c in e[2][1:]:
            if isinstance(c, tuple) and c and c[0] == "T":
                ex(c, path)

    def st(s, path):
        k = s[0]
        if k == "=":
            enc[s[1]] = path; ex(s[3], path)
        elif k == "op=":
            enc[s[1]] = path; ex(s[4], path)
        elif k == "++":
            enc[s[1]] = path
        elif k == ";":
            st(s[1], path); st(s[2], path)
        elif k == "if":
            counter[0] += 1
            n = counter[0]
            ex(s[1], path); st(s[2], path + ((n, 0),)); st(s[3], path + ((n, 1),))
        elif k == "while":
            counter[0] += 1
            n = counter[0]
            ex(s[1], path + ((n, 2),)); st(s[2], path + ((n, 2),))
        elif k == "return":
            ex(s[1], path)
    st(body, ())
    return enc


def classify_program_violation(prog, plat, f, toks, run_events, args=None, all_runs=None):
    """known-finding classes of a reported fact that a concrete UB-free execution contradicts"""
    idx = prog["index"]
    node = idx.get(f["occ"])
    if node is None:
        return None
    if node[0] == "B" and node[1] in ("+", "-", "*", "<<"):
        ety = ty_of(plat, prog["vars"], ("T", f["occ"], node))
        if ety[1] == "u" and f["k"] == "K":
            # F5: exact result of the operation on the operand values of the failing run lies outside the type and is the reported value
            a_id, b_id = node[2][1], node[3][1]
            last = {}
            for (i, v) in run_events:
                last[i] = v
                if i == f["occ"] and a_id in last and b_id in last:
                    a, b = plat.conv(ety, last[a_id]), plat.conv(ety if node[1] != "<<" else promote(plat, ty_of(plat, prog["vars"], node[3])), last[b_id])
                    exact = {"+": a + b, "-": a - b, "*": a * b, "<<": a << b if 0 <= b < 64 else None}[node[1]]
                    if exact is not None and exact == f["v"] and not (plat.tmin(ety) <= exact <= plat.tmax(ety)):
                        return "fold-binary-unsigned-wrap"
        if node[1] == "-" and f["k"] == "I":
            if ety[1] == "u":
                # F21: the reported Impossible bound is true of the mathematically exact a - b on the operand values of the failing
                # run, that exact difference is negative (the unsigned subtraction wraps), and the wrapped value breaks the bound
                a_id, b_id = node[2][1], node[3][1]
                last = {}
                for (i, v) in run_events:
                    last[i] = v
                    if i == f["occ"] and not fact_holds(f, v) and a_id in last and b_id in last:
                        exact = plat.conv(ety, last[a_id]) - plat.conv(ety, last[b_id])
                        if exact < 0 and fact_holds(f, exact) and plat.conv(ety, exact) == v:
                            return "infer-minus-unsigned-wrap"
                return None
            for sub in (node[2], node[3]):
                o = prog["occ"].get(sub[1])
                t = toks.get((o["line"], o["col"])) if o else None
                if t and any(("possible" in v or "inconclusive" in v) and "intvalue" in v for v in t["values"]):
                    return "infer-minus-impossible-from-possible-ref"
    if node[0] == "V" and f["k"] == "I":
        # F1h: an Impossible value of x read after `x *= k` with a constant k <= 0 as the last write of the failing run, the reported
        # value being a multiple of k (k < 0) resp. 0 (k = 0): the value was carried through a multiplication that is not
        # strictly increasing
        x = node[1]
        j = next((j for j, (i, v) in enumerate(run_events) if i == f["occ"] and not fact_holds(f, v)), None)
        wr = dict((id_, n) for id_, n in idx.items() if n[0] == "=" and n[2] == x or n[0] == "op=" and n[3] == x or n[0] == "++" and n[4] == x)
        if j is not None:
            for k in range(j - 1, -1, -1):
                if run_events[k][0] in wr:
                    n = wr[run_events[k][0]]
                    if n[0] == "op=" and n[2] == "*":
                        try:
                            c = py_eval(plat, prog["vars"], n[4])
                        except NonConst:
                            c = None
                        if c is not None and c <= 0 and (f["v"] == 0 if c == 0 else f["v"] % c == 0):
                            return "impossible-carried-through-multiply-by-nonpositive"
                    break
    if node[0] == "V" and all_runs is not None and f["k"] == "K" and f["b"] == "P":
        # F1a: the reported Known value of x is exactly the value a particular assignment W stores, W and the last writer of the
        # failing run are different statements, one of the two sits in an `if` branch that does not enclose this read, and there
        # is a UB-free run in which W is the last writer before the read and the fact is true.  (Anything else on a variable
        # read - Impossible values, bounds, a Known value no assignment stores - is reported as a violation.)
        x = node[1]
        enc = prog.setdefault("enc", enclosing_ifs(prog["body"]))
        wr = dict((id_, n) for id_, n in idx.items() if n[0] == "=" and n[2] == x or n[0] == "op=" and n[3] == x or n[0] == "++" and n[4] == x)
        rpath = enc.get(f["occ"], ())
        def conditional(w):
            wp = enc.get(w, ())
            return len(wp) > 0 and wp != rpath[:len(wp)] and all(br != 2 for (_, br) in wp)     # an if/else branch, not a loop body
        def stored(evs, k):
            """value the writer event k left in x"""
            n = wr[evs[k][0]]
            if n[0] == "++" and not n[3]:
                return evs[k][1] + (1 if n[2] else -1)      # postfix: the event carries the old value
            return evs[k][1]
        def last_writer_at_read(evs, want_ok):
            """(writer id, stored value) of the last write to x before the first event of this read whose value does / does not
            satisfy the fact; writer 0 = no write (parameter value)"""
            for j, (i, v) in enumerate(evs):
                if i == f["occ"] and fact_holds(f, v) == want_ok:
                    for k in range(j - 1, -1, -1):
                        if evs[k][0] in wr:
                            return evs[k][0], stored(evs, k)
                    return 0, None
            return None
        bad = last_writer_at_read(run_events, False)
        if bad is not None:
            for (a2, outcome, evs2) in all_runs:
                good = last_writer_at_read(evs2, True)
                if good is None or good[0] == 0 or good[0] == bad[0]:
                    continue
                if good[1] == f["v"] and (conditional(good[0]) or (bad[0] != 0 and conditional(bad[0]))):
                    return "conditional-assignment-one-path-value"
    return None


def run_programs(ctx, res, drv, progs, nargs, fuel=400, chunk=20):
    """dump every program, validate every mapped fact; search a failing execution for the rejected ones"""
    rng = ctx.rng
    d = os.path.join(ctx.tmp, "progs")
    os.makedirs(d, exist_ok=True)
    vlines, per = [], []
    # several functions per translation unit (one cppcheck process per chunk); every function keeps its own line offset
    chunks = {}
    for prog in progs:
        chunks.setdefault(prog["plat"], []).append(prog)
    nfile = 0
    for platname, plist in chunks.items():
        plat = PLATFORMS[platname]
        for c0 in range(0, len(plist), chunk):
            part = plist[c0:c0 + chunk]
            path = os.path.join(d, "p%d.c" % nfile)
            nfile += 1
            text, line0 = "", []
            for k, prog in enumerate(part):
                line0.append(text.count("\n"))
                text += prog["text"].replace("long long f(", "long long f%d(" % k, 1) + "\n"
            open(path, "w").write(text)
            rc, log = run_cppcheck_dump(ctx, path, plat.name)
            if not os.path.exists(path + ".dump"):
                res.oblig("e2e:dump", False, "machinery", "cppcheck --dump produced no dump: %s\n%s" % (log[-300:], text[:2000]))
                return
            dplat, toks = parse_dump(path + ".dump")
            os.remove(path + ".dump")
            want = dict(char_bit=str(plat.cb), short_bit=str(plat.bits("ss")), int_bit=str(plat.bits("is")), long_bit=str(plat.bits("ls")), long_long_bit=str(plat.bits("qs")))
            if any(dplat.get(k) != v for k, v in want.items()):
                res.oblig("e2e:platform", False, "translation", "platform record in the dump %s differs from the table %s" % (dplat, want))
                return
            for prog, l0 in zip(part, line0):
                ptoks = {(ln - l0, col): t for (ln, col), t in toks.items() if ln > l0}
                prog["index"] = node_index(prog["body"])
                facts, problems = facts_of(prog, plat, ptoks)
                if problems:
                    res.oblig("e2e:token-mapping", False, "machinery", "%s\n%s" % (problems[0], prog["text"]))
                    return
                vlines.append("validate %s %s ## %s" % (plat.wire(), prog["wire"], " ".join(fact_tok(f) for f in facts)))
                per.append((prog, plat, facts, ptoks))
    rc, vout, err = core.run_lines(drv, [], vlines, timeout=1200)
    if len(vout) != len(vlines) or any(o == "bad-op" for o in vout):
        res.oblig("e2e:driver", False, "machinery", "driver answered %d lines for %d programs; first bad: %s" %
                  (len(vout), len(vlines), next((vlines[i][:300] for i, o in enumerate(vout) if o == "bad-op"), err[-300:])))
        return
    rejected = []
    nfacts = nacc = 0
    for (prog, plat, facts, toks), o in zip(per, vout):
        nontriv = False
        for i, f in enumerate(facts):
            nfacts += 1
            kind = prog["occ"][f["occ"]]["kind"]
            res.count("fact:%s:%s" % (kind, f["k"] + f["b"]))
            if kind not in ("lit", "neglit"):
                nontriv = True
            if o != "-" and o[i] == "1":
                nacc += 1
            else:
                rejected.append((prog, plat, f, toks))
        res.case("prog|" + prog["text"], nontriv, dict(tie="program", text=prog["text"][:400], facts=len(facts), accepted=o) if len(res.samples) < 10 else None)
        res.count("program-statements:%d" % min(prog["text"].count(";"), 30))
    res.traces_validated += nacc
    res.extra["facts_total"] = res.extra.get("facts_total", 0) + nfacts
    res.extra["facts_proved_for_all_inputs"] = res.extra.get("facts_proved_for_all_inputs", 0) + nacc
    res.extra["facts_rejected"] = res.extra.get("facts_rejected", 0) + len(rejected)
    # ---- violation search for rejected facts ---------------------------------------------------------------------
    unexplained = []
    by_prog = {}
    for (prog, plat, f, toks) in rejected:
        by_prog.setdefault(id(prog), (prog, plat, toks, []))[3].append(f)
    rlines, rmeta = [], []
    for prog, plat, toks, fs in by_prog.values():
        for args in boundary_args(rng, plat, prog, nargs, sorted(set(f["v"] for f in fs))[:6]):
            rlines.append("run %s %d %s ## %s" % (plat.wire(), fuel, prog["wire"], " ".join(map(str, args))))
            rmeta.append((prog, args))
    rout = []
    if rlines:
        rc, rout, err = core.run_lines(drv, [], rlines, timeout=1200)
        if len(rout) != len(rlines):
            res.oblig("e2e:driver-run", False, "machinery", "driver answered %d lines for %d runs: %s" % (len(rout), len(rlines), err[-300:]))
            return
    runs = {}
    for (prog, args), o in zip(rmeta, rout):
        parts = o.split()
        res.count("run:" + parts[0])
        evs = [(int(a), int(b)) for a, b in (p.split("=") for p in parts[1:])]
        runs.setdefault(id(prog), []).append((args, parts[0], evs))
    for prog, plat, toks, fs in by_prog.values():
        prs = [r for r in runs.get(id(prog), []) if r[1] == "ret"]
        idx = prog["index"]
        writers = {}
        for id_, node in idx.items():
            if node[0] == "=":
                writers.setdefault(node[2], set()).add(id_)
            elif node[0] == "op=":
                writers.setdefault(node[3], set()).add(id_)
            elif node[0] == "++":
                writers.setdefault(node[4], set()).add(id_)
        fail = {}
        for fi, f in enumerate(fs):
            for (args, outcome, evs) in prs:
                j = next((j for j, (i, v) in enumerate(evs) if i == f["occ"] and not fact_holds(f, v)), None)
                if j is not None:
                    fail[fi] = (args, evs[j][1], evs, j)
                    break

        def sources(occ, evs, j):
            """occurrences whose value flows into occurrence `occ` at event position j"""
            node = idx.get(occ)
            if node is None:
                return []
            def last_writer(x):
                for k in range(j - 1, -1, -1):
                    if evs[k][0] in writers.get(x, ()):
                        return [(evs[k][0], k)]
                return []
            def pos_of(cid):
                for k in range(j, -1, -1):
                    if evs[k][0] == cid:
                        return k
                return j
            if node[0] == "V":
                return last_writer(node[1])
            if node[0] == "=":
                return [(node[3][1], pos_of(node[3][1]))]
            if node[0] == "op=":
                return [(node[4][1], pos_of(node[4][1]))] + last_writer(node[3])
            if node[0] == "++":
                return last_writer(node[4])
            return [(c[1], pos_of(c[1])) for c in node[1:] if isinstance(c, tuple) and c and c[0] == "T"]

        def violated_at(occ, evs):
            return [g for g in fs if g["occ"] == occ and any(i == occ and not fact_holds(g, v) for (i, v) in evs)]

        def violated_source(occ, evs, j, seen):
            """a violated fact on a data-flow source of occurrence `occ` (event position j) in this run, or None"""
            todo = list(sources(occ, evs, j))
            while todo:
                so, sj = todo.pop(0)
                if so in seen:
                    continue
                vg = violated_at(so, evs)
                if vg:
                    return vg[0], sj
                if idx.get(so, ("",))[0] in ("=", "op=", "++") and not any(g["occ"] == so for g in fs):
                    seen.add(so)
                    todo += sources(so, evs, sj)     # a statement without a mapped token (declaration): look through it
            return None

        roots = {}
        for fi, f in enumerate(fs):
            desc = "%s %s%d on `%s` (occurrence %d, %s)" % ("Known" if f["k"] == "K" else "Impossible", "" if f["b"] == "P" else {"U": "<=", "L": ">="}[f["b"]],
                                                            f["v"], f["tok"], f["occ"], prog["occ"][f["occ"]]["kind"])
            if fi not in fail:
                unexplained.append((prog, f, desc))
                continue
            # a fact is a consequence of another violated fact only if in EVERY UB-free run in which it fails one of its data-flow
            # sources carries a violated fact as well; a run in which it fails while all its sources are fine makes it a root of its own
            own = None
            for (args2, outcome2, evs2) in prs:
                j2 = next((j2 for j2, (i, v) in enumerate(evs2) if i == f["occ"] and not fact_holds(f, v)), None)
                if j2 is not None and violated_source(f["occ"], evs2, j2, {f["occ"]}) is None:
                    own = (args2, evs2[j2][1], evs2, j2)
                    break
            if own is not None:
                args, val, evs, j = own
                cur = f
            else:
                args, val, evs, j = fail[fi]
                # walk to a root cause: a violated fact none of whose sources carries a violated fact in the same run
                cur, curj, seen = f, j, set()
                while True:
                    seen.add(cur["occ"])
                    nxt = violated_source(cur["occ"], evs, curj, seen)
                    if nxt is None:
                        break
                    cur, curj = nxt
            rk = (cur["occ"], cur["k"], cur["b"], cur["v"])
            if rk not in roots:
                rv = next(v for (i, v) in evs if i == cur["occ"] and not fact_holds(cur, v))
                roots[rk] = dict(f=cur, args=args, val=rv, evs=evs, derived=0)
            elif cur is f and own is not None:
                roots[rk].update(args=args, val=val, evs=evs)      # prefer the run in which the fact is a root of its own
            if cur is not f:
                roots[rk]["derived"] += 1
        for rk, r in roots.items():
            f = r["f"]
            desc = "%s %s%d on `%s` (occurrence %d, %s)" % ("Known" if f["k"] == "K" else "Impossible", "" if f["b"] == "P" else {"U": "<=", "L": ">="}[f["b"]],
                                                            f["v"], f["tok"], f["occ"], prog["occ"][f["occ"]]["kind"])
            key = classify_program_violation(prog, plat, f, toks, r["evs"], r["args"], prs)
            if key is None:
                # a corpus witness names the exact fact it is a witness for (classifier = this program, this token, this value)
                for ex in prog.get("expect", ()):
                    if ex["tok"] == f["tok"] and ex["fact"] == "%s%s%d" % (f["k"], f["b"], f["v"]):
                        key = ex["key"]
            res.violation("cppcheck reports %s at %d:%d but the UB-free execution f(%s) evaluates it to %d (%d further reported facts fail as a consequence)\n%s" %
                          (desc, prog["occ"][f["occ"]]["line"], prog["occ"][f["occ"]]["col"], ", ".join(map(str, r["args"])), r["val"], r["derived"], prog["text"]),
                          dict(kind="program", platform=plat.name, text=prog["text"], wire=prog["wire"], fact=fact_tok(f), args=r["args"], value=r["val"],
                               occ=prog["occ"][f["occ"]], key=key), concrete=True, key=key)
            res.count("violation:" + str(key))
            res.count("violation-consequences", r["derived"])
    if unexplained:
        prog, f, desc = unexplained[0]
        res.oblig("e2e:validator-accepts-every-reported-fact", False, "validation",
                  "%d reported fact(s) rejected by the verified validator and no contradicting execution found; first: %s at %d:%d\n%s" %
                  (len(unexplained), desc, prog["occ"][f["occ"]]["line"], prog["occ"][f["occ"]]["col"], prog["text"]))
        res.extra["unexplained_rejections"] = ["%s | %s" % (d, p["text"]) for p, f, d in unexplained[:20]]
    else:
        res.oblig("e2e:validator-accepts-every-reported-fact", True, "validation", "")


# ---- validation of the MiniC semantics (the specification side) against gcc -fsanitize=undefined -------------------------------
class InstrPrinter(Printer):
    """prints the function with every occurrence wrapped in a tracing statement expression (GNU C)"""

    def expr(self, e):
        _, id_, inner = e
        self.emit("TR(%d, " % id_)
        k = inner[0]
        if k == "L":
            self.emit(str(inner[1]) + LIT_SUFFIX[inner[2]])
        elif k == "V":
            self.emit(self.names[inner[1]])
        elif k == "U":
            self.emit("(" + inner[1]); self.expr(inner[2]); self.emit(")")
        elif k == "B":
            self.emit("("); self.expr(inner[2]); self.emit(" " + inner[1] + " "); self.expr(inner[3]); self.emit(")")
        elif k in "AO":
            self.emit("("); self.expr(inner[1]); self.emit(" && " if k == "A" else " || "); self.expr(inner[2]); self.emit(")")
        elif k == "C":
            self.emit("((" + CNAME[inner[1]] + ")"); self.expr(inner[2]); self.emit(")")
        elif k == "Q":
            self.emit("("); self.expr(inner[1]); self.emit(" ? "); self.expr(inner[2]); self.emit(" : "); self.expr(inner[3]); self.emit(")")
        self.emit(")")

    def stmt(self, s, ind):
        k = s[0]
        if k == "=":
            n = self.names[s[2]]
            self.emit((CNAME[self.vars[s[2]]] + " " if s[4] else "") + n + " = "); self.expr(s[3]); self.emit("; REC(%d, %s);\n" % (s[1], n))
        elif k == "op=":
            n = self.names[s[3]]
            self.emit(n + " " + s[2] + "= "); self.expr(s[4]); self.emit("; REC(%d, %s);\n" % (s[1], n))
        elif k == "++":
            n, t = self.names[s[4]], "++" if s[2] else "--"
            if s[3]:
                self.emit("%s%s; REC(%d, %s);\n" % (t, n, s[1], n))
            else:
                self.emit("{ __typeof__(%s) _o = %s; %s%s; REC(%d, _o); }\n" % (n, n, n, t, s[1]))
        elif k == "while":
            self.emit("while ("); self.expr(s[1]); self.emit(") { LOOPGUARD;\n"); self.stmt(s[2], ind + 1); self.emit("}\n")
        else:
            Printer.stmt(self, s, ind)


NATIVE_PRELUDE = r"""
#include <stdio.h>
#include <stdlib.h>
static long _it;
static void rec_s(int id, long long v) { printf(" %d=%lld", id, v); }
static void rec_u(int id, unsigned long long v) { printf(" %d=%llu", id, v); }
#define REC(id, x) do { if (((__typeof__(x))-1) < 0) rec_s(id, (long long)(x)); else rec_u(id, (unsigned long long)(x)); } while (0)
#define TR(id, e) ({ __typeof__(e) _v = (e); REC(id, _v); _v; })
#define LOOPGUARD do { if (++_it > 300) { printf(" TIMEOUT\n"); exit(0); } } while (0)
"""


def native_validation(ctx, res, drv, nprog, nargs):
    """the Lean interpreter (= the semantics the validator is proved against) and gcc must agree on traces and on UB"""
    import shutil
    if not shutil.which("gcc"):
        res.notes.append("gcc not available: MiniC semantics not cross-checked natively")
        return
    rng = ctx.rng
    plat = PLATFORMS["unix64"]
    progs = [make_program(rng, plat, GRAMMAR_FULL, rng.choice([3, 4, 6])) for _ in range(nprog)]
    src = NATIVE_PRELUDE
    for k, pr in enumerate(progs):
        names = [("p%d" if i < pr["nparams"] else "v%d") % i for i in range(len(pr["vars"]))]
        ip = InstrPrinter(names, pr["vars"], pr["nparams"])
        text, _ = ip.func(pr["body"])
        src += text.replace("long long f(", "static long long f%d(" % k, 1) + "\n"
    src += "int main(int argc, char** argv) {\n  setvbuf(stdout, NULL, _IONBF, 0);\n  int k = atoi(argv[1]);\n  switch (k) {\n"
    for k, pr in enumerate(progs):
        args = ", ".join("(%s)strtoll(argv[%d], 0, 10)" % (CNAME[t], i + 2) if t != "lu" and t != "qu" else "(%s)strtoull(argv[%d], 0, 10)" % (CNAME[t], i + 2)
                         for i, t in enumerate(pr["vars"][:pr["nparams"]]))
        src += "  case %d: f%d(%s); break;\n" % (k, k, args)
    src += "  }\n  printf(\" RET\\n\");\n  return 0;\n}\n"
    d = os.path.join(ctx.tmp, "native")
    os.makedirs(d, exist_ok=True)
    cpath, exe = os.path.join(d, "n.c"), os.path.join(d, "n")
    open(cpath, "w").write(src)
    rc, out, err = core.sh(["gcc", "-std=gnu11", "-O0", "-w", "-fsanitize=undefined", "-fno-sanitize-recover=all", "-fwrapv-pointer", cpath, "-o", exe], timeout=600)
    if rc != 0:
        res.oblig("spec:native-build", False, "machinery", "gcc does not compile the instrumented programs: " + err[-1500:])
        return
    lines, meta = [], []
    for k, pr in enumerate(progs):
        for args in boundary_args(rng, plat, dict(pr, index=node_index(pr["body"])), nargs)[:nargs]:
            lines.append("run %s 2000 %s ## %s" % (plat.wire(), pr["wire"], " ".join(map(str, args))))
            meta.append((k, pr, args))
    rc, lout, err = core.run_lines(drv, [], lines, timeout=1200)
    bad, compared = [], 0
    for (k, pr, args), lo in zip(meta, lout):
        lparts = lo.split()
        if lparts[0] == "timeout":
            res.count("native:lean-timeout"); continue
        # unsigned values travel as their value; the interpreter holds values in the type's range already
        rc, nout, nerr = core.sh([exe, str(k)] + [str(a) for a in args], timeout=20)
        nparts = nout.split()
        if nparts and nparts[-1] == "TIMEOUT":
            res.count("native:timeout"); continue
        native_ub = rc != 0
        nevs = [p for p in nparts if "=" in p]
        levs = lparts[1:]
        compared += 1
        def per_id(evs):
            d = {}
            for p in evs:
                i, v = p.split("=")
                d.setdefault(i, []).append(v)
            return d
        # the order in which the operands of an operator are evaluated is unspecified in C (and irrelevant here, expressions
        # have no side effects): compare the value sequence of every occurrence, not the interleaving
        if lparts[0] == "ub":
            ok = native_ub
        else:
            ok = (not native_ub) and per_id(nevs) == per_id(levs)
        res.count("native:" + lparts[0])
        if not ok:
            bad.append("f(%s): interpreter %s | gcc rc=%s %s %s\n%s" % (", ".join(map(str, args)), lo[:300], rc, " ".join(nparts)[:300], nerr[-200:], pr["text"]))
    res.extra["native_runs_compared"] = res.extra.get("native_runs_compared", 0) + compared
    res.oblig("spec:interpreter-agrees-with-gcc-ubsan", not bad and compared > 0, "validation",
              "" if not bad else "%d of %d runs differ; first: %s" % (len(bad), compared, bad[0]))


# ---- targeted program families ------------------------------------------------------------------------------------------
class TB:
    """tiny builder of MiniC statements / expressions (nodes as in ProgGen)"""

    def __init__(self):
        self.n = 0

    def id(self):
        self.n += 1
        return self.n

    def L(self, v, ty="is"): return ("T", self.id(), ("L", v, ty))
    def V(self, x): return ("T", self.id(), ("V", x))
    def U(self, op, e): return ("T", self.id(), ("U", op, e))
    def B(self, op, a, b): return ("T", self.id(), ("B", op, a, b))
    def C(self, ty, e): return ("T", self.id(), ("C", ty, e))
    def decl(self, x, e): return ("=", self.id(), x, e, True)
    def asg(self, x, e): return ("=", self.id(), x, e, False)
    def cas(self, op, x, e): return ("op=", self.id(), op, x, e)
    def inc(self, x, inc=True, pre=False): return ("++", self.id(), inc, pre, x)

    @staticmethod
    def seq(*ss):
        r = ss[-1]
        for s in reversed(ss[:-1]):
            r = (";", s, r)
        return r


def finish_program(plat, vars_, nparams, body):
    names = [("p%d" if i < nparams else "v%d") % i for i in range(len(vars_))]
    w = []
    wire_stmt(body, w)
    text, occ = Printer(names, vars_, nparams).func(body)
    return dict(wire="%d %d %s %s" % (nparams, len(vars_), " ".join(vars_), " ".join(w)), text=text, occ=occ, vars=vars_, nparams=nparams,
                body=body, plat=plat.name)


def make_carry_program(rng, plat):
    """condition on an int parameter, then compound assignments / ++ / -- with constant operands, then reads and comparisons:
    the facts cppcheck carries through `x op= k` (forward analysis, ValueFlowAnalyzer::isWritable / writeValue)"""
    b = TB()
    vars_ = ["is", "is", "is", "is"]

    def upd(x):
        k = rng.random()
        if k < 0.2:
            return b.inc(x, rng.random() < 0.5, rng.random() < 0.5)
        op = rng.choice(["+", "-", "*", "/", "/", "%", "<<", ">>", "&", "|", "^"])
        c = {"*": [1, 2, 3, 4, 10], "/": [1, 2, 2, 3, 4, 10], "%": [2, 3, 4, 8, 10], "<<": [1, 2, 3], ">>": [1, 2, 3],
             "&": [1, 3, 7, 255], "|": [1, 2, 8], "^": [1, 3, 8]}.get(op, [1, 2, 3, 5, 10, 100])
        return b.cas(op, x, b.L(rng.choice(c)))

    def cmpc(x):
        return b.B(rng.choice(BIN_CMP), b.V(x), b.L(rng.choice([0, 0, 1, 2, 3, 4, 5, 6, 8, 10, 12])))
    inner = [upd(0)]
    if rng.random() < 0.3:
        inner.append(upd(0))
    inner.append(b.decl(2, b.V(0)))
    inner.append(("if", cmpc(0), b.asg(1, b.L(1)), ("skip",)))
    if rng.random() < 0.5:
        inner.append(b.decl(3, b.B(rng.choice(["+", "-"]), b.V(0), b.L(rng.choice([1, 2, 5])))))
    body = TB.seq(("if", cmpc(0), TB.seq(*inner), ("skip",) if rng.random() < 0.6 else upd(0)), ("return", b.V(0)))
    return finish_program(plat, vars_, 2, body)


def make_unary_program(rng, plat):
    """`~ - !` applied to operands NARROWER than int (variables and casts of (un)signed char / short with Known values): the operand
    is promoted to int first (C17 6.3.1.1), the result is used in int / long context and in comparisons"""
    b = TB()
    narrow = ["cu", "cs", "su", "ss"]
    vars_, sts = [], []
    nvar = rng.choice([1, 2, 2, 3])
    for i in range(nvar):
        t = rng.choice(narrow)
        vars_.append(t)
        v = rng.choice([0, 1, 15, 100, 127, 200, 255, 1000, 32767, 40000, 65535])
        v = min(v, plat.tmax(t))
        sts.append(b.decl(i, b.L(v)))

    def operand():
        if rng.random() < 0.7:
            return b.V(rng.randrange(nvar))
        t = rng.choice(narrow)
        return b.C(t, b.L(min(rng.choice([0, 1, 15, 100, 200, 255, 1000, 40000]), plat.tmax(t))))
    for _ in range(rng.choice([2, 3, 4])):
        x = len(vars_)
        vars_.append(rng.choice(["is", "is", "ls"]))
        e = b.U(rng.choice(["~", "~", "-", "!"]), operand())
        k = rng.random()
        if k < 0.3:
            e = b.B(rng.choice(["==", "!=", "<", ">"]), e, b.L(rng.choice([0, 55, 240, 255, 65535])))
        elif k < 0.5:
            e = b.B(rng.choice(["+", "&", "-"]), e, b.L(rng.choice([1, 15, 255])))
        sts.append(b.decl(x, e))
    sts.append(("return", b.V(len(vars_) - 1)))
    return finish_program(plat, vars_, 0, TB.seq(*sts))


# ---- translator: the operator list of the impossible-value guard in ValueFlowAnalyzer::isWritable ---------------------------------
def check_carry_ops(ctx, res, drv):
    """`value->isImpossible() && !Token::Match(parent, "<ops>")` must name exactly the operators of Calc.carryOps (fail closed)"""
    path = os.path.join(core.REPO, "lib", "vf_analyzers.cpp")
    try:
        text = open(path, encoding="utf-8", errors="replace").read()
    except OSError as ex:
        res.oblig("T:isWritable-impossible-carry-ops", False, "translation", "cannot read %s: %s" % (path, ex))
        return
    m = re.search(r"Action\s+isWritable\s*\(", text)
    window = text[m.start():m.start() + 3000] if m else ""
    ms = re.findall(r'isImpossible\(\)\s*&&\s*!\s*Token::Match\(\s*parent\s*,\s*"([^"]*)"\s*\)', window)
    rc, out, err = core.run_lines(drv, [], ["carryops"])
    model = out[0].split("|") if out else []
    if len(ms) != 1:
        res.oblig("T:isWritable-impossible-carry-ops", False, "translation",
                  "unrecognised shape: expected exactly one `value->isImpossible() && !Token::Match(parent, \"…\")` guard in ValueFlowAnalyzer::isWritable, found %d" % len(ms))
        return
    code = ms[0].split("|")
    res.extra["isWritable_impossible_carry_ops"] = ms[0]
    res.oblig("T:isWritable-impossible-carry-ops", sorted(code) == sorted(model), "translation",
              "" if sorted(code) == sorted(model) else
              "the code carries an Impossible value through %s, the model (Calc.carryOps, theorems carry_impossible_*) through %s" % (ms[0], "|".join(model)))


def totuple(x):
    return tuple(totuple(y) for y in x) if isinstance(x, list) else x


def corpus_program(entry):
    """rebuild text / wire / occurrence table of a stored program (body is stored as nested lists)"""
    body = totuple(entry["body"])
    vars_, nparams = entry["vars"], entry["nparams"]
    names = [("p%d" if i < nparams else "v%d") % i for i in range(len(vars_))]
    w = []
    wire_stmt(body, w)
    text, occ = Printer(names, vars_, nparams).func(body)
    return dict(wire="%d %d %s %s" % (nparams, len(vars_), " ".join(vars_), " ".join(w)), text=text, occ=occ, vars=vars_, nparams=nparams,
                body=body, plat=entry["platform"], expect=entry.get("expect", []), name=entry["name"], positive=entry.get("positive", False))


def load_corpus():
    p = os.path.join(core.VERIF, "corpus", "C01", "cases.json")
    return json.load(open(p)) if os.path.exists(p) else {}


def run(ctx, res):
    thorough = ctx.tier == "thorough"
    res.assumptions += [
        "MiniC semantics (Model/MiniC.lean) = ISO C17 with gcc's implementation-defined choices; cross-checked against gcc -fsanitize=undefined on every run, not proved",
        "infer_sound: every INT bound |v| < 2^62-1 (beyond that the C++ bound arithmetic is signed overflow); Known values are read as points whatever their bound",
        "validator_sound is relative to the totalised semantics: a local read before its first assignment reads 0 (the printer never emits such a program)",
        "token <-> occurrence mapping, dump reader, violation search and classifiers are python (trusted, spelling and position checked per token)",
    ]
    if THEOREMS:
        core.prove(ctx, res, MODULES, THEOREMS)
    drv = ctx.driver("drv_c01")
    exe = os.environ.get("C01_HARNESS") or ctx.harness("c01")      # C01_HARNESS / C01_CPPCHECK: mutation experiments only (docs/C01.md)
    run_transfer(ctx, res, drv, exe, 40000 if thorough else 6000, 40000 if thorough else 6000)
    nprog = 3000 if thorough else int(os.environ.get("C01_NPROG", "100"))
    plats = ["unix64", "unix32", "win64"] if thorough else ["unix64"]
    progs = [corpus_program(e) for e in load_corpus().get("programs", [])]
    res.extra["corpus_programs"] = len(progs)
    for i in range(nprog):
        progs.append(make_program(ctx.rng, PLATFORMS[plats[i % len(plats)]]))
    for i in range(600 if thorough else 40):
        progs.append(make_carry_program(ctx.rng, PLATFORMS[plats[i % len(plats)]]))
    for i in range(300 if thorough else 20):
        progs.append(make_unary_program(ctx.rng, PLATFORMS[plats[i % len(plats)]]))
    check_carry_ops(ctx, res, drv)
    run_programs(ctx, res, drv, progs, 300 if thorough else 200)
    native_validation(ctx, res, drv, 150 if thorough else 12, 12 if thorough else 6)


def replay(ctx, res, rp):
    drv = ctx.driver("drv_c01")
    exe = os.environ.get("C01_HARNESS") or ctx.harness("c01")
    if rp.get("kind") in ("calc", "infer"):
        rc, impl, err = core.run_lines(exe, [], [rp["op"]])
        print("replay: %s -> %s" % (rp["op"], impl))
        if rp["kind"] == "calc":
            bad = impl and impl[0].startswith("ok:") and int(impl[0][3:]) != rp["reference"]
        else:
            bad = impl and any(holds(parse_vtok(t), rp["value"]) is False for t in impl[0].split() if t != "-")
        print("replay: %s" % ("still fails" if bad else "no longer fails"))
        return 1 if bad else 0
    if rp.get("kind") == "program":
        # dump the stored program again, look for the stored fact, run the stored arguments through the interpreter
        plat = PLATFORMS[rp["platform"]]
        d = os.path.join(ctx.tmp, "replay")
        os.makedirs(d, exist_ok=True)
        path = os.path.join(d, "r.c")
        open(path, "w").write(rp["text"])
        run_cppcheck_dump(ctx, path, plat.name)
        dplat, toks = parse_dump(path + ".dump")
        occ = rp["occ"]
        m = re.match(r"(\d+):([KI])([PUL])(-?\d+)$", rp["fact"])
        f = dict(occ=int(m.group(1)), k=m.group(2), b=m.group(3), v=int(m.group(4)))
        t = toks.get((occ["line"], occ["col"]))
        reported = False
        for v in (t or {}).get("values", []):
            if "intvalue" in v and v.get("indirect", "0") == "0":
                iv = int(v["intvalue"])
                iv = iv - 2 ** 64 if iv >= 2 ** 63 else iv
                kind = "K" if v.get("known") == "true" else "I" if v.get("impossible") == "true" else None
                if kind == f["k"] and iv == f["v"] and {"Point": "P", "Upper": "U", "Lower": "L"}[v.get("bound", "Point")] == f["b"]:
                    reported = True
        rc, out, err = core.run_lines(drv, [], ["run %s 400 %s ## %s" % (plat.wire(), rp["wire"], " ".join(map(str, rp["args"])))])
        parts = out[0].split() if out else ["?"]
        evs = [(int(a), int(b)) for a, b in (p.split("=") for p in parts[1:])]
        bad = reported and parts[0] == "ret" and any(i == f["occ"] and not fact_holds(f, v) for (i, v) in evs)
        print("replay: fact %s %s by cppcheck on `%s` at %d:%d; f(%s) -> %s" % (rp["fact"], "still reported" if reported else "no longer reported", occ["text"], occ["line"], occ["col"],
                                                                           ", ".join(map(str, rp["args"])), parts[0]))
        print("replay: %s" % ("still fails" if bad else "no longer fails"))
        return 1 if bad else 0
    print("replay: unknown replay kind")
    return 2

"""C21 — a crashing worker process is contained (process executor).

Obligations
  theorems      Cppcheck.ProcFaults.terminates / contained / internal_errors_exact / findings_vs_faultfree /
                exit_status_nonzero_iff / crash_sets_exit_status  (Lean: every schedule, every fault set at frame boundaries)
                + legacy_exit_status_counterexample (loop before the fix), midframe_not_contained (F14, outside the claim)
  S1..S5        source-shape checks of cli/processexecutor.cpp (the statements the model copies; fail closed)
  C1            real `cppcheck -jN --executor=process` with VERIF_WORKER_FAULT (+ VERIF_SCHED_SEED) on generated projects
                == closed form of the model (`expectedReports` / `expectedResult`) computed by the Lean driver from the
                per-file frame lists (frame lists taken from a fault-free `--debug-ipc` run of each file)
  C2            the executable transition system run under a pseudo-random schedule == its closed form (model self-check)
  mixed k      harness/c21_faults.c (LD_PRELOAD, no repo change): one fault spec per worker, so simultaneous crashers die at DIFFERENT
                crash points; `shim-agrees-with-hook` compares it with the hook on single specs; `:mid` kills inside a message (F14,
                known finding midframe-death-aborts-parent, replayed on the real binary)
P_impl          evaluated on the implementation for every explored case, without the model: terminates; exactly one
                cppcheckError per crashed file; findings of the other files all present; nothing reported that the
                fault-free run does not report; exit status == --error-exitcode
"""
import concurrent.futures, json, os, re, shutil, subprocess, time
from .. import core, build_repo

ID = "C21"
LEVEL = "proof"
RULE = ("case = (project, set of crashing files, crash point k = number of complete pipe messages before death, "
        "mode segv|exit|abort, jobs, scheduling seed); distinct = different tuple; non-trivial = at least one worker really dies "
        "(k <= number of messages the worker sends); quick: every k of every file x {segv,exit} x jobs {2,3} + sampled pairs; "
        "thorough: x jobs {2,3} x scheduling seeds {none,1,2} + all pairs + all-files + abort mode")
EXPLANATION = ("Lean: the parent loop of ProcessExecutor::check as a transition system (worker progress/death interleaved with "
               "spawn/select/waitpid phases); proved for every schedule and every fault set at frame boundaries: termination under "
               "fairness, closed-form log and result in every final state. Per-file analysis results (frame lists) are inputs. "
               "Outside the claimed statement: death inside a frame (F14: modelled, proved NOT contained, replayed on the binary as a known finding); outside the model: suppressions inside hasToLog, stale-errno "
               "EAGAIN branch of handleRead, load-average throttling, pipe()/fork() failures.")
THEOREMS = ["Cppcheck.ProcFaults.terminates", "Cppcheck.ProcFaults.contained_partial", "Cppcheck.ProcFaults.internal_errors_exact_partial",
            "Cppcheck.ProcFaults.findings_vs_faultfree_partial", "Cppcheck.ProcFaults.exit_status_nonzero_iff_partial",
            "Cppcheck.ProcFaults.crash_sets_exit_status_partial", "Cppcheck.ProcFaults.faultfree_exit_status",
            "Cppcheck.ProcFaults.roundRobin_fair", "Cppcheck.ProcFaults.legacy_exit_status_counterexample",
            "Cppcheck.ProcFaults.midframe_not_contained", "Cppcheck.ProcFaults.contained_needs_frame_boundaries"]
MODULES = ["Cppcheck.Props.C21"]

EXITCODE = 7
TEMPLATE = "{file}:{line}:{id}:{message}"
MODES = {"segv": "s11", "exit": "x3", "abort": "s6"}
TIMEOUT = 60

# every pair of files shares one tag, so that one VERIF_WORKER_FAULT substring can select a single file ("f0"),
# a pair ("p01") or all files (".c")
PROJ4 = {
    "h.h": "static int hbad(void) { int a[2]; a[0] = 0; return a[3]; }\n",
    "f0_p01_p02_p03.c": '#include "h.h"\nint a1(void) { int x[2]; x[3] = 1; return hbad(); }\n#ifdef CFGA\nint a2(void) { char *p = 0; return *p; }\n#endif\n'
                        "#ifdef CFGB\nint a3(void) { return 1 / 0; }\n#endif\n",
    "f1_p01_p12_p13.c": '#include "h.h"\nint b1(void) { int x[2]; x[0] = 0; return x[5] + hbad(); }\n',
    "f2_p02_p12_p23.c": "int c1(int v) { return v + 1; }\n",
    "f3_p03_p13_p23.c": "void d1(void) { char *p = 0; *p = 1; }\nint d2(void) { int a[1]; a[2] = 0; return 1 / 0; }\n",
}
CLEAN2 = {
    "c1_q.c": "int k1(int v) { return v + 1; }\n",
    "c2_q.c": "int k2(int v) { return v * 2; }\n",
}
PROJECTS = {"proj4": PROJ4, "clean2": CLEAN2}


def private_binary(ctx, envname):
    """a private copy of the freshly built binary (colleagues' checks relink .build/o1/bin/cppcheck in place while this
    check runs); copied under the build lock, with the cfg/platforms/addons links cppcheck looks up next to its executable"""
    if os.environ.get(envname):
        return os.environ[envname]
    d = os.path.join(ctx.tmp, "bin")
    os.makedirs(d, exist_ok=True)
    dst = os.path.join(d, "cppcheck")
    if not os.path.exists(dst):
        with build_repo.Lock("repo-" + ctx.variant):
            shutil.copy2(ctx.cppcheck, dst)
        for sub in ("cfg", "platforms", "addons"):
            os.symlink(os.path.join(core.REPO, sub), os.path.join(d, sub))
    return dst


class Proj:
    def __init__(self, ctx, name, binary):
        self.name = name
        self.dir = os.path.join(ctx.tmp, name)
        os.makedirs(self.dir, exist_ok=True)
        for f, text in PROJECTS[name].items():
            open(os.path.join(self.dir, f), "w").write(text)
        self.files = sorted(f for f in PROJECTS[name] if f.endswith(".c"))
        self.bin = binary
        self.fid = {}          # finding text -> number
        self.frames = {}       # file -> list of "e<n>" | "o"   (without CHILD_END)
        self.rc = {}           # file -> CHILD_END value
        self.findings = {}     # file -> list of finding numbers (fault-free)

    def cmd(self, jobs, files):
        return [self.bin, "-j%d" % jobs, "--executor=process", "--error-exitcode=%d" % EXITCODE, "--template=" + TEMPLATE] + files

    def run(self, jobs, files, env=None, extra=()):
        e = dict(os.environ)
        for k in ("VERIF_WORKER_FAULT", "VERIF_SCHED_SEED", "VERIF_CRASH_AT"):
            e.pop(k, None)
        if env:
            e.update(env)
        t = time.time()
        try:
            r = subprocess.run(self.cmd(jobs, files) + list(extra), cwd=self.dir, env=e, stdout=subprocess.PIPE, stderr=subprocess.PIPE,
                               timeout=TIMEOUT)
            return r.returncode, r.stdout.decode("latin-1"), r.stderr.decode("latin-1"), time.time() - t
        except subprocess.TimeoutExpired:
            return None, "", "", time.time() - t

    def num(self, text):
        if text not in self.fid:
            self.fid[text] = len(self.fid) + 1
        return self.fid[text]

    def learn(self, res=None):
        """frame list of every file from a fault-free single-file --debug-ipc run (the per-file analysis is an input of the model)"""
        for f in self.files:
            rc, out, err, _ = self.run(2, [f], extra=["--debug-ipc"])
            if rc is None:
                raise core.CheckBroken("C21: fault-free run of %s timed out" % f)
            types = re.findall(r"^handleRead - ([1-7]) - ", out, re.M)
            lines = [l for l in err.split("\n") if l.strip()]
            if not types or types[-1] != "5" or "5" in types[:-1]:
                # the fault-free process-executor run itself is broken: compare with the single-job run of the same file
                r1 = subprocess.run([self.bin, "--error-exitcode=%d" % EXITCODE, "--template=" + TEMPLATE, f], cwd=self.dir,
                                    stdout=subprocess.PIPE, stderr=subprocess.PIPE, timeout=TIMEOUT)
                l1 = sorted(l for l in r1.stderr.decode("latin-1").split("\n") if l.strip())
                if res is not None and (sorted(lines) != l1 or rc != r1.returncode):
                    res.violation("fault-free run `-j2 --executor=process %s` reports %s (exit %s), the single-job run reports %s (exit %s)" %
                                  (f, sorted(lines), rc, l1, r1.returncode),
                                  dict(case=dict(project=self.name, substr="(none)", k=0, mode="segv", jobs=2, seed=None, faultfree=f),
                                       files=PROJECTS[self.name]), concrete=True, key=None)
                raise core.CheckBroken("C21: unexpected frame trace for %s: %s" % (f, types))
            m = re.findall(r"^handleRead - 5 - (\d+)\s*$", out, re.M)
            if len(m) != 1:
                raise core.CheckBroken("C21: CHILD_END payload not found for %s" % f)
            if types.count("2") != len(lines):
                raise core.CheckBroken("C21: %d REPORT_ERROR frames but %d findings printed for %s" % (types.count("2"), len(lines), f))
            it = iter(lines)
            fr = []
            for t in types[:-1]:
                fr.append("e%d" % self.num(next(it)) if t == "2" else "o")
            self.frames[f] = fr
            self.rc[f] = int(m[0])
            self.findings[f] = [int(x[1:]) for x in fr if x[0] == "e"]

    def total(self, f):
        return len(self.frames[f]) + 1


def canon_impl(proj, rc, err):
    if rc is None:
        return "timeout"
    toks = []
    for l in err.split("\n"):
        if not l.strip():
            continue
        m = re.match(r"^(.*):0:cppcheckError:Internal error: Child process (crashed with signal|exited with) (\d+)$", l)
        if m and m.group(1) in proj.files:
            toks.append("I%d:%s%s" % (proj.files.index(m.group(1)), "s" if m.group(2).startswith("crashed") else "x", m.group(3)))
        elif l in proj.fid:
            toks.append("f%d" % proj.fid[l])
        else:
            toks.append("?" + core.hx(l))
    return "status=%d log=%s" % (rc, ",".join(sorted(toks)) if toks else "-")


def faults(proj, case):
    """file -> (k, mode, mid) of the workers that really die in this case"""
    out = {}
    if "faults" in case:                      # LD_PRELOAD shim harness/c21_faults.c: one spec per worker (fork order = file order)
        for spec in case["faults"]:
            i, k, mode = spec[0], spec[1], spec[2]
            mid = len(spec) > 3 and bool(spec[3])
            f = proj.files[i]
            if (k < proj.total(f)) if mid else (k <= proj.total(f)):
                out[f] = (k, mode, mid)
    else:                                     # hook VERIF_WORKER_FAULT: one spec, every file whose name contains the substring
        for f in proj.files:
            if case["substr"] in f and case["k"] <= proj.total(f):
                out[f] = (case["k"], case["mode"], False)
    return out


def is_mid(proj, case):
    return any(m for (_, _, m) in faults(proj, case).values())


def model_op(proj, case):
    fl = faults(proj, case)
    ws = []
    for i, f in enumerate(proj.files):
        fault = "-"
        if f in fl:
            k, mode, mid = fl[f]
            fault = "%d,%d,%s" % (k, 1 if mid else 0, MODES[mode])
        ws.append("%d:%s:%d:%s" % (i, ",".join(proj.frames[f]) or "-", proj.rc[f], fault))
    return "run %d %d %d %s" % (case["jobs"], case.get("seed") or 0, EXITCODE, " ".join(ws))


def crashed_files(proj, case):
    return sorted(faults(proj, case))


def case_desc(case):
    if "faults" in case:
        return "shim[%s]" % ";".join("%d:%d:%s%s" % (x[0], x[1], x[2], ":mid" if len(x) > 3 and x[3] else "") for x in case["faults"])
    return "%s k=%d %s" % (case["substr"], case["k"], case["mode"])


SHIM = {}


def shim_path(proj):
    d = os.path.dirname(proj.dir)
    if d not in SHIM:
        so = os.path.join(d, "c21_faults.so")
        r = subprocess.run(["cc", "-shared", "-fPIC", "-O1", "-o", so, os.path.join(core.VERIF, "harness", "c21_faults.c"), "-ldl"],
                           stdout=subprocess.PIPE, stderr=subprocess.STDOUT, text=True)
        if r.returncode != 0:
            raise core.CheckBroken("C21: fault shim does not compile: " + r.stdout[-800:])
        SHIM[d] = so
    return SHIM[d]


def run_case(proj, case):
    if "faults" in case:
        env = {"LD_PRELOAD": shim_path(proj),
               "C21_FAULTS": ";".join("%d:%d:%s%s" % (x[0], x[1], x[2], ":mid" if len(x) > 3 and x[3] else "") for x in case["faults"])}
    else:
        env = {"VERIF_WORKER_FAULT": "%s:%d:%s" % (case["substr"], case["k"], case["mode"])}
    if case.get("seed"):
        env["VERIF_SCHED_SEED"] = str(case["seed"])
    rc, out, err, dt = proj.run(case["jobs"], proj.files, env)
    return rc, err, dt


ABORT_MARK = "#### ThreadExecutor::handleRead("


def p_impl(proj, case, rc, err):
    """the property evaluated on the implementation; returns list of (what, key)"""
    bad = []
    if rc is None:
        return [("cppcheck did not terminate within %d s" % TIMEOUT, "no-termination")]
    fl = faults(proj, case)
    crashed = sorted(fl)
    if ABORT_MARK in err and rc == 1 and any(m for (_, _, m) in fl.values()):
        # F14: a worker died INSIDE a pipe message, the parent left through std::exit(EXIT_FAILURE)
        return [("a worker died inside a pipe message (%s): the parent exits with status 1 (`%s`), no internal error names the file, the "
                 "findings of the other files are not reported" % (case_desc(case), [l for l in err.split("\n") if ABORT_MARK in l][0][:120]),
                 "midframe-death-aborts-parent")]
    lines = [l for l in err.split("\n") if l.strip()]
    internal = [l for l in lines if ":cppcheckError:" in l]
    for f in crashed:
        n = sum(1 for l in internal if l.startswith(f + ":0:cppcheckError:Internal error: Child process "))
        if n != 1:
            bad.append(("%d internal errors name the crashed file %s (expected exactly 1)" % (n, f), "internal-error-count"))
    for l in internal:
        if not any(l.startswith(f + ":") for f in crashed):
            bad.append(("internal error for a file that did not crash: " + l, "spurious-internal-error"))
    printed = [proj.fid.get(l) for l in lines if ":cppcheckError:" not in l]
    allf = set(x for f in proj.files for x in proj.findings[f])
    for f in proj.files:
        if f in crashed:
            continue
        for x in proj.findings[f]:
            if printed.count(x) != 1:
                bad.append(("finding #%d of the intact file %s is printed %d times (fault-free run: once)" % (x, f, printed.count(x)), "finding-lost"))
    for l in lines:
        if ":cppcheckError:" not in l and proj.fid.get(l) not in allf:
            bad.append(("reported line that the fault-free run does not report: " + l, "spurious-finding"))
    want = EXITCODE if (crashed or any(proj.rc[f] for f in proj.files)) else 0
    if rc != want:
        key = "exit-status"
        if rc == 0 and crashed and all(fl[f][0] == proj.total(f) for f in crashed) and not any(proj.rc[f] for f in proj.files):
            key = "death-after-childend"
        bad.append(("exit status %d, expected %d (crashed: %s)" % (rc, want, crashed), key))
    return bad


def source_shape(res):
    """the statements of ProcessExecutor::check / handleRead the model copies (fail closed)"""
    src = open(os.path.join(core.REPO, "cli", "processexecutor.cpp"), encoding="utf-8", errors="replace").read()
    flat = re.sub(r"\s+", " ", re.sub(r"//[^\n]*", "", src))
    m = re.search(r"unsigned int ProcessExecutor::check\(\) \{(.*)\} void ProcessExecutor::reportInternalChildErr", flat)
    body = m.group(1) if m else ""
    hr = re.search(r"bool ProcessExecutor::handleRead\(.*?\) \{(.*?)\} bool ProcessExecutor::checkLoadAverage", flat)
    hbody = hr.group(1) if hr else ""
    checks = [
        ("S1:eof-increments-result", bool(re.search(r"if \(bytes_read <= 0\) \{ if \(errno == EAGAIN\) return true; \+\+result; return false; \}", hbody))),
        ("S2:child-end-adds-result-and-closes", bool(re.search(r"type == PipeWriter::CHILD_END\) \{ result \+= std::stoi\(buf\); res = false; \}", hbody))),
        ("S3:spawn-guard", "nchildren < mSettings.jobs" in body and "const size_t nchildren = childFile.size();" in body),
        ("S4:waitpid-reports-and-counts", len(re.findall(r"reportInternalChildErr\(childname, oss\.str\(\)\); \+\+result;", body)) == 2
         and "if (exitstatus != EXIT_SUCCESS) {" in body and "waitpid(0, &stat, WNOHANG)" in body),
        ("S5:loop-exit-condition", "iFile == mFiles.end() && iFileSettings == mFileSettings.end() && rpipes.empty() && childFile.empty()" in body),
        ("S6:short-read-exits", hbody.count("std::exit(EXIT_FAILURE);") >= 6),
    ]
    for name, ok in checks:
        res.oblig(name, ok, "translation", "" if ok else "cli/processexecutor.cpp no longer has the statement shape the model copies")
    return all(ok for _, ok in checks)


def enumerate_cases(ctx, projs, thorough):
    rng = ctx.rng
    cases = []
    p4, c2 = projs["proj4"], projs["clean2"]
    seeds = [None, 1, 2] if thorough else [None]
    pseeds = [None, 1] if thorough else [None]
    modes = ["segv", "exit"]
    # single crashers: every k of every file (k = total+1: the hook never fires, fault-free control)
    for proj in (p4, c2):
        for i, f in enumerate(proj.files):
            tag = f.split("_")[0]
            for k in range(0, proj.total(f) + 2):
                if thorough:
                    for mode in modes:
                        for jobs in (2, 3):
                            for sd in seeds:
                                cases.append(dict(project=proj.name, substr=tag, k=k, mode=mode, jobs=jobs, seed=sd))
                else:
                    # quick: every k of every file once; mode / jobs / seeding alternate
                    flip = rng.randrange(2)
                    cases.append(dict(project=proj.name, substr=tag, k=k, mode=("segv", "exit")[(k + i + flip) % 2], jobs=2 + (k + flip) % 2,
                                      seed=None if (k + i) % 2 else rng.randrange(1, 1000)))
    # pairs of simultaneous crashers (same k relative to each worker: the hook takes one spec)
    pairs = [dict(project="proj4", substr="p%d%d" % (a, b), k=k, mode=mode, jobs=jobs, seed=sd)
             for a in range(4) for b in range(a + 1, 4) for k in range(0, max(p4.total(f) for f in p4.files) + 1)
             for mode in modes for jobs in (2, 3) for sd in pseeds]
    pairs += [dict(project="clean2", substr="_q", k=k, mode=mode, jobs=jobs, seed=sd)
              for k in range(0, 4) for mode in modes for jobs in (2, 3) for sd in pseeds]
    if thorough:
        cases += pairs
        for k in range(0, max(p4.total(f) for f in p4.files) + 1):
            for jobs in (2, 3, 5):
                for sd in seeds:
                    cases.append(dict(project="proj4", substr=".c", k=k, mode="segv", jobs=jobs, seed=sd))
        for proj in (p4, c2):
            for f in proj.files:
                for k in range(0, proj.total(f) + 1):
                    cases.append(dict(project=proj.name, substr=f.split("_")[0], k=k, mode="abort", jobs=2, seed=rng.randrange(1, 1000)))
    else:
        for c in rng.sample(pairs, 10):
            c["seed"] = rng.randrange(1, 1000)
            cases.append(c)
        cases.append(dict(project="proj4", substr=".c", k=0, mode="segv", jobs=2, seed=rng.randrange(1, 1000)))
        cases.append(dict(project="proj4", substr=".c", k=3, mode="segv", jobs=3, seed=rng.randrange(1, 1000)))
    # simultaneous crashers with DIFFERENT crash points (LD_PRELOAD shim, one spec per worker)
    tot = [p4.total(f) for f in p4.files]
    mixed = []
    for a in range(4):
        for b in range(4):
            if a == b:
                continue
            # A before its first message / between messages, B after CHILD_END / before CHILD_END
            for ka, kb in ((0, tot[b]), (1, tot[b] - 1), (tot[a] - 1, 0), (tot[a], 1)):
                mixed.append(dict(project="proj4", faults=[[a, ka, "segv"], [b, kb, "exit"]]))
    mixed.append(dict(project="proj4", faults=[[0, 0, "segv"], [1, tot[1], "exit"], [2, 1, "abort"], [3, 2, "segv"]]))
    mixed.append(dict(project="clean2", faults=[[0, 0, "segv"], [1, c2.total(c2.files[1]), "exit"]]))
    chosen = mixed if thorough else rng.sample(mixed[:-2], 10) + mixed[-2:]
    for c in chosen:
        for jobs in ((2, 3) if thorough else (rng.choice((2, 3)),)):
            cases.append(dict(c, jobs=jobs, seed=rng.choice([None, rng.randrange(1, 1000)])))
    return cases


def shim_vs_hook(ctx, res, projs, thorough):
    """the shim is a second implementation of the hook's fault: for single specs both must give the same run"""
    rng = ctx.rng
    p4 = projs["proj4"]
    pts = [(i, k) for i, f in enumerate(p4.files) for k in range(0, p4.total(f) + 1)]
    bad = []
    for (i, k) in (pts if thorough else rng.sample(pts, 5)):
        mode = rng.choice(["segv", "exit"])
        f = p4.files[i]
        r1 = run_case(p4, dict(substr=f.split("_")[0], k=k, mode=mode, jobs=2))
        r2 = run_case(p4, dict(faults=[[i, k, mode]], jobs=2))
        a, b = canon_impl(p4, r1[0], r1[1]), canon_impl(p4, r2[0], r2[1])
        res.count("shim-vs-hook-runs")
        if a != b:
            bad.append((f, k, mode, a, b))
    res.oblig("shim-agrees-with-hook", not bad, "correspondence", "" if not bad else "first: %s" % (bad[0],))


def f14_cases(projs):
    """deaths INSIDE a pipe message (outside the claimed statement): replayed on the real binary through the shim"""
    return [dict(project="proj4", faults=[[0, 1, "segv", 1]], jobs=2, seed=None),
            dict(project="proj4", faults=[[3, 0, "exit", 1]], jobs=3, seed=None)]


def load_corpus():
    p = os.path.join(core.VERIF, "corpus", "C21", "cases.json")
    return json.load(open(p)) if os.path.exists(p) else []


def resolve_k(proj, case):
    """corpus cases may give k symbolically ("total" = after CHILD_END of the first matching file)"""
    c = dict(case)
    if "faults" in c:
        c["faults"] = [[x[0], proj.total(proj.files[x[0]]) if x[1] == "total" else x[1]] + list(x[2:]) for x in c["faults"]]
        return c
    if c["k"] == "total":
        f = [f for f in proj.files if c["substr"] in f][0]
        c["k"] = proj.total(f)
    return c


def explore(ctx, res, drv, projs, cases, name):
    def work(c):
        return run_case(projs[c["project"]], c)
    with concurrent.futures.ThreadPoolExecutor(max_workers=6) as ex:
        outs = list(ex.map(work, cases))
    ops = [model_op(projs[c["project"]], c) for c in cases]
    rc, mout, merr = core.run_lines(drv, [], ops, timeout=900)
    if len(mout) != len(ops):
        raise core.CheckBroken("C21 driver produced %d lines for %d ops: %s" % (len(mout), len(ops), merr[-400:]))
    impl, model, selfbad = [], [], []
    for c, (rcode, err, dt), o in zip(cases, outs, mout):
        m = re.match(r"^sim final=(\d) aborted=(\d) (status=\d+ log=\S+) \| exp (status=\d+ log=\S+) mid=(\d)$", o)
        if not m:
            raise core.CheckBroken("C21 driver line: " + o)
        if m.group(5) == "1":
            # death inside a frame (F14): no closed form; every final state of the model is `aborted` with exit status 1
            if m.group(1) != "1" or m.group(2) != "1":
                selfbad.append((c, o))
            impl.append("status=%s aborted=%d" % (rcode, 1 if ABORT_MARK in err else 0))
            model.append(m.group(3).split(" ")[0] + " aborted=1")
            continue
        if m.group(1) != "1" or m.group(2) != "0" or m.group(3) != m.group(4):
            selfbad.append((c, o))
        impl.append(canon_impl(projs[c["project"]], rcode, err))
        model.append(m.group(4))
    desc = ["%s %s -j%d seed=%s" % (c["project"], case_desc(c), c["jobs"], c.get("seed")) for c in cases]
    mism = []
    for i, c in enumerate(cases):
        proj = projs[c["project"]]
        cr = crashed_files(proj, c)
        samp = dict(tie=name, op=desc[i], impl=impl[i], model=model[i]) if i % max(1, len(cases) // 4) == 0 else None
        res.case(name + "|" + desc[i], bool(cr), samp)
        fl = faults(proj, c)
        res.count("mechanism:" + ("shim" if "faults" in c else "hook")); res.count("jobs:%d" % c["jobs"]); res.count("crashers:%d" % len(cr))
        res.count("seeded" if c.get("seed") else "unseeded")
        if len(set(k for (k, _, _) in fl.values())) > 1:
            res.count("crashers-with-different-k")
        for f in cr:
            t = proj.total(f)
            k, mode, mid = fl[f]
            res.count("mode:" + mode)
            res.count("k:" + ("inside a message (F14)" if mid else "0(before first message)" if k == 0 else "total(after CHILD_END)" if k == t else
                              "total-1(before CHILD_END)" if k == t - 1 else "between messages"))
        if impl[i] != model[i]:
            mism.append(i)
    res.traces_validated += len(cases) - len(mism)
    res.oblig("correspondence:" + name, not mism, "correspondence",
              "" if not mism else "%d of %d runs differ; first: %s impl=[%s] model=[%s]" % (len(mism), len(cases), desc[mism[0]], impl[mism[0]], model[mism[0]]))
    res.oblig("model-self-check:" + name, not selfbad, "correspondence",
              "" if not selfbad else "simulated schedule differs from the closed form: %s" % (selfbad[0],))
    nviol = 0
    for c, (rcode, err, dt) in zip(cases, outs):
        for what, key in p_impl(projs[c["project"]], c, rcode, err):
            nviol += 1
            res.violation("%s -j%d seed=%s on %s: %s" % (case_desc(c), c["jobs"], c.get("seed"), c["project"], what),
                          dict(case=c, observed_status=rcode, observed_stderr=err[-2000:], files=PROJECTS[c["project"]],
                               replay_cmd="./check.py C21 --replay <this file>"), concrete=True, key=key)
    res.extra.setdefault("slowest_run_s", 0)
    res.extra["slowest_run_s"] = max(res.extra["slowest_run_s"], round(max(dt for _, _, dt in outs), 2))
    return mism, nviol


def run(ctx, res):
    thorough = ctx.tier == "thorough"
    core.prove(ctx, res, MODULES, THEOREMS)
    drv = ctx.driver("drv_c21")
    shape_ok = source_shape(res)
    binary = private_binary(ctx, "VERIF_C21_BIN")
    projs = {n: Proj(ctx, n, binary) for n in PROJECTS}
    for p in projs.values():
        p.learn(res)
    res.extra["frames"] = {n: {f: ",".join(p.frames[f]) + ",end%d" % p.rc[f] for f in p.files} for n, p in projs.items()}
    # corpus first
    corpus = [resolve_k(projs[c["project"]], c) for c in load_corpus()]
    if corpus:
        explore(ctx, res, drv, projs, corpus, "corpus")
    cases = enumerate_cases(ctx, projs, thorough)
    mism, nviol = explore(ctx, res, drv, projs, cases, "worker-faults")
    shim_vs_hook(ctx, res, projs, thorough)
    explore(ctx, res, drv, projs, f14_cases(projs), "midframe-F14")
    res.extra["exhaustive"] = dict(dimension="crash point k in 0..messages+1 for every file"
                                   + (" x {segv, exit} x jobs {2,3} x scheduling seeds {none,1,2}; all pairs; all files" if thorough else ""), value=True)
    # an obligation broke but no concrete failing input yet: widen to the thorough enumeration with more seeds
    if not thorough and any(not o["ok"] for o in res.obligations) and not any(v["concrete"] for v in res.violations):
        wide = enumerate_cases(ctx, projs, True)
        explore(ctx, res, drv, projs, wide, "search")
        res.extra["search_runs"] = len(wide)


def replay(ctx, res, rp):
    binary = private_binary(ctx, "VERIF_C21_BIN")
    c = rp["case"]
    proj = Proj(ctx, c["project"], binary)
    proj.learn()
    c = resolve_k(proj, c)
    rc, err, dt = run_case(proj, c)
    bad = p_impl(proj, c, rc, err)
    for what, key in bad:
        print("VIOLATION property=C21 replay=(replayed) %s [%s]" % (what, key))
    print("replay: status=%s %d violation(s)\n%s" % (rc, len(bad), err))
    return 1 if bad else 0

"""C13 — any input is handled without crash, memory error or hang.   LEVEL "other" (partial).

What is decided by proof (a)+(b), what is validation/search only (c):

(a) exception funnel.  harness/c13.cpp (clang-14 libTooling, typed AST) extracts from every translation unit of the
    working tree: every `throw`, every call of a throwing std function (std::sto*, .at(), std::regex, std::async ...),
    every try block with its handler list, the public-base relation of all thrown / caught types, and the complete
    direct call graph (virtual calls expanded to overriders, lambda creation / address-taken = call).  translate()
    computes the interprocedural "may propagate out of" fixpoint and writes lean/Cppcheck/Gen/ExceptionFunnel.lean:
    the table, the fixpoint as a *certificate* (bit masks) and the list of alarms (sites whose exception can reach
    main).  Lean re-checks the certificate by `decide +kernel` over the whole table and the generic lemma
    Cppcheck.ExcFunnel.escape_sound lifts it to propagation chains of any length:
        funnel_complete : every site is an alarm or cannot leave any entry point.
    Each alarm must be  - guarded (AST-checked precondition at the site / at a call edge, recorded in the table), or
                        - a finding: an input in corpus/C13/ makes the real binary terminate abnormally through it, or
                        - listed in corpus/C13/alarms.json as an *open* alarm (explicit assumption, shown in the evidence).
    Any other alarm is an undischarged obligation -> violation search through the CLI.
(b) hygiene: the modelled kernels (lean/Cppcheck/Model/*.lean) build without `partial`/`unsafe` definitions (says nothing about the
    C++ loops: most models terminate by explicit fuel).
(c) validation and search: shipped fuzz corpus + mutated inputs through the real CLI (o1 binary in the quick tier, ASan/UBSan
    build in the thorough tier).  P_impl(input) = normal exit status, no sanitizer report, no time-out.
"""
import concurrent.futures, glob, hashlib, json, os, re, shutil, subprocess, sys, time

from .. import core, build_repo

ID = "C13"
LEVEL = "other"
RULE = ("CLI cases = (file bytes, option list): shipped fuzz-crash / fuzz-timeout corpus, byte-mutated / truncated / deeply nested / "
        "huge-token variants of test/cfg and samples sources, option-file inputs (library cfg, platform xml, project json/vcxproj, addon json, "
        "suppression xml) with mutations, under option sets drawn from --std/--platform/--library/-D/-U/--enable/--inconclusive/--check-level; "
        "distinct = hash of (bytes, options); non-trivial = the input differs from every shipped file and cppcheck got past command-line parsing")
EXPLANATION = ("PARTIAL. Proved in Lean over the table extracted from the current tree (one sub-claim of the property: problems are reported as findings, "
               "no exception ends the process): every UNGUARDED throw site / throwing std call that is not a listed alarm cannot propagate, along any call chain, "
               "out of main, static initialisation, the analysis API or any noexcept function/destructor (certificate re-checked by the kernel over the whole table, "
               "lifted by escape_sound); handler order and actions of the per-file funnels. Sites with a translator-recognised AST guard (listed per site in the "
               "evidence) and open alarms are explicit assumptions, as are call-graph completeness and the callables-called-where-created rule A1. "
               "NOT proved: memory safety, UB-freedom, absence of hangs / bounded running time — nothing in the Lean part speaks about them (the 'models are total' "
               "obligation is hygiene of the models: most terminate by explicit fuel, which says nothing about the C++ loops). They are only validated by runs of the "
               "real CLI on corpus + mutated inputs: WITHOUT sanitizers in the quick tier (o1 binary), with ASan/UBSan only in the thorough tier. Also outside: "
               "exceptions of std functions outside the extracted set (substr/erase/insert positions, bad_alloc outside the funnel, iostream).")
THEOREMS = ["Cppcheck.ExcFunnel.escape_sound", "Cppcheck.ExcFunnel.no_abort", "Cppcheck.ExcFunnel.pathOk_aborts",
            "Cppcheck.C13.cert_closed", "Cppcheck.C13.cert_entries_clear",
            "Cppcheck.C13.funnel_complete", "Cppcheck.C13.funnel_complete_partial", "Cppcheck.C13.funnel_full_of_no_alarm", "Cppcheck.C13.rowCodes_wf",
            "Cppcheck.C13.finding_paths_real", "Cppcheck.C13.funnel_full_counterexample",
            "Cppcheck.C13.budget_verdict", "Cppcheck.C13.budget_perReturns_linear", "Cppcheck.C13.budget_perCall_explodes",
            "Cppcheck.C13.funnel_actions", "Cppcheck.C13.terminate_swallowed", "Cppcheck.C13.funnel_takes_analysis_types"]
MODULES = ["Cppcheck.Props.C13"]

REPO = core.REPO
ROOTS = ["lib/", "cli/", "frontend/", "externals/simplecpp/", "externals/picojson/"]
TOOLDIR = os.path.join(core.VERIF, ".build", "c13tool")
CACHE = os.path.join(core.VERIF, ".build", "cache", "c13")
CORPUS = os.path.join(core.VERIF, "corpus", "C13")
LLVM = "/usr/lib/llvm-14"
CLANG_FLAGS = ["-std=c++11", "-w", "-D" + build_repo.GUARD, "-DHAVE_BOOST", "-DHAVE_EXECINFO_H=1", "-DNDEBUG"] + \
    ["-I%s/%s" % (REPO, d) for d in build_repo.INC_CLI]

# throwing std functions (documented behaviour of libstdc++); the extractor reports calls whose callee is declared
# outside the project only when the name matches one of these
STD_THROW = [
    (re.compile(r"^std::sto(i|l|ll|ul|ull|f|d|ld)$"), ["std::invalid_argument", "std::out_of_range"]),
    (re.compile(r"^std::.*::at$"), ["std::out_of_range"]),
    (re.compile(r"^std::(__cxx11::)?basic_regex<.*>::basic_regex$|^std::regex_(match|search|replace)$"), ["std::regex_error"]),
    (re.compile(r"^std::async$|^std::thread::thread$"), ["std::system_error"]),
]
# fixed part of the hierarchy for std types that occur only through STD_THROW (the extractor reports the classes it sees)
STD_HIER = {
    "std::exception": [], "std::logic_error": ["std::exception"], "std::runtime_error": ["std::exception"],
    "std::invalid_argument": ["std::logic_error"], "std::out_of_range": ["std::logic_error"], "std::length_error": ["std::logic_error"],
    "std::overflow_error": ["std::runtime_error"], "std::system_error": ["std::runtime_error"], "std::regex_error": ["std::runtime_error"],
    "std::bad_alloc": ["std::exception"], "std::bad_cast": ["std::exception"],
}
API_ENTRIES = ["CppCheck::check", "CppCheck::checkBuffer", "CppCheck::analyseWholeProgram"]
FUNNELS = [("CppCheck::checkInternal", 0, "checkInternal.outer"), ("CppCheck::checkInternal", 1, "checkInternal.perConfiguration"),
           ("CppCheck::checkClang", 0, "checkClang")]
# guard kinds (Site.guard / PEdge.blocked come from these AST-checked rules)
GUARD_KINDS = {1: "std container .at(k) dominated by count(k)/find(k) on the same object", 2: "std container .at(i) dominated by size() > i on the same object",
               3: "ProgramMemory::at(id) dominated by hasValue(id) on the same object", 4: "picojson value.get<T>() dominated by value.is<T>()",
               5: "closed run: the edge is only taken by an input-free option which the check executes",
               7: "throw inside a precondition function: every call of the function is a site of its caller (kinds 3/4 decide there)"}
# project functions that throw iff their precondition is violated: each call is treated like a throwing std call of the caller
PRECOND_FUNCS = {"ProgramMemory::at": ["std::out_of_range"], "picojson::value::get": ["std::runtime_error"]}
# input-free paths: the edge caller -> callee is only taken for the given option, which the check executes
CLOSED_RUNS = [("CmdLineParser::parseFromArgs", "CppCheck::getErrorMessages", ["--errorlist"]),
               ("CmdLineParser::parseFromArgs", "CmdLineParser::printHelp", ["--help"])]


class Unrecognised(Exception):
    pass


# ================================================================================================
#  extraction
# ================================================================================================

def sha(b):
    return hashlib.sha1(b if isinstance(b, bytes) else b.encode()).hexdigest()


def build_tool():
    src = os.path.join(core.VERIF, "harness", "c13.cpp")
    h = sha(open(src, "rb").read())[:12]
    exe = os.path.join(TOOLDIR, "c13_astx-" + h)
    if os.path.exists(exe):
        return exe, h
    os.makedirs(TOOLDIR, exist_ok=True)
    with build_repo.Lock("c13tool"):
        if os.path.exists(exe):
            return exe, h
        cmd = ["g++", "-std=c++17", "-O1", "-fno-rtti", "-I%s/include" % LLVM, "-D_GNU_SOURCE", "-D__STDC_CONSTANT_MACROS",
               "-D__STDC_FORMAT_MACROS", "-D__STDC_LIMIT_MACROS", src, "-o", exe + ".tmp",
               "%s/lib/libclang-cpp.so.14" % LLVM, "%s/lib/libLLVM-14.so" % LLVM]
        r = subprocess.run(cmd, stdout=subprocess.PIPE, stderr=subprocess.STDOUT, text=True)
        if r.returncode != 0:
            raise core.CheckBroken("C13 AST extractor does not build:\n" + r.stdout[-3000:])
        os.replace(exe + ".tmp", exe)
        for old in glob.glob(os.path.join(TOOLDIR, "c13_astx-*")):
            if old != exe:
                try:
                    os.remove(old)
                except OSError:
                    pass
    return exe, h


def translation_units():
    tus = []
    for d in ("lib", "cli", "frontend"):
        tus += sorted(glob.glob(os.path.join(REPO, d, "*.cpp")))
    tus.append(os.path.join(REPO, "externals", "simplecpp", "simplecpp.cpp"))
    return tus


def headers_digest():
    h = hashlib.sha1()
    for d in ("lib", "cli", "frontend", "externals/simplecpp", "externals/picojson", "externals/tinyxml2", "externals"):
        for p in sorted(glob.glob(os.path.join(REPO, d, "*.h")) + glob.glob(os.path.join(REPO, d, "*.hpp"))):
            h.update(p.encode())
            h.update(open(p, "rb").read())
    return h.hexdigest()


def preprocessed_key(th, flags, tu):
    """second-level cache key: hash of the preprocessed translation unit (with line markers, so header line shifts count)"""
    r = subprocess.run(["clang++-14", "-E"] + CLANG_FLAGS + [tu], stdout=subprocess.PIPE, stderr=subprocess.PIPE)
    if r.returncode != 0:
        return None, "preprocessing %s failed: %s" % (tu, r.stderr.decode("utf-8", "replace")[-500:])
    return sha(th + flags + tu + sha(r.stdout)), None


def extract_one(tool, th, flags, l1, tu):
    """returns (path of the record file, error, extracted_now).  Two cache levels: l1 = (tool, flags, all headers, this file)
    -> alias to l2 = (tool, flags, preprocessed text of this TU): after a header edit only the TUs whose preprocessed
    text changed are dumped again."""
    alias = os.path.join(CACHE, "l1-" + l1 + ".key")
    if os.path.exists(alias):
        l2 = open(alias).read().strip()
        out = os.path.join(CACHE, l2 + ".jsonl")
        if os.path.exists(out):
            return out, None, False
    l2, err = preprocessed_key(th, flags, tu)
    if err:
        return None, err, False
    out = os.path.join(CACHE, l2 + ".jsonl")
    now = False
    if not os.path.exists(out):
        env = dict(os.environ)
        env["C13_ROOTS"] = ":".join(os.path.join(REPO, r) for r in ROOTS)
        r = subprocess.run([tool, tu, "--"] + CLANG_FLAGS, stdout=subprocess.PIPE, stderr=subprocess.PIPE, env=env)
        text = r.stdout.decode("utf-8", "replace")
        if r.returncode != 0 or not text.rstrip().endswith('{"k":"end"}'):
            return None, "extractor failed on %s (rc=%s): %s" % (tu, r.returncode, r.stderr.decode("utf-8", "replace")[-800:]), False
        tmp = out + ".%d.tmp" % os.getpid()
        open(tmp, "w").write(text)
        os.replace(tmp, out)
        now = True
    tmp = alias + ".%d.tmp" % os.getpid()
    open(tmp, "w").write(l2)
    os.replace(tmp, alias)
    return out, None, now


def extract_all(ctx=None):
    """returns (list of record dicts, stats).  Raises Unrecognised (fail closed)."""
    tool, th = build_tool()
    os.makedirs(CACHE, exist_ok=True)
    hd = headers_digest()
    flags = sha(" ".join(CLANG_FLAGS) + "|" + ":".join(ROOTS))
    jobs = []
    for tu in translation_units():
        jobs.append((sha(th + flags + hd + tu + sha(open(tu, "rb").read())), tu))
    t0 = time.time()
    errs, outs, n_now, n_pp = [], [], 0, 0
    with concurrent.futures.ThreadPoolExecutor(max_workers=min(8, max(2, (os.cpu_count() or 4) // 2))) as ex:
        for (l1, tu), (out, err, now) in zip(jobs, ex.map(lambda j: extract_one(tool, th, flags, j[0], j[1]), jobs)):
            if err:
                errs.append(err)
            outs.append(out)
            n_now += 1 if now else 0
    if errs:
        raise Unrecognised("; ".join(errs)[:3000])
    allkey = sha("".join(os.path.basename(o) for o in outs))
    merged = os.path.join(CACHE, "merged-" + allkey + ".jsonl")
    if not os.path.exists(merged):
        seen = set()
        tmp = merged + ".%d.tmp" % os.getpid()
        with open(tmp, "w") as f:
            for o in outs:
                for line in open(o):
                    if line not in seen:
                        seen.add(line)
                        f.write(line)
        os.replace(tmp, merged)
        # keep the cache directory bounded
        live = set(os.path.basename(o) for o in outs) | {os.path.basename(merged)} | set("l1-" + k + ".key" for k, _ in jobs)
        for p in os.listdir(CACHE):
            if p not in live and time.time() - os.path.getmtime(os.path.join(CACHE, p)) > 6 * 3600:
                try:
                    os.remove(os.path.join(CACHE, p))
                except OSError:
                    pass
    recs = [json.loads(l) for l in open(merged)]
    return recs, dict(tus=len(jobs), extracted_now=n_now, extract_s=round(time.time() - t0, 1), records=len(recs))


# ================================================================================================
#  analysis
# ================================================================================================

def rel(loc):
    return loc[len(REPO) + 1:] if loc.startswith(REPO + "/") else loc


def split_top(s, sep):
    parts, depth, cur, i = [], 0, "", 0
    q = None
    while i < len(s):
        c = s[i]
        if q:
            cur += c
            if c == "\\" and i + 1 < len(s):
                cur += s[i + 1]; i += 1
            elif c == q:
                q = None
        elif c in "\"'":
            q = c; cur += c
        elif c in "([{":          # angle brackets are not tracked (comparison operators are far more common in conditions)
            depth += 1; cur += c
        elif c in ")]}":
            depth -= 1; cur += c
        elif depth == 0 and s.startswith(sep, i):
            parts.append(cur); cur = ""; i += len(sep) - 1
        else:
            cur += c
        i += 1
    parts.append(cur)
    return parts


def norm(s):
    s = re.sub(r"\s+", "", s)
    while len(s) >= 2 and s[0] == "(" and s[-1] == ")" and balanced(s[1:-1]):
        s = s[1:-1]
    return s


def balanced(s):
    d = 0
    for c in s:
        if c == "(":
            d += 1
        elif c == ")":
            d -= 1
            if d < 0:
                return False
    return d == 0


def facts(conds):
    """dominating conditions -> (set of expressions known true, set known false); conservative"""
    pos, neg = set(), set()

    def add(expr, truth):
        e = norm(expr)
        while e.startswith("!"):
            e = norm(e[1:]); truth = not truth
        (pos if truth else neg).add(e)
    for pol, text in conds:
        t = norm(text)
        if pol == "+":
            for c in split_top(t, "&&"):
                add(c, True)
        else:
            if len(split_top(t, "&&")) > 1:
                continue
            for d in split_top(t, "||"):
                add(d, False)
    return pos, neg


def obj_forms(obj):
    o = norm(obj)
    m = re.match(r"^utils::as_const\(\*(.+)\)$", o)
    if m:
        o = norm(m.group(1))
    forms = {o + ".", o + "->"}
    if o.startswith("*"):
        forms.add(norm(o[1:]) + "->")
    return forms


def site_guard(call):
    """guard kind for a throwing-call record, 0 if none.  Evidence = dominating conditions extracted from the AST."""
    name = call["name"]
    if "conds" not in call:
        return 0
    pos, neg = facts(call["conds"])
    k = norm(call.get("arg0", ""))
    forms = obj_forms(call.get("obj", ""))
    if name.endswith("::at") and name.startswith("std::"):
        for f in forms:
            for p in (f + "count(" + k + ")", f + "count(" + k + ")>0", f + "count(" + k + ")!=0", f + "contains(" + k + ")",
                      f + "find(" + k + ")!=" + f + "end()", f + "find(" + k + ")!=" + f + "cend()"):
                if p in pos:
                    return 1
            for p in (f + "count(" + k + ")==0", f + "find(" + k + ")==" + f + "end()", f + "find(" + k + ")==" + f + "cend()"):
                if p in neg:
                    return 1
            for p in (f + "size()>" + k, k + "<" + f + "size()"):
                if p in pos:
                    return 2
            for p in (f + "size()<=" + k, k + ">=" + f + "size()"):
                if p in neg:
                    return 2
    return 0


def precond_guard(call):
    """guard kind for a call of a precondition function (PRECOND_FUNCS), 0 if the precondition is not established syntactically"""
    return edge_guard(call)[0]


def edge_guard(call):
    name = call["name"]
    if "conds" not in call:
        return 0, []
    pos, neg = facts(call["conds"])
    k = norm(call.get("arg0", ""))
    forms = obj_forms(call.get("obj", ""))
    if name == "ProgramMemory::at":
        for f in forms:
            if f + "hasValue(" + k + ")" in pos:
                return 3, ["std::out_of_range"]
    if name == "picojson::value::get":
        m = re.search(r"(?:\.|->)\s*get\s*<(.*)>\s*\(\s*\)\s*$", call.get("text", ""), re.S)
        if m:
            t = norm(m.group(1))
            for f in forms:
                if f + "is<" + t + ">()" in pos:
                    return 4, ["std::runtime_error"]
    return 0, []


class Model:
    pass


def analyse(recs):
    """builds the table, runs the fixpoint, returns a Model.  Raises Unrecognised on shapes outside the closed grammar."""
    M = Model()
    fn, classes, tries, throws, calls, refs = {}, dict((k, list(v)) for k, v in STD_HIER.items()), {}, [], [], []
    over = {}
    unrec = []
    for r in recs:
        k = r["k"]
        if k == "fn":
            if r["id"] in fn and fn[r["id"]].get("nothrow"):
                r = dict(r, nothrow=True)
            if r["id"] == "<global-init>":
                r = dict(r, nothrow=False)
            if "nothrow" not in r:
                unrec.append("fn record without exception specification (stale extractor output)")
            fn[r["id"]] = r
        elif k == "class":
            if r["name"] in classes and sorted(classes[r["name"]]) != sorted(r["bases"]) and r["name"] in STD_HIER:
                unrec.append("std hierarchy differs from the fixed table for %s: %s" % (r["name"], r["bases"]))
            classes[r["name"]] = r["bases"]
        elif k == "try":
            tries[(r["fn"], r["id"])] = r
        elif k == "throw":
            throws.append(r)
        elif k == "call":
            calls.append(r)
        elif k == "ref":
            refs.append(r)
        elif k == "override":
            for o in r["overrides"]:
                over.setdefault(o, set()).add(r["id"])
        elif k == "unrec":
            unrec.append("%s at %s" % (r["what"], rel(r["loc"])))
        elif k == "stdthrow":
            unrec.append("%s at %s" % (r["what"], rel(r["loc"])))
        elif k in ("icall", "end"):
            pass
        else:
            unrec.append("record kind " + k)
    if unrec:
        raise Unrecognised("; ".join(sorted(set(unrec)))[:2000])
    if not fn or not throws or not tries:
        raise Unrecognised("empty extraction")

    # ---- ids ------------------------------------------------------------------------------------
    fids = sorted(fn, key=lambda u: (fn[u]["name"], u))
    fidx = dict((u, i) for i, u in enumerate(fids))
    tnames = set(classes)
    for s in throws:
        tnames.add(s["type"])
    for t in tries.values():
        for h in t["handlers"]:
            if h["type"] != "...":
                tnames.add(h["type"])
    for _, ts in STD_THROW:
        tnames.update(ts)
    for t in list(tnames):
        for b in classes.get(t, []):
            tnames.add(b)
    tlist = sorted(tnames)
    tidx = dict((t, i) for i, t in enumerate(tlist))
    for t in tlist:
        if t not in classes:
            raise Unrecognised("no class record for type " + t)

    def anc(t, seen=None):
        seen = seen if seen is not None else set()
        for b in classes.get(t, []):
            if b not in seen:
                seen.add(b); anc(b, seen)
        return seen
    ancs = dict((t, anc(t)) for t in tlist)

    def catches(h, t):
        return h == "..." or h == t or h in ancs[t]

    def handler_lists(f, ctx):
        out = []
        for tid in ctx:
            tr = tries.get((f, tid))
            if tr is None:
                raise Unrecognised("try %s of %s not found" % (tid, f))
            out.append([h["type"] for h in tr["handlers"]])
        return out

    def caught_in(hls, t):
        return any(any(catches(h, t) for h in hl) for hl in hls)

    def allover(m, seen=None):
        seen = seen if seen is not None else set()
        for o in over.get(m, ()):
            if o not in seen:
                seen.add(o); allover(o, seen)
        return seen

    def stdthrows(name):
        for rx, ts in STD_THROW:
            if rx.match(name):
                return ts
        return []

    # ---- sites ----------------------------------------------------------------------------------
    sites = []      # dict(id, fn, ty, ctx(list of handler-name lists), guard, loc, what, key)
    seen_site = set()
    for s in sorted(throws, key=lambda s: (s["loc"], s["fn"], s["type"])):
        if s["fn"] not in fidx:
            raise Unrecognised("throw in unknown function at " + s["loc"])
        if s["type"] == "...":
            raise Unrecognised("rethrow inside catch (...) at " + rel(s["loc"]))
        hls = handler_lists(s["fn"], s["ctx"])
        k = (s["fn"], s["loc"], s["type"])
        if k in seen_site:
            continue
        seen_site.add(k)
        g = 0
        if fn[s["fn"]]["name"] in PRECOND_FUNCS:
            if s["type"] not in PRECOND_FUNCS[fn[s["fn"]]["name"]]:
                raise Unrecognised("%s throws %s, the precondition rule knows %s" % (fn[s["fn"]]["name"], s["type"], PRECOND_FUNCS[fn[s["fn"]]["name"]]))
            g = 7
        sites.append(dict(fn=s["fn"], ty=s["type"], ctx=hls, guard=g, loc=s["loc"], what="throw" + (" (rethrow)" if s["rethrow"] else ""), macro=s.get("macro", "")))
    n_std_calls = 0
    for c in sorted(calls, key=lambda c: (c["loc"], c["fn"], c["name"])):
        if c["callee"] in fn:
            if c["name"] not in PRECOND_FUNCS:
                continue
            ts = PRECOND_FUNCS[c["name"]]
            pre = True
        else:
            ts = stdthrows(c["name"])
            pre = False
        if not ts:
            continue
        if c["fn"] not in fidx:
            raise Unrecognised("call in unknown function at " + c["loc"])
        n_std_calls += 1
        hls = handler_lists(c["fn"], c["ctx"])
        g = precond_guard(c) if pre else site_guard(c)
        for t in ts:
            k = (c["fn"], c["loc"], t, c["name"])
            if k in seen_site:
                continue
            seen_site.add(k)
            ev = ""
            if g:
                ev = "; ".join("%s(%s)" % ("holds" if pol == "+" else "fails", text) for pol, text in c.get("conds", [])
                               if re.search(r"count\(|find\(|contains\(|size\(\)|hasValue\(|is\s*<", text))
            sites.append(dict(fn=c["fn"], ty=t, ctx=hls, guard=g, loc=c["loc"], what="call " + c["name"], macro="", call=c, guard_evidence=ev))
    for i, s in enumerate(sites):
        s["id"] = i
    # stable keys: type | file | enclosing function | what # ordinal
    cnt = {}
    for s in sites:
        base = "%s|%s|%s|%s" % (s["ty"], rel(s["loc"]).split(":")[0], fn[s["fn"]]["name"], s["what"])
        n = cnt.get(base, 0)
        cnt[base] = n + 1
        s["key"] = "%s#%d" % (base, n)

    # ---- edges ----------------------------------------------------------------------------------
    # callee -> { (caller, ctx tuple, blocked tuple) }
    edges = {}
    closed_run_edges = []

    def add_edge(callee, caller, hls, blocked=()):
        edges.setdefault(callee, set()).add((caller, tuple(tuple(h) for h in hls), tuple(sorted(blocked))))
    for c in calls:
        tg = {c["callee"]}
        if c.get("virt"):
            tg |= allover(c["callee"])
        tg = [g for g in tg if g in fn]
        if not tg:
            continue
        if c["fn"] not in fidx:
            raise Unrecognised("call in unknown function at " + c["loc"])
        hls = handler_lists(c["fn"], c["ctx"])
        blocked = []
        for (crn, cen, opts) in CLOSED_RUNS:
            if fn[c["fn"]]["name"] == crn and c["name"] == cen:
                blocked = list(tlist)
                closed_run_edges.append((crn, cen, tuple(opts)))
        for g in tg:
            add_edge(g, c["fn"], hls, blocked)
    n_lambda_in_try = 0
    refs_in_try = []
    for r in refs:
        tg = [g for g in ({r["callee"]} | allover(r["callee"])) if g in fn]
        if not tg:
            continue
        if r["fn"] not in fidx:
            raise Unrecognised("reference in unknown function at " + r["loc"])
        hls = handler_lists(r["fn"], r.get("ctx", []))
        if hls:
            n_lambda_in_try += 1
            refs_in_try.append(dict(creator=fn[r["fn"]]["name"], callable=r["name"], loc=rel(r["loc"]), lam=bool(r.get("lambda")),
                                    handlers=[" / ".join(hl) for hl in hls]))
        for g in tg:
            add_edge(g, r["fn"], hls)

    # ---- propagation ------------------------------------------------------------------------------------
    # An edge is (callee g <- caller f, handler lists around the call, guard-blocked types).
    def passes(edge, t):
        caller, hls, blocked = edge
        return not caught_in(hls, t) and t not in blocked

    # entry points: the process (main, static initialisation) and the analysis API — an exception leaving main aborts the
    # process, an exception leaving the per-file / whole-program analysis is a problem that was not turned into a finding
    entries = [u for u in fids if fn[u]["name"] == "main"] + [u for u in fids if u == "<global-init>"]
    if not any(fn[u]["name"] == "main" for u in entries):
        raise Unrecognised("no main function found")
    api = [u for u in fids if fn[u]["name"] in API_ENTRIES and fn[u]["kind"] == "fn"]
    for nm in API_ENTRIES:
        if not any(fn[u]["name"] == nm for u in api):
            raise Unrecognised("analysis API function %s not found" % nm)
    entries += api
    # functions with a non-throwing exception specification (noexcept, destructors): an exception that tries to leave one
    # calls std::terminate whatever handlers are further up, so each of them is a terminate point = entry
    nothrow = [u for u in fids if fn[u].get("nothrow") and u not in entries]
    entries += nothrow
    sorted_edges = dict((g, sorted(es, key=lambda e: (fn[e[0]]["name"], e[0], e[1], e[2]))) for g, es in edges.items())

    def reach_from(f0, t):
        """functions out of which an exception of type t raised in f0 may propagate (breadth first: shortest witness)"""
        pred = {f0: None}
        work = [f0]
        i = 0
        while i < len(work):
            g = work[i]; i += 1
            for e in sorted_edges.get(g, ()):
                if e[0] not in pred and passes(e, t):
                    pred[e[0]] = g
                    work.append(e[0])
        return pred

    cache = {}
    alarms = []
    for s in sites:
        s["origin"] = not s["guard"] and not caught_in(s["ctx"], s["ty"])
        if not s["origin"]:
            continue
        ck = (s["fn"], s["ty"])
        if ck not in cache:
            cache[ck] = reach_from(s["fn"], s["ty"])
        pred = cache[ck]
        hit = [e for e in entries if e in pred]
        if hit:
            path = [hit[0]]
            while pred[path[-1]] is not None:
                path.append(pred[path[-1]])
            path.reverse()          # from the site's function up to the entry
            alarms.append(dict(site=s, key=s["key"], path=path, ty=s["ty"]))
    # certificate: fixpoint over the non-alarm origins only, per type
    alarm_ids = set(a["site"]["id"] for a in alarms)
    reach_by_type = dict((t, set()) for t in tlist)
    for t in tlist:
        R = reach_by_type[t]
        work = []
        for s in sites:
            if s["ty"] == t and s["origin"] and s["id"] not in alarm_ids and s["fn"] not in R:
                R.add(s["fn"]); work.append(s["fn"])
        while work:
            g = work.pop()
            for e in sorted_edges.get(g, ()):
                if e[0] not in R and passes(e, t):
                    R.add(e[0]); work.append(e[0])
        for e in entries:
            if e in R:
                raise Unrecognised("internal: certificate reaches an entry for type " + t)

    # ---- funnels --------------------------------------------------------------------------------
    funnels = []
    for (fname, depth, label) in FUNNELS:
        cands = [t for (f, tid), t in tries.items() if fn[f]["name"] == fname and len(t["parent"]) == depth and fn[f]["kind"] == "fn"]
        if len(cands) != 1:
            raise Unrecognised("expected exactly one try block at depth %d in %s, found %d" % (depth, fname, len(cands)))
        hs = []
        for h in cands[0]["handlers"]:
            cs = set(h.get("calls", []))
            if h.get("throws"):
                act = "rethrow"
            elif cs & {"CppCheck::internalError", "ErrorLogger::reportErr", "ErrorMessage::fromInternalError"}:
                act = "finding"
            elif cs & {"exit", "std::exit", "abort", "std::abort", "std::terminate", "_exit"}:
                act = "exit"
            elif not (cs - {"CppCheck::CppCheckLogger::setAnalyzerInfo", "CppCheck::CppCheckLogger::exitcode",
                            "std::unique_ptr<AnalyzerInformation>::operator bool", "std::unique_ptr::operator bool"}) or \
                    all(re.match(r"^(std::|CppCheck::CppCheckLogger::)", c) for c in cs):
                act = "swallow"
            else:
                raise Unrecognised("handler body of %s (%s) calls %s" % (label, h["type"], sorted(cs)))
            hs.append((h["type"], act))
        funnels.append(dict(name=label, handlers=hs, loc=cands[0]["id"]))
    if "TerminateException" not in tidx or "InternalError" not in tidx:
        raise Unrecognised("TerminateException / InternalError not among the extracted types")

    # types that reach the outer funnel (leave the try block body of checkInternal): for the evidence
    M.fn, M.fids, M.fidx, M.tlist, M.tidx, M.classes = fn, fids, fidx, tlist, tidx, classes
    M.sites, M.edges, M.entries, M.alarms, M.reach = sites, edges, entries, alarms, reach_by_type
    M.funnels, M.tries = funnels, tries
    M.nothrow = nothrow
    M.refs_in_try = sorted(refs_in_try, key=lambda d: d["loc"])
    M.closed_runs = sorted(set(closed_run_edges))
    M.stats = dict(functions=len(fids), types=len(tlist), sites=len(sites), throw_sites=sum(1 for s in sites if s["what"].startswith("throw")),
                   std_call_sites=n_std_calls, try_blocks=len(tries), call_edges=sum(len(v) for v in edges.values()),
                   refs_inside_try=n_lambda_in_try, alarms=len(alarms), nothrow_functions=len(nothrow),
                   guarded_sites=sum(1 for s in sites if s["guard"]),
                   guarded_edges=sum(1 for v in edges.values() for e in v if e[2]))
    return M


# ================================================================================================
#  classification of alarms
# ================================================================================================

def load_alarm_rules():
    p = os.path.join(CORPUS, "alarms.json")
    if not os.path.exists(p):
        return []
    return json.load(open(p)).get("rules", [])


def rule_matches(M, rule, a):
    s = a["site"]
    fields = dict(type=s["ty"], file=rel(s["loc"]).split(":")[0], fn=M.fn[s["fn"]]["name"], what=s["what"])
    for k, v in fields.items():
        if k in rule and not re.fullmatch(rule[k], v):
            return False
    if "via" in rule and not any(re.fullmatch(rule["via"], M.fn[f]["name"]) for f in a["path"]):
        return False
    return True


def classify_alarms(M):
    """returns list of dict(alarm, cls in finding/open/new, rule); first matching rule of corpus/C13/alarms.json wins"""
    rules = load_alarm_rules()
    out = []
    for a in M.alarms:
        r = next((r for r in rules if rule_matches(M, r, a)), None)
        out.append(dict(alarm=a, cls=(r["class"] if r else "new"), rule=r))
    return out


# ================================================================================================
#  Lean generation
# ================================================================================================

def lean_handler(M, h):
    return ".all" if h == "..." else ".ty %d" % M.tidx[h]


def lean_ctx(M, hls):
    return "[" + ", ".join("[" + ", ".join(lean_handler(M, h) for h in hl) + "]" for hl in hls) + "]"


def gen_lean(M, classified):
    L = []
    L.append("-- GENERATED by vlib/props/c13.py from the working tree of /repo — do not edit.")
    L.append("import Cppcheck.Model.ExcFunnel")
    L.append("namespace Cppcheck.Gen.ExceptionFunnel")
    L.append("open Cppcheck.ExcFunnel")
    L.append("-- the tables are only ever evaluated by the kernel (`decide +kernel`); no code is generated for them")
    L.append("noncomputable section")
    L.append("")
    L.append("/-- type index -> C++ type -/")
    L.append("def typeNames : List String := [" + ", ".join(json.dumps(t) for t in M.tlist) + "]")
    L.append("def types : List Ty := List.range %d" % len(M.tlist))
    L.append("def hier : Hier := ⟨[" + ", ".join("[" + ", ".join(str(M.tidx[b]) for b in M.classes[t]) + "]" for t in M.tlist) + "]⟩")
    L.append("def tyTerminateException : Ty := %d" % M.tidx["TerminateException"])
    L.append("def tyInternalError : Ty := %d" % M.tidx["InternalError"])
    for nm in ("std::runtime_error", "std::bad_alloc", "std::exception"):
        L.append("def ty_%s : Ty := %d" % (nm.replace("::", "_"), M.tidx[nm]))
    L.append("")
    L.append("/-- function index -> qualified name (for reading the table; the theorems use indices only) -/")
    L.append("def fnCount : Nat := %d" % len(M.fids))
    L.append("")
    # sites
    chunks = []
    per = 200
    srows = ["⟨%d, %d, %d, %s, %d⟩" % (s["id"], M.fidx[s["fn"]], M.tidx[s["ty"]], lean_ctx(M, s["ctx"]), s["guard"]) for s in M.sites]
    for i in range(0, len(srows), per):
        L.append("def sites%d : List Site := [\n  %s]" % (i // per, ",\n  ".join(srows[i:i + per])))
        chunks.append("sites%d" % (i // per))
    L.append("def sites : List Site := " + " ++ ".join(chunks))
    L.append("")
    # rows: callers outside try blocks as one base-8192 number per callee, protected / guarded edges as structured rows
    if len(M.fids) >= 8191:
        raise Unrecognised("more than 8190 functions: the row encoding needs a wider digit")
    codes, prows = [], []
    code_row, prot_row = {}, {}         # (callee id, caller id) -> index among the codes / the protected rows
    for u in M.fids:
        es = M.edges.get(u)
        if not es:
            continue
        plain = sorted(set(M.fidx[e[0]] for e in es if not e[1] and not e[2]))
        prot = sorted(set((M.fidx[e[0]], e[1], e[2]) for e in es if e[1] or e[2]))
        for i in range(0, len(plain), 24):      # short codes: kernel arithmetic on them stays cheap
            n = 0
            for d in reversed([M.fidx[u] + 1] + [c + 1 for c in plain[i:i + 24]]):
                n = n * 8192 + d
            for c in plain[i:i + 24]:
                code_row[(M.fidx[u], c)] = len(codes)
            codes.append(hex(n))
        if prot:
            ps = ", ".join("⟨%d, %s, [%s]⟩" % (c, lean_ctx(M, hls), ", ".join(str(M.tidx[b]) for b in bl)) for (c, hls, bl) in prot)
            for (c, hls, bl) in prot:
                prot_row.setdefault((M.fidx[u], c), len(prows))
            prows.append("⟨%d, [], [%s]⟩" % (M.fidx[u], ps))
    chunks = []
    per = 400
    for i in range(0, len(codes), per):
        L.append("def rowCodes%d : List Nat := [\n  %s]" % (i // per, ",\n  ".join(codes[i:i + per])))
        chunks.append("rowCodes%d" % (i // per))
    L.append("def rowCodes : List Nat := " + " ++ ".join(chunks))
    L.append("/-- calls inside try blocks / calls whose callee precondition the translator established -/")
    L.append("def protRows : List Row := [\n  %s]" % ",\n  ".join(prows))
    L.append("def rows : List Row := rowCodes.map decodeRow ++ protRows")
    L.append("")
    L.append("def entries : List Fn := [" + ", ".join(str(M.fidx[e]) for e in M.entries) + "]")
    L.append("def prog : Prog := ⟨hier, sites, rows, entries⟩")
    L.append("")
    L.append("/-- certificate: per type, bit mask of the functions it may propagate out of (alarm sites excluded) -/")
    masks = []
    for t in M.tlist:
        m = 0
        for u in M.reach[t]:
            m |= 1 << M.fidx[u]
        masks.append(hex(m))
    anym = 0
    for t in M.tlist:
        for u in M.reach[t]:
            anym |= 1 << M.fidx[u]
    L.append("def cert : Cert := ⟨[\n  " + ",\n  ".join(masks) + "],\n  " + hex(anym) + "⟩")
    L.append("")
    L.append("/-- sites whose exception can reach an entry point along some call chain -/")
    L.append("def alarmIds : List Nat := [" + ", ".join(str(a["site"]["id"]) for a in M.alarms) + "]")
    open_ids = [c["alarm"]["site"]["id"] for c in classified if c["cls"] == "open"]
    find_ids = [c["alarm"]["site"]["id"] for c in classified if c["cls"] == "finding"]
    L.append("/-- alarms with a replayed witness input on the real binary (corpus/C13) -/")
    L.append("def findingIds : List Nat := [" + ", ".join(map(str, find_ids)) + "]")
    L.append("/-- alarms carried as explicit assumptions (corpus/C13/alarms.json, class open) -/")
    L.append("def openIds : List Nat := [" + ", ".join(map(str, open_ids)) + "]")
    # one checked chain per finding key (the shortest)
    best = {}
    for c in classified:
        if c["cls"] == "finding":
            k = c["rule"]["finding"]
            if k not in best or len(c["alarm"]["path"]) < len(best[k]["alarm"]["path"]):
                best[k] = c
    plines = []
    for k in sorted(best):
        a = best[k]["alarm"]
        ids = [M.fidx[f] for f in a["path"]]
        hops = []
        for g, f in zip(ids, ids[1:]):
            if (g, f) in code_row:
                idx = code_row[(g, f)]
            elif (g, f) in prot_row:
                idx = len(codes) + prot_row[(g, f)]
            else:
                raise Unrecognised("internal: no row for edge of a finding path")
            hops.append("(%d, %d)" % (f, idx))
        plines.append("⟨%d, %d, [%s]⟩" % (a["site"]["id"], ids[0], ", ".join(hops)))
    L.append("def findingPaths : List Path := [" + ",\n  ".join(plines) + "]")
    L.append("")
    acts = dict(finding=".finding", swallow=".swallow", rethrow=".rethrow", exit=".exit")
    for f in M.funnels:
        nm = "funnel_" + f["name"].replace(".", "_")
        L.append("def %s : Funnel := ⟨%s, [%s]⟩" % (nm, json.dumps(f["name"]), ", ".join("(%s, %s)" % (lean_handler(M, h), acts[a]) for h, a in f["handlers"])))
    L.append("def funnels : List Funnel := [" + ", ".join("funnel_" + f["name"].replace(".", "_") for f in M.funnels) + "]")
    L.append("")
    L.append("end")
    L.append("end Cppcheck.Gen.ExceptionFunnel")
    return "\n".join(L) + "\n"


# ---- recursion budget of getLifetimeTokens / followAllReferencesInternal (tie T, textual with balanced-parenthesis scanner) ----

BUDGET_FUNCS = [("lib/valueflow.cpp", "getLifetimeTokens"), ("lib/astutils.cpp", "followAllReferencesInternal")]


def _match_close(text, i, op, cl):
    """index of the bracket closing text[i] (== op), skipping string / char literals and comments"""
    depth, n = 0, len(text)
    while i < n:
        c = text[i]
        if c == '"' or c == "'":
            q = c; i += 1
            while i < n and text[i] != q:
                i += 2 if text[i] == "\\" else 1
        elif text.startswith("//", i):
            i = text.find("\n", i)
            if i < 0:
                return -1
        elif text.startswith("/*", i):
            i = text.find("*/", i) + 1
        elif c == op:
            depth += 1
        elif c == cl:
            depth -= 1
            if depth == 0:
                return i
        i += 1
    return -1


def _split_args(a):
    parts, cur, depth, i = [], "", 0, 0
    while i < len(a):
        c = a[i]
        if c in "\"'":
            j = i + 1
            while j < len(a) and a[j] != c:
                j += 2 if a[j] == "\\" else 1
            cur += a[i:j + 1]; i = j + 1; continue
        if c in "([{":
            depth += 1
        elif c in ")]}":
            depth -= 1
        if c == "," and depth == 0:
            parts.append(cur); cur = ""
        else:
            cur += c
        i += 1
    parts.append(cur)
    return parts


def extract_budgets():
    """[(site label, 'perReturns'|'perCall', fanout?)], initial depths.  Raises Unrecognised (fail closed)."""
    sites, depths = [], []
    for relp, fname in BUDGET_FUNCS:
        text = open(os.path.join(REPO, relp), encoding="utf-8", errors="replace").read()
        m = re.search(r"\bstatic\s+[^;{}()]*?\b" + fname + r"\s*\(", text)
        if not m:
            raise Unrecognised("definition of %s not found in %s" % (fname, relp))
        po = text.index("(", m.end() - 1)
        pc = _match_close(text, po, "(", ")")
        params = text[po + 1:pc]
        md = re.search(r"\bint\s+depth\s*=\s*(\d+)\s*$", params.strip())
        if not md:
            raise Unrecognised("%s: last parameter is not `int depth = <n>`: %r" % (fname, params[-60:]))
        depths.append(int(md.group(1)))
        bo = text.find("{", pc)
        if bo < 0 or text[pc + 1:bo].strip():
            raise Unrecognised("%s: body not found" % fname)
        bc = _match_close(text, bo, "{", "}")
        body = text[bo:bc + 1]
        if not re.search(r"if\s*\(\s*depth\s*<\s*0\s*\)", body):
            raise Unrecognised("%s: the `if (depth < 0)` stop is missing" % fname)
        # fan-out loops over the return statements of the callee
        loops = []
        for lm in re.finditer(r"for\s*\(\s*const\s+Token\s*\*\s*\w+\s*:\s*returns\s*\)\s*\{", body):
            lo = lm.end() - 1
            loops.append((lo, _match_close(body, lo, "{", "}")))
        if not loops or not re.search(r"returns\s*=\s*Function::findReturns\s*\(\s*f\s*\)", body):
            raise Unrecognised("%s: loop over `returns = Function::findReturns(f)` not found" % fname)
        k = 0
        for cm in re.finditer(r"\b" + fname + r"\s*\(", body):
            ao = cm.end() - 1
            ac = _match_close(body, ao, "(", ")")
            args = [norm(x) for x in _split_args(body[ao + 1:ac])]
            last = args[-1]
            fan = any(lo < cm.start() < lc for lo, lc in loops)
            if last == "depth-returns.size()":
                ch = "perReturns"
            elif last == "depth-1":
                ch = "perCall"
            else:
                raise Unrecognised("%s: recursive call #%d passes budget %r (expected `depth - 1` or `depth - returns.size()`)" % (fname, k, last))
            if not fan and ch != "perCall":
                raise Unrecognised("%s: recursive call #%d outside the returns loop passes %r" % (fname, k, last))
            sites.append(("%s#%d" % (fname, k), ch, fan))
            k += 1
        if not any(f for (_, _, f) in sites if _):
            pass
    return sites, depths


def gen_budget_lean(sites, depths):
    L = ["-- GENERATED by vlib/props/c13.py from lib/valueflow.cpp and lib/astutils.cpp — do not edit.",
         "import Cppcheck.Model.LifetimeBudget", "namespace Cppcheck.Gen.LifetimeBudget", "open Cppcheck.LifetimeBudget", "",
         "/-- recursive calls inside the loop over the callee's return statements, with the budget expression they pass -/",
         "def fanoutCharges : List (String × Charge) := [" + ", ".join('(%s, .%s)' % (json.dumps(n), c) for (n, c, f) in sites if f) + "]",
         "/-- `int depth = <n>` of the two functions -/",
         "def initialDepths : List Nat := [" + ", ".join(map(str, depths)) + "]", "", "end Cppcheck.Gen.LifetimeBudget"]
    return "\n".join(L) + "\n"


_MODEL = {}


def get_model(ctx):
    if "M" not in _MODEL:
        recs, st = extract_all(ctx)
        M = analyse(recs)
        M.stats.update(st)
        _MODEL["M"] = M
    return _MODEL["M"]


def translate(ctx):
    M = get_model(ctx)
    cl = classify_alarms(M)
    ctx.write_gen("ExceptionFunnel", gen_lean(M, cl))
    try:
        sites, depths = extract_budgets()
        ctx.write_gen("LifetimeBudget", gen_budget_lean(sites, depths))
        M.budget = (sites, depths, None)
    except Unrecognised as ex:
        M.budget = (None, None, str(ex))
    return M, cl


# ================================================================================================
#  (b) totality of the modelled kernels
# ================================================================================================

# kernels whose Lean definitions are accepted only with termination proofs (structural recursion, explicit fuel or
# `termination_by`); see docs/C13.md for what each one models
KERNEL_MODULES = [
    "Cppcheck.Model.Match", "Cppcheck.Model.Glob", "Cppcheck.Model.PathMatch", "Cppcheck.Model.PathCanon", "Cppcheck.Model.FileLister",
    "Cppcheck.Model.Links", "Cppcheck.Model.AstLadder", "Cppcheck.Model.AstUnary", "Cppcheck.Model.AstStore", "Cppcheck.Model.Configs",
    "Cppcheck.Model.Serialize", "Cppcheck.Model.Shell", "Cppcheck.Model.GccArgs", "Cppcheck.Model.Suppress", "Cppcheck.Model.SuppressParse",
    "Cppcheck.Model.LibValid", "Cppcheck.Model.MathLit", "Cppcheck.Model.CharLit", "Cppcheck.Model.Trunc", "Cppcheck.Model.VarMap",
    "Cppcheck.Model.ScopeProg", "Cppcheck.Model.Ctu", "Cppcheck.Model.XmlEsc", "Cppcheck.Model.XmlWf", "Cppcheck.Model.Template",
    "Cppcheck.Model.Dedup", "Cppcheck.Model.Exec", "Cppcheck.Model.ExcFunnel",
]
PARTIAL_RE = re.compile(r"^\s*(?:@\[[^\]]*\]\s*)?(?:private\s+|protected\s+)?(?:partial|unsafe)\s+(?:def|instance|abbrev)\b|@\[\s*(?:extern|implemented_by)\b|\bdecreasing_by\s+(?:sorry|admit)\b", re.M)


def totality(ctx, res):
    mods = [m for m in KERNEL_MODULES if os.path.exists(os.path.join(core.LEAN, *m.split(".")) + ".lean")]
    missing = [m for m in KERNEL_MODULES if m not in mods]
    ok, log = ctx.lake(mods)
    res.checker_cmds.append("cd /verif/lean && lake build " + " ".join(mods))
    bad = core.grep_forbidden(core.lean_files_of(mods))
    for p in core.lean_files_of(mods):
        text = open(p, encoding="utf-8", errors="replace").read()
        text = re.sub(r"--[^\n]*", "", text)
        text = re.sub(r'"([^"\\]|\\.)*"', '""', text)
        for m in PARTIAL_RE.finditer(text):
            bad.append("%s: %s" % (os.path.basename(p), m.group(0).strip()))
    # Audit M1: Lean totality of a model says nothing about the C++ loop it copies when the model terminates by explicit fuel.
    # This is a hygiene obligation about the models (no `partial`/`unsafe` escape hatch), NOT part of what C13 claims about cppcheck.
    fuelled, unfuelled = [], []
    for p in core.lean_files_of(mods):
        text = re.sub(r"--[^\n]*", "", open(p, encoding="utf-8", errors="replace").read())
        n = len(re.findall(r"^\s*(?:private\s+|protected\s+)?def\s+[^\n:=]*\(\s*fuel\b|\|\s*fuel\s*\+\s*1\b|:\s*Nat\s*→[^\n]*\n\s*\|\s*0\s*,", text, re.M))
        (fuelled if re.search(r"\bfuel\b", text) else unfuelled).append(os.path.basename(p)[:-5])
    res.extra["kernel_models_fuelled(termination of the C++ loop not claimed)"] = fuelled
    res.extra["kernel_models_structural_or_measure"] = unfuelled
    res.oblig("hygiene:models-are-total(no partial/unsafe)", ok and not bad and not missing, "hygiene",
              ("missing modules: %s\n" % missing if missing else "") + ("\n".join(bad) if bad else "") + ("" if ok else log[-2500:]))
    res.extra["kernel_modules"] = len(mods)


# ================================================================================================
#  (c) the real binary: corpus, generators, P_impl
# ================================================================================================

SAN_RE = re.compile(r"ERROR: AddressSanitizer|ERROR: LeakSanitizer|runtime error:|SUMMARY: (?:Address|UndefinedBehavior)Sanitizer|AddressSanitizer:DEADLYSIGNAL")
TERM_RE = re.compile(r"terminate called after throwing an instance of '([^']+)'(?:\s*what\(\):\s*([^\n]*))?")
NORMAL_STATUS = (0, 1)


def private_bin(ctx, variant):
    """a private copy of the built binary (other checks may relink the shared one while we run)"""
    d = os.path.join(ctx.tmp, "bin-" + variant)
    exe = os.path.join(d, "cppcheck")
    if os.path.exists(exe):
        return exe
    os.makedirs(d, exist_ok=True)
    src = build_repo.cppcheck_bin(variant)
    for attempt in range(20):
        try:
            shutil.copy2(src, exe)
            break
        except OSError:
            time.sleep(0.5)
    else:
        raise core.CheckBroken("cannot copy " + src)
    for sub in ("cfg", "platforms", "addons"):
        os.symlink(os.path.join(REPO, sub), os.path.join(d, sub))
    return exe


_case_no = [0]


def run_case(ctx, exe, files, args, timeout):
    """files: {relative name: bytes}; runs cppcheck in a fresh directory.  Returns outcome dict."""
    _case_no[0] += 1
    d = os.path.join(ctx.tmp, "case-%d-%d" % (os.getpid(), _case_no[0]))
    os.makedirs(d, exist_ok=True)
    try:
        for name, data in files.items():
            p = os.path.join(d, name)
            os.makedirs(os.path.dirname(p), exist_ok=True)
            with open(p, "wb") as f:
                f.write(data if isinstance(data, bytes) else data.encode("latin-1", "replace"))
        env = dict(os.environ)
        env["ASAN_OPTIONS"] = "detect_leaks=0:abort_on_error=0:exitcode=97:allocator_may_return_null=1:detect_stack_use_after_return=0"
        env["UBSAN_OPTIONS"] = "print_stacktrace=0:halt_on_error=1:exitcode=98"
        t = time.time()
        try:
            r = subprocess.run([exe] + list(args), cwd=d, stdout=subprocess.PIPE, stderr=subprocess.PIPE, timeout=timeout, env=env,
                               stdin=subprocess.DEVNULL)
            rc, out, err, to = r.returncode, r.stdout, r.stderr, False
        except subprocess.TimeoutExpired as ex:
            rc, out, err, to = None, ex.stdout or b"", ex.stderr or b"", True
        dt = time.time() - t
        err_t = (err or b"").decode("latin-1")
        out_t = (out or b"").decode("latin-1")
        o = dict(rc=rc, timeout=to, dt=round(dt, 2), stderr=err_t[-1500:], stdout=out_t[-400:], stdout_full=out_t)
        m = TERM_RE.search(err_t)
        if to:
            o["kind"] = "timeout"
        elif SAN_RE.search(err_t):
            o["kind"] = "sanitizer"
            mm = re.search(r"(ERROR: AddressSanitizer: [\w-]+|runtime error: [^\n]{0,80})", err_t)
            o["detail"] = mm.group(1) if mm else ""
        elif m:
            o["kind"] = "uncaught"
            o["detail"] = m.group(1) + ("|" + (m.group(2) or "").strip() if m.group(2) else "")
        elif rc is not None and rc < 0:
            o["kind"] = "signal"
            o["detail"] = str(-rc)
        elif rc not in NORMAL_STATUS:
            o["kind"] = "status"
            o["detail"] = str(rc)
        elif re.search(r"^cppcheck: error: ", err_t, re.M) and re.search(r"^Checking ", o["stdout_full"], re.M):
            # main()'s last-resort handler writes to stderr (command-line errors go to stdout): after "Checking ..." it means an
            # exception left the analysis API instead of becoming a finding
            o["kind"] = "escaped"
            mm = re.search(r"^cppcheck: error: ([^\n]*)", err_t, re.M)
            o["detail"] = mm.group(1)[:120]
        else:
            o["kind"] = "ok"
        o.pop("stdout_full", None)
        return o
    finally:
        shutil.rmtree(d, ignore_errors=True)


def load_cases():
    p = os.path.join(CORPUS, "cases.json")
    return json.load(open(p))["cases"] if os.path.exists(p) else []


# signatures of the known findings: a failing generated input is attributed to a finding only if all given regexes match
SIGNATURES = {
    "polyspace-range-out-of-range": dict(kind="uncaught", detail=r"std::out_of_range\|stoi", input=r"polyspace"),
    "json-nonfinite-number": dict(kind="uncaught", detail=r"std::overflow_error", args=r"--(addon|project)=\S*\.json"),
    "define-option-macro-error": dict(kind="escaped", detail=r"unknown exception", args=r"(^| )-D"),
    "json-entry-type-mismatch": dict(kind="uncaught", detail=r"std::runtime_error\|.*type mismatch! call is<type>", args=r"--project=\S*\.json"),
    "vcxproj-condition-segv": dict(kind="signal", detail=r"11", args=r"--project=\S*\.vcxproj", input=r"Condition="),
    "self-include-twice-hang": dict(kind="timeout", detail=r"", pred="self_include_twice"),
    # o1 binary: SIGSEGV; ASan binary: "AddressSanitizer: stack-overflow"
    "nested-call-stack-overflow": dict(kind="signal|sanitizer", detail=r"11|.*AddressSanitizer: stack-overflow", input=r"(?:\w\(){3000}"),
    "leakautovar-nested-call-exponential": dict(kind="timeout", detail=r"", input=r"(?:\b\w+\(){25}"),
    "ast-nested-lambda-hang": dict(kind="timeout", detail=r"", input=r"\[\]\s*\{[^;]*\[\]\s*\{"),
    "vcxproj-condition-internalerror": dict(kind="uncaught", detail=r"InternalError", args=r"--project=\S*\.vcxproj", input=r"Condition="),
    "gui-project-library-comma": dict(kind="uncaught", detail=r"std::runtime_error\|handling of multiple libraries", args=r"--project=\S*\.cppcheck"),
    "suppress-xml-non-numeric": dict(kind="uncaught", detail=r"std::runtime_error\|converting '.*' to integer failed", args=r"--suppress-xml="),
    "report-type-guideline-stoi": dict(kind="escaped", detail=r"stoi", args=r"--report-type=misra"),
}


def attribute(files, args, o):
    """finding key whose signature the failing case matches, else None"""
    a = " ".join(args)
    inp = b"\n".join(v if isinstance(v, bytes) else v.encode("latin-1", "replace") for v in files.values()).decode("latin-1")
    for key, sig in SIGNATURES.items():
        if not re.fullmatch(sig["kind"], o["kind"]):
            continue
        if not re.search(sig["detail"], o.get("detail", "")):
            continue
        if "args" in sig and not re.search(sig["args"], a):
            continue
        if "input" in sig and not re.search(sig["input"], inp):
            continue
        if sig.get("pred") == "self_include_twice":
            def twice(name, data):
                t = data if isinstance(data, str) else data.decode("latin-1")
                return len(re.findall(r'#\s*include\s*"' + re.escape(os.path.basename(name)) + '"', t)) >= 2
            if not any(twice(n_, d_) for n_, d_ in files.items()):
                continue
        return key
    return None


def hexfiles(files):
    return dict((k, (v if isinstance(v, bytes) else v.encode("latin-1", "replace")).hex()) for k, v in files.items())


# ---- generators ---------------------------------------------------------------------------------

STDS = ["c89", "c99", "c11", "c17", "c23", "c++03", "c++11", "c++14", "c++17", "c++20", "c++23", "c++26"]
PLATFORMS = ["unix32", "unix64", "win32A", "win32W", "win64", "native", "avr8", "elbrus-e1cp", "pic8", "mips32", "arm32-wchar_t2", "unspecified"]
LIBS = ["std", "posix", "gnu", "windows", "qt", "boost", "googletest", "zlib", "avr", "sqlite3", "openssl", "libcurl", "wxwidgets", "gtk"]


def gen_options(rng, lang):
    o = []
    if rng.random() < 0.7:
        o.append("--language=" + lang)
    if rng.random() < 0.5:
        o.append("--std=" + rng.choice(STDS))
    if rng.random() < 0.4:
        o.append("--platform=" + rng.choice(PLATFORMS))
    for l in rng.sample(LIBS, rng.choice([0, 0, 1, 2])):
        o.append("--library=" + l)
    if rng.random() < 0.6:
        o.append("--enable=" + rng.choice(["all", "all", "style", "warning,performance,portability", "information", "unusedFunction"]))
    if rng.random() < 0.4:
        o.append("--inconclusive")
    if rng.random() < 0.2:
        o.append("--check-level=exhaustive")
    if rng.random() < 0.15:
        o.append("--debug-warnings")
    if rng.random() < 0.1:
        o.append("--inline-suppr")
    if rng.random() < 0.1:
        o.append("--max-configs=" + rng.choice(["1", "2", "50"]))
    if rng.random() < 0.1:
        o.append("--force")
    for _ in range(rng.choice([0, 0, 0, 1, 2])):
        nm = rng.choice(["A", "DEBUG", "X", "__cplusplus", "_WIN32", "NDEBUG", "f(x)", "M(a,b)", "V(...)"])
        val = rng.choice(["", "=1", "=0", "=x+1", "=\"s\"", "=(", "=a##b", "=#x", "=__VA_ARGS__"])
        if rng.random() < 0.3:
            o.append("-U" + nm.split("(")[0])
        else:
            o.append("-D" + nm + val)
    return o


def source_seeds():
    seeds = []
    for pat in ("samples/*/*.c", "samples/*/*.cpp", "test/cfg/*.c", "test/cfg/*.cpp", "test/cli/*/*.c", "test/cli/*/*.cpp", "test/cli/*/*.h"):
        seeds += glob.glob(os.path.join(REPO, pat))
    return sorted(p for p in seeds if os.path.getsize(p) < 400000)


NEST = [("(", ")"), ("{", "}"), ("[", "]"), ("<", ">"), ("((", "))"), ("{(", ")}"), ("a<", ">"), ("if(x){", "}"), ("f(", ")"), ("#if 1\n", "\n#endif\n"),
        ("x?", ":0"), ("!", ""), ("*", ""), ("sizeof(", ")"), ("template<class T> struct A{", "};"), ("namespace N{", "}"),
        ("try{", "}catch(...){}"), ("a=", ""), ("a,", ""), ("-", ""), ("(int)", ""), ("a->", ""), ("a::", "")]


def gen_source(rng, seeds):
    """(name, bytes, description)"""
    k = rng.random()
    lang = rng.choice(["c", "c++"])
    ext = ".c" if lang == "c" else ".cpp"
    if k < 0.5:
        p = rng.choice(seeds)
        data = open(p, "rb").read()
        lines = data.split(b"\n")
        if len(lines) > 80:
            a = rng.randrange(0, len(lines) - 40)
            lines = lines[a:a + rng.randrange(20, 80)]
        data = b"\n".join(lines)
        ba = bytearray(data)
        nmut = rng.choice([1, 2, 4, 8, 16])
        desc = "mutate:%s" % os.path.basename(p)
        for _ in range(nmut):
            if not ba:
                break
            m = rng.random()
            i = rng.randrange(len(ba))
            if m < 0.3:
                ba[i] = rng.randrange(256)
            elif m < 0.5:
                ba[i] = rng.choice(b"(){}[]<>;,:?#\"'\\*&=+-/!%~^|.\n\x00 ")
            elif m < 0.65:
                del ba[i:i + rng.randrange(1, 40)]
            elif m < 0.8:
                j = rng.randrange(len(ba))
                ba[i:i] = ba[j:j + rng.randrange(1, 60)]
            elif m < 0.9:
                ba[i:i] = rng.choice([b"#define ", b"#if ", b"#else\n", b"#endif\n", b"template<", b"operator", b"typedef ", b"using ", b"decltype(", b"case ",
                                      b"__attribute__((", b"asm(", b"0x", b"1e", b"'\\", b"\"\\", b"R\"(", b"??/", b"\\\n", b"/*", b"//", b"->*", b"...", b"::", b"<=>", b"goto ", b"enum class ", b"requires "])
            else:
                del ba[i:]
        return ("m" + ext, bytes(ba), lang, desc)
    if k < 0.7:
        op, cl = rng.choice(NEST)
        n = rng.choice([10, 100, 500, 2000, 5000])
        core_ = rng.choice(["0", "x", "", "1+", "a b"])
        body = op * n + core_ + cl * (n if rng.random() < 0.7 else rng.randrange(0, n))
        wrap = rng.choice(["int f(){return %s;}", "%s", "void f(){%s;}", "int a=%s;", "#define M %s\nM", "struct S{int x[%s];};"])
        return ("n" + ext, (wrap % body + "\n").encode(), lang, "nest:%s*%d" % (op.strip(), n))
    if k < 0.8:
        n = rng.choice([1000, 20000, 200000])      # the tokenizer is super-linear in the length of one statement: 1 MB lines are slow, not hung
        tok = rng.choice(["a" * n, "1" * n, "\"" + "x" * n + "\"", "0x" + "f" * n, "1." + "0" * n + "e" + "9" * 50, "'" + "a" * n + "'", "/*" + "*" * n, "L\"" + "\\x41" * (n // 4) + "\"",
                          "#define A " + "A " * (n // 8), "#include \"" + "x" * n + "\""])
        wrap = rng.choice(["int x = %s;\n", "%s\n", "void f(){ g(%s); }\n"])
        return ("h" + ext, (wrap % tok).encode(), lang, "huge-token:%d" % n)
    if k < 0.9:
        p = rng.choice(seeds)
        data = open(p, "rb").read()
        cut = rng.randrange(0, min(len(data), 6000) + 1)
        return ("t" + ext, data[:cut], lang, "truncate:%s@%d" % (os.path.basename(p), cut))
    n = rng.randrange(1, 400)
    return ("r" + ext, bytes(rng.randrange(256) for _ in range(n)), lang, "random-bytes:%d" % n)


def mutate_text(rng, data, extra_tokens):
    ba = bytearray(data)
    for _ in range(rng.choice([1, 1, 2, 3, 6])):
        if not ba:
            break
        i = rng.randrange(len(ba))
        m = rng.random()
        if m < 0.25:
            ba[i] = rng.randrange(256)
        elif m < 0.45:
            del ba[i:i + rng.randrange(1, 30)]
        elif m < 0.6:
            j = rng.randrange(len(ba))
            ba[i:i] = ba[j:j + rng.randrange(1, 50)]
        elif m < 0.9:
            ba[i:i] = rng.choice(extra_tokens)
        else:
            del ba[i:]
    return bytes(ba)


JSON_TOK = [b"1e999", b"-1e999", b"null", b"true", b"[", b"]", b"{", b"}", b"\"\"", b"1", b"\"x\":", b",", b"\\u0000", b"\\ud800", b"99999999999999999999", b"[[[[[[[[", b"0.5", b"-"]
XML_TOK = [b"<", b">", b"/>", b"=\"", b"\"", b"&amp;", b"&#0;", b"&#x110000;", b"<!--", b"<![CDATA[", b"abc", b"-1", b"99999999999999999999", b"0x10", b"1.5", b" ", b"<a>", b"</a>", b"[", b"("]
VCX = '''<?xml version="1.0" encoding="utf-8"?>
<Project DefaultTargets="Build" ToolsVersion="4.0" xmlns="http://schemas.microsoft.com/developer/msbuild/2003">
  <ItemGroup Label="ProjectConfigurations">
    <ProjectConfiguration Include="Debug|Win32"><Configuration>Debug</Configuration><Platform>Win32</Platform></ProjectConfiguration>
    <ProjectConfiguration Include="Release|x64"><Configuration>Release</Configuration><Platform>x64</Platform></ProjectConfiguration>
  </ItemGroup>
  <PropertyGroup Condition="'$(Configuration)|$(Platform)'=='Debug|Win32'" Label="Configuration"><UseOfMfc>Dynamic</UseOfMfc></PropertyGroup>
  <ItemDefinitionGroup Condition="%s">
    <ClCompile><PreprocessorDefinitions>X;%%(PreprocessorDefinitions)</PreprocessorDefinitions><AdditionalIncludeDirectories>inc;$(ProjectDir)</AdditionalIncludeDirectories>
    <LanguageStandard>stdcpp17</LanguageStandard></ClCompile>
  </ItemDefinitionGroup>
  <ItemGroup><ClCompile Include="a.c" /></ItemGroup>
</Project>
'''
COND_TOK = ["a", "b", "1", "'x'", "'Debug'", "==", "!=", "(", ")", "!", "And", "Or", "?", ":", ",", "+", "-", "*", "/", "%", "<", ">", "<<", ">>", "=", "::", ".", "->", "~", "&",
            "|", "^", "sizeof", "new", "return", "case", "throw", "{", "}", "$", "$(Configuration)", "$(Platform)", "HasTrailingSlash", "exists", "++", "...", "operator", "if", "\"s\"", "0x1", ";", "["]


def gen_option_file(rng):
    """(files, args, description) — inputs read by options: project files, library cfg, platform xml, addon json, suppression files"""
    k = rng.random()
    src = {"a.c": b"int f(int x){ int a[2]; return a[x]; }\n"}
    if k < 0.2:
        base = rng.choice([b'[{"directory":".","command":"gcc -DA=1 -Iinc -c a.c","file":"a.c"}]', b'[{"directory":".","arguments":["gcc","-c","a.c","-DX"],"file":"a.c","output":"a.o"}]'])
        data = mutate_text(rng, base, JSON_TOK)
        return (dict(src, **{"cdb.json": data}), ["--project=cdb.json"], "project-json")
    if k < 0.35:
        base = rng.choice([b'{"script":"misra.py","args":["--x"],"ctu":false}', b'{"script":"y2038.py","python":"python3","checkers":[{"a":"b"}],"executable":""}'])
        data = mutate_text(rng, base, JSON_TOK)
        return (dict(src, **{"ad.json": data}), ["--addon=ad.json", "a.c"], "addon-json")
    if k < 0.5:
        cond = " ".join(rng.choice(COND_TOK) for _ in range(rng.randrange(1, 8)))
        if rng.random() < 0.5:
            cond = "'$(Configuration)'=='Debug' " + rng.choice(["And", "Or", "", "=="]) + " " + cond
        x = cond.replace("&", "&amp;").replace("<", "&lt;").replace(">", "&gt;").replace('"', "&quot;")
        data = (VCX % x).encode()
        if rng.random() < 0.3:
            data = mutate_text(rng, data, XML_TOK)
        return (dict(src, **{"p.vcxproj": data}), ["--project=p.vcxproj"], "vcxproj")
    if k < 0.6:
        base = open(os.path.join(REPO, "cfg", rng.choice(["avr.cfg", "zlib.cfg", "embedded_sql.cfg", "lua.cfg", "googletest.cfg"])), "rb").read()
        data = mutate_text(rng, base, XML_TOK)
        return (dict(src, **{"l.cfg": data}), ["--library=l.cfg", "--enable=all", "a.c"], "library-cfg")
    if k < 0.7:
        base = open(os.path.join(REPO, "platforms", rng.choice(["avr8.xml", "mips32.xml", "pic16.xml", "arm64-wchar_t4.xml"])), "rb").read()
        data = mutate_text(rng, base, XML_TOK)
        return (dict(src, **{"p.xml": data}), ["--platform=p.xml", "a.c"], "platform-xml")
    if k < 0.8:
        base = b'<?xml version="1.0"?>\n<suppressions>\n<suppress><id>arrayIndexOutOfBounds</id><fileName>a.c</fileName><lineNumber>1</lineNumber><symbolName>a</symbolName><hash>12</hash></suppress>\n</suppressions>\n'
        data = mutate_text(rng, base, XML_TOK)
        return (dict(src, **{"s.xml": data}), ["--suppress-xml=s.xml", "a.c"], "suppress-xml")
    if k < 0.9:
        base = b"arrayIndexOutOfBounds:a.c:1\nuninitvar\n*:b*.c\n// comment\nid:file:2:sym\n"
        data = mutate_text(rng, base, [b":", b"*", b"?", b"\n", b"-1", b"99999999999999999999", b"[", b"\\", b" ", b"//", b"\x00"])
        opt = rng.choice(["--suppressions-list=s.txt", "--exitcode-suppressions=s.txt"])
        return (dict(src, **{"s.txt": data}), [opt, "a.c"], "suppressions-list")
    base = b'<?xml version="1.0" encoding="UTF-8"?>\n<project version="1">\n<root name="."/>\n<builddir>b</builddir>\n<platform>unix64</platform>\n<libraries><library>posix</library></libraries>\n<defines><define name="A=1"/></defines>\n<paths><dir name="."/></paths>\n<exclude><path name="x/"/></exclude>\n<suppressions><suppression fileName="a.c" lineNumber="1">id</suppression></suppressions>\n<check-level-exhaustive/>\n<max-ctu-depth>2</max-ctu-depth>\n</project>\n'
    data = mutate_text(rng, base, XML_TOK)
    return (dict(src, **{"g.cppcheck": data}), ["--project=g.cppcheck"], "gui-project")


def gen_ref_recursion(rng, kind=None, k=None):
    """valid C++: reference-returning functions whose return statements are again calls of such functions (k-way fan-out of
    getLifetimeTokens / followAllReferences), self recursion, mutual recursion, deep call chains, member accessors"""
    kind = kind or rng.choice(["self", "self", "mutual", "chain", "member"])
    k = k or rng.choice([2, 3, 4, 5])
    L = ["struct Node { Node* c[%d]; int value; %s };" % (k, "int& get(int i);" if kind == "member" else ""), "static int outside;"]
    if kind == "self":
        L.append("int& cell(Node* q, int i, int h)\n{\n    if (!q)\n        return outside;\n    if (h == 0)\n        return q->value;")
        for j in range(k - 1):
            L.append("    if (i %% %d == %d)\n        return cell(q->c[%d], i / %d, h - 1);" % (k, j, j, k))
        L.append("    return cell(q->c[%d], i / %d, h - 1);\n}" % (k - 1, k))
        acc = "cell(root, i, 9)"
    elif kind == "mutual":
        L.append("int& odd(Node* q, int i);")
        L.append("int& even(Node* q, int i)\n{\n    if (!q)\n        return outside;")
        for j in range(k - 1):
            L.append("    if (i %% %d == %d)\n        return odd(q->c[%d], i / %d);" % (k, j, j, k))
        L.append("    return odd(q->c[%d], i + 1);\n}" % (k - 1))
        L.append("int& odd(Node* q, int i)\n{\n    if (!q || i == 0)\n        return q ? q->value : outside;")
        for j in range(k - 1):
            L.append("    if (i %% %d == %d)\n        return even(q->c[%d], i / %d);" % (k, j, j, k))
        L.append("    return even(q->c[%d], i - 1);\n}" % (k - 1))
        acc = "even(root, i)"
    elif kind == "chain":
        n = rng.choice([8, 16, 30])
        L.append("int& f%d(Node* q, int i) { return i ? q->value : outside; }" % n)
        for lvl in range(n - 1, -1, -1):
            body = ["int& f%d(Node* q, int i)\n{" % lvl]
            for j in range(k - 1):
                body.append("    if (i == %d)\n        return f%d(q->c[%d], i + %d);" % (j, lvl + 1, j, j))
            body.append("    return f%d(q->c[%d], i);\n}" % (lvl + 1, k - 1))
            L.append("\n".join(body))
        acc = "f0(root, i)"
    else:
        L.append("int& Node::get(int i)\n{\n    if (i == 0)\n        return value;")
        for j in range(k - 1):
            L.append("    if (i %% %d == %d)\n        return c[%d]->get(i / %d);" % (k, j, j, k))
        L.append("    return c[%d]->get(i - 1);\n}" % (k - 1))
        acc = "root->get(i)"
    L.append("void bump(Node* root, int i)\n{\n    int& r = %s;\n    ++r;\n}" % acc)
    L.append("int peek(Node* root, int i)\n{\n    return %s;\n}" % acc)
    L.append("int* addr(Node* root, int i)\n{\n    int& r = %s;\n    return &r;\n}" % acc)
    return ("refrec.cpp", ("\n".join(L) + "\n").encode(), "c++", "ref-recursion:%s:k=%d" % (kind, k))


def shipped_corpus():
    out = []
    for d, lang in (("fuzz-crash", "c++"), ("fuzz-crash_c", "c"), ("fuzz-timeout", "c++")):
        for p in sorted(glob.glob(os.path.join(REPO, "test", "cli", d, "*"))):
            if os.path.isfile(p):
                out.append((d, lang, p))
    return out


# ---- driver -------------------------------------------------------------------------------------

def cli_batch(ctx, res, exe, batch, timeout, variant, workers):
    """batch: list of (files, args, desc, origin).  Evaluates P_impl on each; returns list of (case, outcome) failures."""
    fails = []

    def one(c):
        files, args, desc, origin = c
        o = run_case(ctx, exe, files, args, timeout)
        if o["kind"] == "timeout":
            o2 = run_case(ctx, exe, files, args, timeout * 2)      # the machine is shared: confirm with a generous limit
            if o2["kind"] != "timeout":
                o = o2
            else:
                o["confirmed_timeout_s"] = timeout * 2
        return c, o
    with concurrent.futures.ThreadPoolExecutor(max_workers=workers) as ex:
        for c, o in ex.map(one, batch):
            files, args, desc, origin = c
            canon = hashlib.sha1(json.dumps([hexfiles(files), args]).encode()).hexdigest()
            nontriv = origin != "shipped" and "error: unrecognized command line option" not in o["stdout"]
            res.case("cli|" + canon, nontriv, dict(tie="cli:" + variant, op="%s %s" % (desc, " ".join(args))[:200], impl="%s rc=%s %.1fs" % (o["kind"], o["rc"], o["dt"]), model="P_impl: normal status, no sanitizer report, no time-out") if len(res.samples) < 10 else None)
            res.count("origin:" + origin)
            res.count("outcome:" + o["kind"])
            if o["kind"] != "ok":
                fails.append((c, o))
    return fails


def report_failures(ctx, res, fails, variant):
    for (files, args, desc, origin), o in fails:
        key = attribute(files, args, o)
        what = "cppcheck (%s build) terminated abnormally: %s %s on %s [%s]; args: %s; stderr tail: %s" % (
            variant, o["kind"], o.get("detail", ""), desc, origin, " ".join(args), o["stderr"][-300:].replace("\n", " | "))
        res.violation(what, dict(kind="cli", variant=variant, args=args, files=hexfiles(files), outcome=dict(kind=o["kind"], detail=o.get("detail", ""), rc=o["rc"]),
                                 replay_cmd="./check.py C13 --replay <this file>"), concrete=True, key=key)


def run(ctx, res):
    rng = ctx.rng
    thorough = ctx.tier == "thorough"
    tm = {}
    t_ph = time.time()

    def phase(name):
        nonlocal t_ph
        tm[name] = round(time.time() - t_ph, 1)
        t_ph = time.time()
        res.extra["phase_s"] = tm
    # ---------- (a) translator + theorems -------------------------------------------------------------
    M, cl = None, []
    try:
        M, cl = translate(ctx)
        res.oblig("T:extraction(clang-ast)", True, "translation", json.dumps(M.stats))
        res.extra["funnel_table"] = M.stats
    except Unrecognised as ex:
        res.oblig("T:extraction(clang-ast)", False, "translation", "unrecognised shape / extractor failure: %s" % ex)
    phase("translate")
    core.prove(ctx, res, MODULES, THEOREMS)
    phase("lean")
    new_alarms = []
    if M is not None:
        bs, bd, berr = M.budget
        res.oblig("T:recursion-budget-extraction", berr is None, "translation", berr or "")
        if berr is None:
            fan = [(n, c) for (n, c, f) in bs if f]
            bad = [n for (n, c) in fan if c != "perReturns"]
            res.extra["recursion_budget_sites"] = dict(fanout=fan, other=[(n, c) for (n, c, f) in bs if not f], initial_depths=bd)
            res.oblig("T:recursion-budget-charged-per-return-statement", not bad and len(fan) == 4 and bd == [20, 20], "translation",
                      "" if not bad and len(fan) == 4 and bd == [20, 20] else
                      "fan-out sites that charge `depth - 1` (cost (r)^depth, theorem budget_perCall_explodes): %s; fan-out sites %d (expected 4); initial depths %s" % (bad, len(fan), bd))
        res.extra["funnels"] = [dict(name=f["name"], handlers=["%s -> %s" % h for h in f["handlers"]]) for f in M.funnels]
        res.extra["guard_kinds"] = GUARD_KINDS
        # M2 of the audit: guarded sites are contained only by the translator's AST rule, which the Lean semantics does not trust
        # (funnel_complete has the explicit disjunct `s.guard ≠ 0`): list every one of them, per site, with the recognised evidence
        gl, per_kind = [], {}
        for s_ in M.sites:
            if s_["guard"]:
                per_kind[s_["guard"]] = per_kind.get(s_["guard"], 0) + 1
                gl.append(dict(key=s_["key"], loc=rel(s_["loc"]), kind=s_["guard"], what=s_["what"], type=s_["ty"],
                               evidence=s_.get("guard_evidence") or ("every call of this precondition function is a site of its caller" if s_["guard"] == 7 else "")))
        res.extra["guarded_sites"] = gl
        bad_ev = [g for g in gl if g["kind"] in (1, 2, 3, 4) and not g["evidence"]]
        res.oblig("funnel:guarded-sites-carry-evidence", not bad_ev, "translation",
                  "" if not bad_ev else "guard without recorded dominating condition: %s" % [g["key"] for g in bad_ev][:5])
        for k in sorted(per_kind):
            res.assumptions.append("%d site(s) are excluded from the containment theorem by AST guard rule %d (%s); the rule matches source text of dominating "
                                   "conditions and does not check for an intervening mutation; sites: %s" %
                                   (per_kind[k], k, GUARD_KINDS.get(k, "?"), ", ".join(g["loc"] for g in gl if g["kind"] == k)))
        # M4: assumption A1, per callable created inside a try block
        for r_ in M.refs_in_try:
            res.assumptions.append("A1: the %s `%s` created at %s inside a try block of %s (handlers %s) is assumed to be invoked only while that block is active" %
                                   ("lambda" if r_["lam"] else "function reference", r_["callable"].split("(")[0] or r_["callable"], r_["loc"], r_["creator"], r_["handlers"]))
        res.assumptions.append("A1 (general): a lambda / function reference is modelled as called where it is created; a callable stored and invoked from an unrelated "
                               "call chain is not followed (calls through std::function / function pointers have no other edges)")
        res.assumptions.append("the call graph (rows) is complete for direct calls, constructor calls, virtual calls (all overriders) and references visible in the AST of the 84 TUs "
                               "under the Linux configuration; implicit destructor calls, default member initialisers and calls made by std code into project code other than through "
                               "callables are not edges")
        res.extra["nothrow_terminate_points"] = len(M.nothrow)
        nf = no = 0
        used_findings = set()
        for c in cl:
            a = c["alarm"]
            chain = " <- ".join(M.fn[f]["name"].split("(")[0] or "(anonymous)" for f in a["path"])
            if c["cls"] == "new":
                new_alarms.append((a, chain))
            elif c["cls"] == "open":
                no += 1
                res.assumptions.append("open alarm %s (%s at %s): %s" % (a["key"], a["site"]["what"], rel(a["site"]["loc"]), c["rule"]["reason"]))
            else:
                nf += 1
                used_findings.add(c["rule"]["finding"])
        res.extra["alarms"] = dict(total=len(cl), findings=nf, open=no, new=len(new_alarms))
        for a, chain in new_alarms[:40]:
            res.oblig("funnel:unclassified-alarm:" + a["key"], False, "translation",
                      "an exception of type %s raised by `%s` at %s can leave an entry point (main / analysis API / a noexcept function or destructor) uncaught along: %s" % (a["ty"], a["site"]["what"], rel(a["site"]["loc"]), chain))
        res.oblig("funnel:every-alarm-guarded-finding-or-open", not new_alarms, "translation",
                  "" if not new_alarms else "%d alarm(s) are neither guarded, nor demonstrated findings, nor listed open assumptions" % len(new_alarms))
        res.extra["finding_keys_with_alarms"] = sorted(used_findings)
    # ---------- (b) totality ----------------------------------------------------------------------------
    totality(ctx, res)
    phase("totality")
    # ---------- (c) the real binary -----------------------------------------------------------------------
    variant = "o1"
    if thorough:
        try:
            ctx.build_repo("asan")
            variant = "asan"
        except core.CheckBroken as ex:
            res.oblig("build:asan-variant", False, "machinery", str(ex))
    exe = private_bin(ctx, variant)
    # the machine is shared: scale the time limits by how slow a trivial run is right now (normally ~30 ms, ASan ~150 ms)
    probe = []
    for _ in range(3):
        t = time.time()
        subprocess.run([exe, "--version"], stdout=subprocess.DEVNULL, stderr=subprocess.DEVNULL)
        probe.append(time.time() - t)
    slow = min(8.0, max(1.0, sorted(probe)[1] / (0.3 if variant == "asan" else 0.06)))
    res.extra["machine_slowness_factor"] = round(slow, 1)
    tmo = min(int((120 if variant == "asan" else 12) * slow), 300 if variant == "asan" else 60)
    workers = 6 if thorough else 4
    # closed-run guards: input-free paths are executed
    if M is not None:
        for (crn, cen, opts) in M.closed_runs:
            o = run_case(ctx, exe, {}, list(opts), tmo)
            res.oblig("guard:closed-run:" + " ".join(opts), o["kind"] == "ok", "guard", "" if o["kind"] == "ok" else json.dumps(o)[:600])
    # corpus of witnesses: every listed finding must still reproduce (then it is reported as known finding), otherwise the entry is stale
    cases = load_cases()
    corpus_fail = []

    def run_corpus_case(c):
        files = dict((k, v.encode("latin-1")) for k, v in c["files"].items())
        t = (30 if variant == "asan" else 6) if c.get("expect") == "timeout" else tmo * (4 if any(a.startswith("--addon") for a in c["args"]) else 1)
        return c, files, run_case(ctx, exe, files, c["args"], t)
    with concurrent.futures.ThreadPoolExecutor(max_workers=workers) as ex:
        for c, files, o in ex.map(run_corpus_case, cases):
            res.case("corpus|" + c["name"], True, dict(tie="corpus", op=c["name"], impl="%s %s" % (o["kind"], o.get("detail", "")), model="finding " + str(c.get("finding"))))
            res.count("origin:corpus")
            if o["kind"] != "ok":
                corpus_fail.append(((files, c["args"], "corpus:" + c["name"], "corpus"), o))
                res.extra.setdefault("witnesses_reproduced", []).append(c["name"])
            else:
                res.extra.setdefault("witnesses_no_longer_failing", []).append(c["name"] + (" (fixed by %s)" % c["fixed_by"] if c.get("fixed_by") else ""))
    report_failures(ctx, res, corpus_fail, variant)
    phase("corpus")
    # shipped fuzz corpus + generated inputs
    seeds = source_seeds()
    ship = shipped_corpus()
    if not thorough:
        ship = rng.sample(ship, min(10, len(ship)))
    batch = []
    for d, lang, p in ship:
        batch.append(({os.path.basename(p): open(p, "rb").read()}, ["-q", "--language=" + lang, "--enable=all", "--inconclusive", os.path.basename(p)], d + "/" + os.path.basename(p), "shipped"))
    n_src = 450 if thorough else 20
    n_opt = 300 if thorough else 16
    for _ in range(n_src):
        name, data, lang, desc = gen_source(rng, seeds)
        batch.append(({name: data}, gen_options(rng, lang) + [name], desc, "gen-source"))
    # hostile-but-valid stream: reference-returning functions with k recursive returns (the fan-out of getLifetimeTokens /
    # followAllReferences); a run that exceeds the time limit is the concrete replay
    rr = [("self", 4), ("mutual", 3), ("chain", 3), ("member", 5)] + [(None, None)] * (36 if thorough else 2)
    for kind, k in rr:
        name, data, lang, desc = gen_ref_recursion(rng, kind, k)
        batch.append(({name: data}, rng.choice([[], ["--enable=all", "--inconclusive"], ["--check-level=exhaustive"], ["--enable=all", "--inconclusive", "--check-level=exhaustive"]]) + [name], desc, "gen-ref-recursion"))
    for _ in range(n_opt):
        files, args, desc = gen_option_file(rng)
        batch.append((files, args, desc, "gen-option-file"))
    fails = cli_batch(ctx, res, exe, batch, tmo, variant, workers)
    report_failures(ctx, res, fails, variant)
    phase("cli")
    res.extra["cli_variant"] = variant
    res.extra["cli_cases"] = len(batch) + len(cases)
    # ---------- violation search: an alarm nobody accounts for --------------------------------------------
    if new_alarms and not any(v["concrete"] and v.get("key") is None for v in res.violations):
        search(ctx, res, exe, variant, new_alarms, seeds, tmo)


def search(ctx, res, exe, variant, new_alarms, seeds, tmo):
    """look for an input that terminates the real binary with one of the unaccounted exception types"""
    rng = ctx.rng
    want = set(a["ty"] for a, _ in new_alarms)
    deadline = time.time() + (420 if ctx.tier == "thorough" else 75)
    n = 0
    while time.time() < deadline:
        batch = []
        for _ in range(24):
            if rng.random() < 0.5:
                name, data, lang, desc = gen_source(rng, seeds)
                batch.append(({name: data}, gen_options(rng, lang) + [name], desc, "search-source"))
            else:
                files, args, desc = gen_option_file(rng)
                batch.append((files, args, desc, "search-option-file"))
        n += len(batch)
        fails = cli_batch(ctx, res, exe, batch, tmo, variant, 6)
        hit = [(c, o) for c, o in fails if attribute(c[0], c[1], o) is None]
        if hit:
            report_failures(ctx, res, hit, variant)
            break
    res.extra["search_cases"] = n
    res.extra["search_for_types"] = sorted(want)


def replay(ctx, res, rp):
    if rp.get("kind") != "cli":
        print("replay: this replay file names undischarged obligations only (no concrete input); re-run ./check.py C13")
        return 1
    variant = rp.get("variant", "o1")
    if variant != "o1":
        ctx.build_repo(variant)
    exe = private_bin(ctx, variant)
    files = dict((k, bytes.fromhex(v)) for k, v in rp["files"].items())
    o = run_case(ctx, exe, files, rp["args"], 120 if variant == "asan" else 25)
    print("replay: %s %s rc=%s (%.1fs)" % (o["kind"], o.get("detail", ""), o["rc"], o["dt"]))
    if o["kind"] != "ok":
        print("VIOLATION property=C13 replay=(replayed) %s %s args=%s" % (o["kind"], o.get("detail", ""), " ".join(rp["args"])))
        print("  stderr: " + o["stderr"][-400:].replace("\n", " | "))
        return 1
    return 0

"""C23 — suppressions hide exactly the matching findings.

Obligations
  theorems   Cppcheck.Props.C23 (Lean): matchglob stack machine = recursive search = documented glob language (current code:
             on starOk patterns, counterexample a**b / axb; repaired code: all patterns), Suppression::isSuppressed = documented
             rules, list level + report gate: reported <-> unsuppressed, nofail never hides, parse/print round trip,
             line-range semantics of the six suppression kinds.
  C-glob     real matchglob == model stack machine; scratch copy with proposed/C23-matchglob.diff == model of the repair
  C-valid    real isValidGlobPattern == model
  C-is       real Suppression::isSuppressed == model on (suppression, finding) pairs (PathMatch answers fed to the model)
  C-list     real SuppressionList::addSuppression/isSuppressed/isSuppressedExplicitly sequences == model (results + flags)
  C-parse    parseLine / toString / strToInt<int> / parseComment / parseMultiSuppressComment / parseFile / parseXmlFile == model
  C-gate     real CppCheck::CppCheckLogger::reportErr (driven in-process through CppCheck + a scripted addon callback) == model gate
  CLI        generated sources/headers with inline suppressions and planted findings through the cppcheck binary, incl. -rp / -j2
             (quick: 6 + 3 projects, thorough: 60 + 13)
P_impl       a finding is reported by the real code iff no active suppression matches it by the documented rules
             (glob: real matchglob(p, n) == documented language; round trip: parseLine(toString s) == s for printable s)
"""
import json, os, re, subprocess, itertools
from .. import core, build_repo

ID = "C23"
LEVEL = "proof"
RULE = ("cases = glob (pattern, name) pairs over {a,b,*,?,/,A,.} (exhaustive up to a small length + names derived from the pattern by "
        "instantiation and one-character edits); (suppression, finding) pairs derived from the finding with one near-miss edit "
        "(line+-1, block boundaries, id/symbol globs, file patterns, hash, macro); suppression-list x finding sequences; suppression "
        "lines / comments / files from the documented grammar plus a malformed stream; gate runs (suppression lists x finding "
        "sequences x settings). non-trivial = the pattern/suppression has a wildcard or a location restriction and the case is not "
        "rejected at parse time")
EXPLANATION = ("Lean (all unbounded, for every file matcher): matchglob's explicit-stack loop terminates and decides exactly the documented glob "
               "language (glob_eq_spec); Suppression::isSuppressed = Matched iff the manual's rules hold (for findings with an id: the manual alone, "
               "isSuppressed_matched_iff_documented); one CppCheckLogger reports exactly the findings that pass by these rules "
               "(reported_iff_unsuppressed / reported_texts / reported_sound), --exitcode-suppressions never hide; a parallel run = worker logger "
               "without global suppressions followed by Executor::hasToLog reports exactly the findings no entry of the whole list matches and "
               "equals the single-job run (reported_parallel_iff / _eq_single; safety mode excluded with a proved counterexample = C15's known "
               "finding); text and XML suppression files written from suppressions are read back as these suppressions (parse_print, "
               "parseFile_print, parseXml_print). Three rules on the specification side come from the code, not the manual (docs/C23.md): "
               "workers apply only file-bound entries, unmatchedSuppression is only hidden by its literal id, a finding without id is never "
               "hidden by an id pattern. Tie: every modelled function incl. both gates in-process against the working tree, CLI for inline "
               "comments incl. -rp/-j2. PathMatch::match / simplifyPath are parameters (C31). Outside the model: tinyxml2, simplecpp comment "
               "tokenisation and the placement of inline comments by addInlineSuppressions (CLI cases only), the interleaving of several workers "
               "(C15), renderings containing {remark}, plist output, polyspace.")
THEOREMS = [
    "Cppcheck.Glob.stack_eq_dfs", "Cppcheck.Glob.glob_eq_spec", "Cppcheck.Glob.glob_eq_spec_fixed", "Cppcheck.Glob.glob_sound_pre",
    "Cppcheck.Glob.glob_eq_spec_partial", "Cppcheck.Glob.glob_starstar_counterexample",
    "Cppcheck.Suppress.isSuppressed_matched_iff_spec", "Cppcheck.Suppress.isSuppressed_matched_iff_documented",
    "Cppcheck.Suppress.active_eq_considered", "Cppcheck.Suppress.supprExact_eq",
    "Cppcheck.Suppress.reported_parallel_iff", "Cppcheck.Suppress.reported_parallel_eq_single",
    "Cppcheck.Suppress.parallel_safety_counterexample",
    "Cppcheck.Suppress.isSuppressed_starstar_regression",
    "Cppcheck.Suppress.listIsSuppressed_iff", "Cppcheck.Suppress.reported_iff_unsuppressed_gen",
    "Cppcheck.Suppress.reported_iff_unsuppressed", "Cppcheck.Suppress.reported_iff_unsuppressed_nosafety",
    "Cppcheck.Suppress.reported_sound", "Cppcheck.Suppress.reported_duptext_counterexample",
    "Cppcheck.Suppress.reported_texts_fixed", "Cppcheck.Suppress.reported_texts",
    "Cppcheck.Suppress.nofail_does_not_hide", "Cppcheck.Suppress.line_semantics",
    "Cppcheck.Suppress.addSuppression_exists_harmless", "Cppcheck.Suppress.addSuppression_block_dropped_counterexample",
    "Cppcheck.SuppressParse.parse_print", "Cppcheck.SuppressParse.parseFile_print", "Cppcheck.SuppressParse.parseXml_print", "Cppcheck.SuppressParse.strToInt_intToDec",
]
MODULES = ["Cppcheck.Props.C23"]

# All three defects this check found are repaired in /repo (1cf3800 matchglob, 9e24c55 duplicate filter, f569efa isSameParameters; known_findings: kind
# "fixed"): their input classes are ordinary violations again, no classifier key absorbs them.

hx = core.hx


def unhx(s):
    return core.unhx(s).decode("latin-1")


# ---------------------------------------------------------------------------------------------------------------
# running the two sides

def run_pair(ctx, exe, drv, hops, build_dop, name, res, nontrivial=None, strip=True):
    """hops: harness op lines.  build_dop(op, harness_out) -> driver op line (tables appended).  Returns
    (impl_lines, model_lines) after the simplifyPath question/answer rounds."""
    rc, hout, herr = core.run_lines([exe, ctx.tmp], [], hops, timeout=900)
    if len(hout) != len(hops):
        raise core.CheckBroken("C23 harness produced %d lines for %d ops (rc=%s): %s" % (len(hout), len(hops), rc, herr[-800:]))
    dops = [build_dop(o, h) for o, h in zip(hops, hout)]
    mout = drive(ctx, exe, drv, dops)
    return hout, mout


MISS = "014d"


def drive(ctx, exe, drv, dops):
    """run the driver; answer its simplifyPath questions (marker 01 'M' + raw string) with the real function and re-run"""
    dops = list(dops)
    rc, mout, merr = core.run_lines(drv, [], dops, timeout=900)
    if len(mout) != len(dops):
        raise core.CheckBroken("C23 driver produced %d lines for %d ops: %s" % (len(mout), len(dops), merr[-800:]))
    for _round in range(6):
        need = {}
        for i, o in enumerate(mout):
            qs = set(w[len(MISS):] or "-" for w in re.split(r"[ =,:]", o.split(" | ")[0]) if w.startswith(MISS))
            if qs:
                need[i] = qs
        if not need:
            break
        allq = sorted(set(q for qs in need.values() for q in qs))
        rc, ans, err = core.run_lines([exe, ctx.tmp], [], ["sp " + q for q in allq])
        table = dict(zip(allq, ans))
        idx = sorted(need)
        redo = []
        for i in idx:
            add = ",".join("%s=%s" % (q, table[q]) for q in sorted(need[i]))
            m = re.search(r" sp=(\S+)", dops[i])
            if m:
                dops[i] = dops[i].replace(" sp=" + m.group(1), " sp=" + m.group(1) + "," + add)
            else:
                dops[i] += " sp=" + add
            redo.append(dops[i])
        rc, out2, err = core.run_lines(drv, [], redo, timeout=900)
        for i, o in zip(idx, out2):
            mout[i] = o
    return mout


def head(line):
    return line.split(" | ")[0].rstrip()


def tail_fields(line):
    t = line.split(" | ", 1)
    d = {}
    if len(t) > 1:
        for w in t[1].split():
            if "=" in w:
                k, v = w.split("=", 1)
                d[k] = v
    return d


def tables_of(hline):
    t = hline.split(" |", 1)
    if len(t) < 2:
        return ""
    return "".join(" " + w for w in t[1].split() if w.startswith("sp=") or w.startswith("fm="))


def correspond(ctx, res, name, ops, impl, model, nontriv):
    hi = [head(x) for x in impl]
    hm = [head(x) for x in model]
    return core.correspond(ctx, res, name, ops, hi, hm, nontrivial=nontriv)


# ---------------------------------------------------------------------------------------------------------------
# generators

def gen_name_from_pattern(rng, p, alpha):
    out = ""
    for c in p:
        if c == "*":
            out += "".join(rng.choice(alpha) for _ in range(rng.choice([0, 0, 1, 1, 2, 3])))
        elif c == "?":
            out += rng.choice(alpha)
        else:
            out += c
    return out


def edit(rng, s, alpha):
    if not s or rng.random() < 0.3:
        k = rng.randrange(len(s) + 1)
        return s[:k] + rng.choice(alpha) + s[k:]
    k = rng.randrange(len(s))
    if rng.random() < 0.5:
        return s[:k] + s[k + 1:]
    return s[:k] + rng.choice(alpha) + s[k + 1:]


def glob_cases(rng, thorough):
    cases = []
    # exhaustive part
    pa, na = "ab*?", "ab*"
    pl, nl = (5, 5) if thorough else (3, 4)
    pats = [""] + ["".join(t) for k in range(1, pl + 1) for t in itertools.product(pa, repeat=k)]
    names = [""] + ["".join(t) for k in range(1, nl + 1) for t in itertools.product(na, repeat=k)]
    if thorough:
        names = [n for n in names if n.count("*") <= 1]
    for p in pats:
        for n in names:
            cases.append((0, p, n))
    # derived part
    alpha = "abAB/.x?*"
    for _ in range(6000 if thorough else 1500):
        k = rng.choice([1, 2, 3, 4, 5, 6, 8])
        p = "".join(rng.choice("abAx/.**??" if rng.random() < 0.8 else alpha) for _ in range(k))
        n = gen_name_from_pattern(rng, p, "abAx/.")
        for _e in range(rng.choice([0, 0, 1, 1, 2])):
            n = edit(rng, n, "abAx/.*?")
        ci = 1 if rng.random() < 0.15 else 0
        if rng.random() < 0.03:
            k2 = rng.randrange(len(n) + 1)
            n = n[:k2] + "\x00" + n[k2:]
        if rng.random() < 0.02:
            k2 = rng.randrange(len(p) + 1)
            p = p[:k2] + "\x00" + p[k2:]
        cases.append((ci, p, n))
    return cases


IDS = ["nullPointer", "uninitvar", "arrayIndexOutOfBounds", "memleak", "a-x", "unmatchedSuppression", "misra-c2012-10.4", "zerodiv", ""]
FILES = ["a.c", "src/a.c", "src/b.h", "./a.c", "src/../a.c", "/abs/src/a.c", "b.c", "lib/x.cpp", "inc/b.h", "src/lib/x.c", "lib/x.c", ""]
SYMS = ["", "x", "arr", "x\ny", "arr\n", "ptr\nx\n", "\nq"]
MACROS = [[], ["M"], ["M", "N"], ["N"]]


def id_pattern(rng, fid, exotic=True):
    r = rng.random()
    if not fid:
        return rng.choice(["*", "x", "null*"])
    if r < 0.3:
        return fid
    if r < 0.42:
        return "*"
    if r < 0.54:
        k = rng.randrange(1, len(fid) + 1)
        return fid[:k] + "*"
    if r < 0.64:
        k = rng.randrange(len(fid))
        return "*" + fid[k:]
    if r < 0.72:
        a = rng.randrange(len(fid)); b = rng.randrange(a, len(fid) + 1)
        return fid[:a] + "*" + fid[b:]
    if r < 0.78:
        k = rng.randrange(len(fid))
        return fid[:k] + "?" + fid[k + 1:]
    if r < 0.86 and exotic:
        a = rng.randrange(len(fid)); b = rng.randrange(a, len(fid) + 1)
        return fid[:a] + rng.choice(["**", "*?", "**"]) + fid[b:]
    if r < 0.93:
        return edit(rng, fid, "abxP")
    return rng.choice(IDS) or "x"


def respell(rng, ffile):
    """a different spelling of the same file, or a proper path suffix of it (what an inline suppression is filed under when
    several base paths are stripped): PathMatch bridges both"""
    parts = [x for x in ffile.split("/") if x not in ("", ".")]
    cands = []
    if len(parts) > 1:
        cands += ["/".join(parts[k:]) for k in range(1, len(parts))]
        cands += [parts[0] + "/./" + "/".join(parts[1:]), parts[0] + "/../" + "/".join(parts)]
    if ffile and not ffile.startswith("/"):
        cands += ["./" + ffile, "x/../" + ffile]
    if ffile.startswith("./"):
        cands += [ffile[2:]]
    return rng.choice(cands) if cands else ffile


def file_pattern(rng, ffile):
    r = rng.random()
    base = ffile.split("/")[-1]
    if ffile and rng.random() < 0.25:
        return respell(rng, ffile)
    if r < 0.3:
        return ffile
    if r < 0.45:
        return ""
    if r < 0.55:
        return base
    if r < 0.63:
        return "*.c"
    if r < 0.70:
        return "src/*"
    if r < 0.76:
        return "src/"
    if r < 0.82:
        return "**/" + base if base else "**"
    if r < 0.88:
        return rng.choice(FILES)
    if r < 0.94:
        return edit(rng, ffile, "abc./")
    return "s?c/" + base


def sup_fields(s):
    return "%s %s %d %d %d %d %s %s %d %d %d" % (hx(s["id"]), hx(s["file"]), s["line"], s["lb"], s["le"], s["type"], hx(s["sym"]), hx(s["mac"]),
                                              s["hash"], 1 if s["tanl"] else 0, 1 if s.get("inl") else 0)


def msg_fields(m):
    macs = ",".join(hx(x) for x in m["macros"]) if m["macros"] else "_"
    return "%d %s %s %d %s %s" % (m["hash"], hx(m["id"]), hx(m["file"]), m["line"], hx(m["syms"]), macs)


def gen_msg(rng):
    return dict(hash=rng.choice([0, 0, 0, 5, 9]), id=rng.choice(IDS[:-1]) if rng.random() < 0.95 else "", file=rng.choice(FILES),
                line=rng.choice([1, 2, 3, 5, 8, 9, 10, 11, 12, 20, -1, 0]), syms=rng.choice(SYMS), macros=rng.choice(MACROS))


def gen_sup_for(rng, m, exotic=True):
    """a suppression aimed at finding m, usually with one near-miss edit"""
    ty = rng.choice([0, 0, 0, 0, 1, 2, 2, 5, 5, 3, 4] if exotic else [0, 0, 0, 0, 1, 2, 2, 5])
    s = dict(id=id_pattern(rng, m["id"], exotic), file=file_pattern(rng, m["file"]), line=-1, lb=-1, le=-1, type=ty, sym="", mac="", hash=0, tanl=False,
             inl=rng.random() < 0.4)      # isInline must not change which matcher is used for the file name
    L = m["line"]
    if ty == 0:
        s["line"] = rng.choice([L, L, L - 1, L + 1, -1, -1, L - 2])
        s["tanl"] = rng.random() < 0.3
    elif ty == 2:
        a = L + rng.choice([-3, -1, 0, 0, 1]); b = L + rng.choice([-1, 0, 0, 1, 3])
        s["lb"], s["le"], s["line"] = a, b, a
    elif ty == 5:
        s["mac"] = rng.choice(["M", "N", "K", ""])
        s["line"] = rng.choice([L, 1, 30])
    else:
        s["line"] = rng.choice([L, 1, -1])
    r = rng.random()
    syms = [x for x in m["syms"].split("\n")]
    if r < 0.2 and syms:
        s["sym"] = rng.choice(syms)
    elif r < 0.3:
        s["sym"] = rng.choice(["x", "a*", "*", "?", "arr", "p*r", "x*?", "**"])
    elif r < 0.35 and syms and syms[0]:
        s["sym"] = syms[0][0] + "*"
    r = rng.random()
    if r < 0.1:
        s["hash"] = m["hash"]
    elif r < 0.17:
        s["hash"] = rng.choice([5, 7, 9])
    return s


# ---- suppression lines ------------------------------------------------------------------------------------------
NUMS = ["1", "12", "0", "-1", "-3", "+5", "05", " 5", "5 ", "5x", "x", "", "2147483647", "2147483648", "-2147483648", "-2147483649",
        "9223372036854775808", "99999999999999999999", "-9223372036854775809", "+", "-", "1.5", "0x10", "\t7"]
LFILES = ["a.c", "src/a.c", "./a.c", "src/../a.c", "C:/x/a.c", "Makefile", "dir.d/Makefile", "a.c ", "", "x.y.z", "dir.d/file", "a//b.c", "a.c#1", "**/a.c", "*.c"]


def gen_line(rng):
    r = rng.random()
    eid = rng.choice(["memleak", "null*", "*", "a-b", "", "id with space", "x:y"[:1], "uninitvar"])
    line = eid
    if r < 0.85:
        f = rng.choice(LFILES)
        line += ":" + f
        if rng.random() < 0.6:
            line += ":" + rng.choice(NUMS)
    if rng.random() < 0.25:
        line += rng.choice([" # c", " // c", "#", "//", "\t\t# x", "  "])
    if rng.random() < 0.25:
        line += "\n" + rng.choice(["symbol=x", "symbol=", "symbol=a*b", "polyspace=1", "junk", "symbol=x\npolyspace=1", "", "polyspace=1\nsymbol=q#z"])
    if rng.random() < 0.05:
        line = edit(rng, line, ":#/\n .")
    return line


def gen_printable(rng):
    """fields for toString round trips: mostly printable, sometimes not"""
    eid = rng.choice(["memleak", "null*", "*", "a-b", "", "x y", "a:b", "a#b", "a/", "unin//it"] if rng.random() < 0.3 else ["memleak", "null*", "*", "a-b", "uninitvar"])
    f = rng.choice(["a.c", "src/a.c", "./a.c", "src/../a.c", "C:/x/a.c", "C:/x/Makefile", "Makefile", "dir.d/Makefile", "", "x:y", "a//b.c", "/abs/a.c", "a.c\nb", "*.c"])
    ln = rng.choice([-1, -1, 0, 1, 12, -5, 2147483647, -2147483648])
    sym = rng.choice(["", "", "x", "a*b", "s y", "a#b", "x\ny", "//"])
    poly = rng.random() < 0.15
    return (eid, f, ln, sym, poly)


KW = ["cppcheck-suppress", "cppcheck-suppress-begin", "cppcheck-suppress-end", "cppcheck-suppress-file", "cppcheck-suppress-macro",
      "cppcheck-suppres", "cppcheck-suppress-foo", "CPPCHECK-SUPPRESS"]


def gen_comment(rng):
    r = rng.random()
    if r < 0.06:
        return rng.choice(["", "/", "//", "/*", ";;", ";x", "/;", "/**/", "*/", "a"])
    open_, close = ("//", "") if rng.random() < 0.6 else ("/*", "*/")
    sp = rng.choice([" ", " ", "", "  ", "\t"])
    kw = rng.choice(KW[:5] if rng.random() < 0.85 else KW)
    c = open_ + sp + kw
    if rng.random() < 0.9:
        c += rng.choice([" ", " ", "  ", "\t"]) + rng.choice(["memleak", "nullPointer", "a*", "[a,b]", "id", "*"])
    for _ in range(rng.choice([0, 0, 0, 1, 1, 2])):
        c += " " + rng.choice(["symbolName=x", "symbolName=", "symbolName=a*", "foo", "--", "+", ";", "#", "symbolName", "bar=1", "// why", "; why", ";why", "//why", "caf\xe9"])
    if rng.random() < 0.2:
        c += rng.choice([" ; extra comment ", " // extra \xe9\xe8 ok", ";", " //", ";  \t x \t "])
    return c + (" " if close and rng.random() < 0.5 else "") + close


def gen_multi(rng):
    r = rng.random()
    if r < 0.08:
        return rng.choice(["// cppcheck-suppress[", "// cppcheck-suppress]", "// cppcheck-suppress [a", "[]", "[", "x]y[", "// cppcheck-suppress[]"])
    items = []
    for _ in range(rng.choice([1, 1, 2, 2, 3, 4])):
        it = rng.choice(["a", "memleak", "b*", " c ", "", " ", "\t", "x y", "id symbolName=s", "id symbolName=s symbolName=t", "id + junk", "id junk", "id ;", "symbolName=q"])
        items.append(it)
    c = "// cppcheck-suppress" + rng.choice(["", " ", "-begin ", "-file"]) + "[" + ",".join(items) + "]"
    if rng.random() < 0.3:
        c += rng.choice([" trailing", "]", " [x]", ", y"])
    return c


def gen_filedata(rng):
    lines = []
    for _ in range(rng.choice([1, 2, 3, 4, 6])):
        r = rng.random()
        if r < 0.15:
            lines.append(rng.choice(["", "  ", "# comment", "// comment", "   # c", "\t// c", "/ not comment", "/"]))
        elif r < 0.9:
            eid = rng.choice(["memleak", "null*", "*", "a-b", "uninit**var", "a***b", "1abc", "a b", "caf\xe9", "x_y.z", "", "a?b", "unmatchedSuppression"])
            l = eid
            if rng.random() < 0.7:
                l += ":" + rng.choice(["a.c", "./a.c", "src/../a.c", "src/*.c", "s***/a.c", "a*?.c", "src/a.c"])
                if rng.random() < 0.5:
                    l += ":" + rng.choice(["1", "12", "x", "05"])
            if rng.random() < 0.15:
                l += rng.choice([" # c", "// c"])
            lines.append(l)
        else:
            lines.append(lines[-1] if lines else "memleak")
    sep = rng.choice(["\n", "\n", "\r\n", "\r"])
    d = sep.join(lines)
    if rng.random() < 0.5:
        d += sep
    return d


def gen_xml(rng):
    els = []
    for _ in range(rng.choice([1, 1, 2, 3])):
        en = "suppress" if rng.random() < 0.93 else rng.choice(["suppres", "Suppress", "x"])
        fs = []
        for _ in range(rng.choice([1, 2, 2, 3, 4])):
            nm = rng.choice(["id", "id", "fileName", "lineNumber", "symbolName", "hash", "foo"] if rng.random() < 0.9 else ["Id", "hash", "line"])
            if nm == "id":
                tx = rng.choice(["memleak", "null*", "a**b", "", "1x", "a b", "unmatchedSuppression"])
            elif nm == "fileName":
                tx = rng.choice(["a.c", "./a.c", "src/../a.c", "*.c", "", "a***"])
            elif nm == "lineNumber":
                tx = rng.choice(["1", "12", "", "x", "05", "-1", "99999999999"])
            elif nm == "hash":
                tx = rng.choice(["1", "77", "", "x", "-1", "18446744073709551615", "18446744073709551616", "+3", "03"])
            else:
                tx = rng.choice(["x", "a*", "", "q r"])
            fs.append((nm, tx))
        els.append((en, fs))
    return els


# ---- gate ----------------------------------------------------------------------------------------------------------
GIDS = [("a", "x"), ("a", "y"), ("misra", "c2012-10.4"), ("premium", "internalError"), ("b", "logChecker"), ("a", "nullPointer")]
GFILES = ["a.c", "src/a.c", "./a.c", "b.h", "src/lib/x.c"]


def gen_gate(rng, exotic=True):
    k = rng.choice([1, 2, 3, 3, 4, 5])
    fs = []
    for _ in range(k):
        addon, eid = rng.choice(GIDS)
        sev = rng.choice(["error", "error", "warning", "style", "none", "information"]) if eid != "logChecker" else rng.choice(["none", "error"])
        hasloc = rng.random() < 0.9
        sym = rng.choice(["", "", "x", "arr"])
        f = dict(sev=sev, addon=addon, eid=eid, hasloc=hasloc, file=rng.choice(GFILES) if hasloc else "", line=rng.choice([3, 3, 4, 5, 9]) if hasloc else 0,
                 msg=("$symbol:%s\n" % sym if sym else "") + "msg $symbol" if sym else "msg", hash=rng.choice([0, 0, 7]))
        if fs and rng.random() < 0.2:
            f = dict(rng.choice(fs))
        fs.append(f)
    def mk(n):
        out = []
        for _ in range(n):
            f = rng.choice(fs)
            m = dict(hash=f["hash"], id=f["addon"] + "-" + f["eid"], file=f["file"], line=f["line"] if f["hasloc"] else -1, syms="", macros=[])
            s = gen_sup_for(rng, m, exotic)
            if s["type"] in (3, 4, 5) and rng.random() < 0.7:
                s["type"] = 0
            out.append(s)
        return out
    nomsg = mk(rng.choice([0, 1, 1, 2, 3]))
    nofail = mk(rng.choice([0, 0, 1, 2]))
    cfg = dict(safety=rng.random() < 0.25, dup=rng.random() < 0.2, ug=rng.random() < 0.8, tmpl=rng.choice([0, 0, 0, 1, 2, 4, 3] if exotic else [0, 0, 0, 4]))
    return dict(cfg=cfg, nomsg=nomsg, nofail=nofail, fs=fs)


def gate_hop(g):
    c = g["cfg"]
    parts = ["gt", "1" if c["safety"] else "0", "1" if c["dup"] else "0", "1" if c["ug"] else "0", str(c["tmpl"]), str(len(g["nomsg"]))]
    parts += [sup_fields(s) for s in g["nomsg"]]
    parts += [str(len(g["nofail"]))] + [sup_fields(s) for s in g["nofail"]]
    parts += [str(len(g["fs"]))]
    for f in g["fs"]:
        parts += [hx(f["sev"]), hx(f["addon"]), hx(f["eid"]), "1" if f["hasloc"] else "0", hx(f["file"]), str(f["line"]), hx(f["msg"]), str(f["hash"])]
    return " ".join(parts)


def gate_dop(g, hline):
    """driver op from the harness' derived records (text, id, symbol names as the real ErrorMessage has them)"""
    c = g["cfg"]
    t = hline.split(" | D", 1)[1].split()
    derived = [w for w in t if not (w.startswith("sp=") or w.startswith("fm="))]
    keep = []
    for f, d in zip(g["fs"], derived):
        skip, internal, librep, crit, text, fid, syms, gfile = d.split(":")
        if skip == "1":
            continue
        keep.append("%s %s %s %s %s %s %d - %s %d %s" % (internal, librep, crit, text, "1" if f["hasloc"] else "0", gfile, f["line"], fid, f["hash"], syms))
    parts = ["gt", "1" if c["safety"] else "0", "1" if c["dup"] else "0", "1" if c["ug"] else "0", str(len(g["nomsg"]))]
    parts += [sup_fields(s) for s in g["nomsg"]]
    parts += [str(len(g["nofail"]))] + [sup_fields(s) for s in g["nofail"]]
    parts += [str(len(keep))] + keep
    return " ".join(parts) + tables_of(hline), [i for i, d in enumerate(derived) if d.split(":")[0] != "1"]


def gate_impl_canon(hline, kept):
    """renumber the finding indices of the harness output to the kept (non-skipped) findings"""
    h = head(hline)
    m = re.match(r"^A (\S+) O (\S+) X (\d+) N (\S+) M (\S+) E (\S+) N2 (\S+)$", h)
    if not m:
        return h
    outs = m.group(2)
    if outs != "_":
        ren = []
        for o in outs.split(","):
            i, a, r = o.split(":")
            i = int(i)
            ren.append("%d:%s:%s" % (kept.index(i) if i in kept else -1, a, r))
        outs = ",".join(ren)
    return "A %s O %s X %s N %s M %s E %s N2 %s" % (m.group(1), outs, m.group(3), m.group(4), m.group(5), m.group(6), m.group(7))


# ---------------------------------------------------------------------------------------------------------------

def load_corpus():
    p = os.path.join(core.VERIF, "corpus", "C23", "cases.json")
    return json.load(open(p)) if os.path.exists(p) else {}


MAX_PER_KIND = 8


def cap_violations(res):
    """keep the first few failing inputs of each kind: one replay file per input is written, hundreds help nobody"""
    seen, kept = {}, []
    for v in res.violations:
        k = (v["replay"].get("kind"), v.get("key"))
        seen[k] = seen.get(k, 0) + 1
        if seen[k] <= MAX_PER_KIND:
            kept.append(v)
    for k, n in seen.items():
        if n > MAX_PER_KIND:
            res.count("violations-not-listed:%s" % k[0], n - MAX_PER_KIND)
    res.violations[:] = kept


def run(ctx, res):
    res.assumptions += [
        "PathMatch::match and Path::simplifyPath are parameters of every theorem; the model is run with the answers of the real functions (C31 owns them)",
        "addInlineSuppressions (placement of inline comments, begin/end pairing) is not modelled: inline forms are judged through the cppcheck binary against the documented rule of the planted form",
        "a parallel run is modelled as ONE worker logger followed by Executor::hasToLog; the order in which several workers deliver is C15's property",
        "three rules of the specification come from the code, not the manual: workers apply only file-bound entries; unmatchedSuppression is hidden only by its literal id; a finding without id is never hidden by an id pattern",
        "Finding.text / libReports / critical / internal are inputs of the gate model (template rendering = C26, library configuration = C30)",
    ]
    try:
        run_all(ctx, res)
    finally:
        cap_violations(res)


def run_all(ctx, res):
    rng = ctx.rng
    thorough = ctx.tier == "thorough"
    import time
    t0 = time.time()
    core.prove(ctx, res, MODULES, THEOREMS)
    drv = ctx.driver("drv_c23")
    exe = ctx.harness("c23", with_cli=True)
    if os.environ.get("C23_CPPCHECK"):
        res.oblig("machinery:cppcheck-override", False, "machinery", "C23_CPPCHECK is set: this run does not judge the working tree")
    if os.environ.get("C23_HARNESS"):
        # mutation experiments only (docs/C23.md): a harness linked against a hand-mutated copy of a lib source
        exe = os.environ["C23_HARNESS"]
        res.oblig("machinery:harness-override", False, "machinery", "C23_HARNESS is set: this run does not judge the working tree")
    res.extra["prove_and_build_s"] = round(time.time() - t0, 1)
    t0 = time.time()
    corpus = load_corpus()
    explored_f8 = []

    # ---- C-glob ------------------------------------------------------------------------------------------------
    cases = [(c["ci"], c["pattern"], c["name"]) for c in corpus.get("glob", [])] + glob_cases(rng, thorough)
    ops = ["g %d %s %s" % (ci, hx(p), hx(n)) for ci, p, n in cases]
    himpl, hmodel = run_pair(ctx, exe, drv, ops, lambda o, h: o, "glob", res)
    correspond(ctx, res, "matchglob", ops, himpl, hmodel,
               lambda op, out: any(w in unhx(op.split()[2]) for w in "*?") and op.split()[3] != "-")
    selfcheck_bad = None
    for (ci, p, n), hi, mo in zip(cases, himpl, hmodel):
        t = tail_fields(mo)
        hf = head(hi).split()
        real = hf[1]
        res.count("glob:" + ("match" if real == "1" else "nomatch"))
        # the scratch copy inside the harness (used for the mutation experiments and as the model of the other variant)
        # must be the function in lib/utils.cpp
        if hf[3 if t.get("sw") == "1" else 5] != real and not os.environ.get("C23_MUTANT") and selfcheck_bad is None:
            selfcheck_bad = (p, n)
        if ci == 0 and real != t.get("spec"):
            key = None
            res.violation("matchglob(%r, %r) = %s but the documented glob language (`*` any string, `?` any character) says %s" % (p, n, real, t.get("spec")),
                          dict(kind="glob", ci=ci, pattern=p, name=n, real=real, documented=t.get("spec")), concrete=True, key=key)
    res.oblig("harness-selfcheck:matchglob-copy", selfcheck_bad is None, "correspondence",
              "" if selfcheck_bad is None else "scratch copy of matchglob in harness/c23.cpp differs from lib/utils.cpp on %r %r (the code changed: update the copy and the model)" % selfcheck_bad)
    # tightness of the pre-repair hypothesis, measured on the exhaustive part: every non-starOk pattern has a failing name
    bad_pats, tight = set(), set()
    for (ci, p, n), mo in zip(cases, hmodel):
        t = tail_fields(mo)
        if ci == 0 and t.get("ok") == "0" and len(p) <= 3:
            bad_pats.add(p)
            if t.get("pdfs") != t.get("spec"):
                tight.add(p)
    res.extra["pre_repair_hypothesis_tight_on"] = "%d of %d non-starOk patterns of length <= 3 have an explored name on which the pre-repair algorithm fails" % (len(tight), len(bad_pats))
    vops = ["vg " + hx(p) for p in sorted(set(p for _, p, _ in cases))[:4000]]
    vi, vm = run_pair(ctx, exe, drv, vops, lambda o, h: o, "validglob", res)
    correspond(ctx, res, "isValidGlobPattern", vops, vi, vm, lambda op, out: "2a" in op)

    # ---- C-is ---------------------------------------------------------------------------------------------------
    pairs = []
    for c in corpus.get("is", []):
        pairs.append((c["s"], c["m"]))
    for _ in range(6000 if thorough else 1500):
        m = gen_msg(rng)
        pairs.append((gen_sup_for(rng, m), m))
    ops = ["is %s %s" % (sup_fields(s), msg_fields(m)) for s, m in pairs]
    himpl, hmodel = run_pair(ctx, exe, drv, ops, lambda o, h: o + tables_of(h), "is", res)
    correspond(ctx, res, "Suppression::isSuppressed", ops, himpl, hmodel, lambda op, out: True)
    for (s, m), hi, mo in zip(pairs, himpl, hmodel):
        t = tail_fields(mo)
        r = head(hi)
        res.count("is:" + r)
        res.count("type:%d" % s["type"])
        if s.get("inl") and s["file"] and s["file"] != m["file"] and ("fm=" in hi) and hi.rstrip().endswith("=1"):
            res.count("is:inline-respelled-file-pathmatch-true")
        if s["type"] in (3, 4):
            res.count("outside-premise:unpaired-begin-end")
            continue
        if (r == "Matched") != (t.get("spec") == "1"):
            key = None
            res.violation("Suppression::isSuppressed = %s but the documented rules say %s: suppression %s finding %s" % (r, "match" if t.get("spec") == "1" else "no match", s, m),
                          dict(kind="is", s=s, m=m, real=r, documented=t.get("spec")), concrete=True, key=key)

    # ---- C-list -------------------------------------------------------------------------------------------------
    seqs = []
    for _ in range(1500 if thorough else 400):
        ms = [gen_msg(rng) for _ in range(rng.choice([1, 2, 3, 4]))]
        ss = []
        for _ in range(rng.choice([1, 2, 3, 4, 5])):
            s = gen_sup_for(rng, rng.choice(ms))
            if rng.random() < 0.08:
                s["id"] = rng.choice(["", "1abc", "a b", "a***b", "caf\xe9", "a?b"])
            if rng.random() < 0.05:
                s["file"] = rng.choice(["a***", "s*?c", "x/**/y"])
            if ss and rng.random() < 0.1:
                s = dict(rng.choice(ss))
            ss.append(s)
        modes = [("x" if rng.random() < 0.25 else "n") for _ in ms]
        seqs.append((rng.random() < 0.7, ss, ms, modes))
    ops = []
    for g, ss, ms, modes in seqs:
        ops.append("ls %d %d %s %d %s" % (1 if g else 0, len(ss), " ".join(sup_fields(s) for s in ss), len(ms), " ".join(md + " " + msg_fields(m) for md, m in zip(modes, ms))))
    himpl, hmodel = run_pair(ctx, exe, drv, ops, lambda o, h: o + tables_of(h), "ls", res)
    correspond(ctx, res, "SuppressionList::isSuppressed+flags", ops, himpl, hmodel, lambda op, out: True)
    for (g, ss, ms, modes), hi, mo in zip(seqs, himpl, hmodel):
        t = tail_fields(mo)
        mm = re.match(r"^A (\S+) R (\S+) F (\S+)$", head(hi))
        if not mm or "spec" not in t:
            continue
        for a in mm.group(1).split(","):
            res.count("add:" + a)
        added = []
        for s, a in zip(ss, mm.group(1).split(",")):
            if a == "ok":
                added.append(s)
            elif a == "exists":
                same = lambda x, y: all(x[k] == y[k] for k in ("id", "file", "line", "sym", "hash", "tanl"))
                full = lambda x, y: same(x, y) and all(x[k] == y[k] for k in ("type", "lb", "le", "mac"))
                if not any(full(s, t) for t in added) and any(same(s, t) for t in added):
                    res.violation("addSuppression rejects %s as 'already exists' although the list only holds %s, which matches different findings" %
                                  (s, [t for t in added if same(s, t)][0]),
                                  dict(kind="ls", global_=g, supprs=ss, msgs=ms, modes=modes, index=-1, real="exists", documented="distinct suppression"),
                                  concrete=True, key=None)
        if any(s["type"] in (3, 4) for s in added):
            res.count("outside-premise:unpaired-begin-end")
            continue
        bits = mm.group(2) if mm.group(2) != "_" else ""
        spec = t["spec"] if t["spec"] != "_" else ""
        for j, (b, sp, md) in enumerate(zip(bits, spec, modes)):
            if md == "n" and b != sp:
                key = None
                res.violation("SuppressionList::isSuppressed = %s but by the documented rules %s entry of the list matches: list %s finding %s" % (b, "an" if sp == "1" else "no", added, ms[j]),
                              dict(kind="ls", global_=g, supprs=ss, msgs=ms, modes=modes, index=j, real=b, documented=sp), concrete=True, key=key)

    # ---- C-parse ------------------------------------------------------------------------------------------------
    lines = [c["line"] for c in corpus.get("lines", [])] + [gen_line(rng) for _ in range(3000 if thorough else 700)]
    ops = ["pl " + hx(l) for l in lines]
    himpl, hmodel = run_pair(ctx, exe, drv, ops, lambda o, h: o, "pl", res)
    correspond(ctx, res, "parseLine", ops, himpl, hmodel, lambda op, out: out.startswith("ok"))
    for hi in himpl:
        res.count("parseLine:" + hi.split()[0])
    nums = NUMS + [str(rng.randrange(-3000000000, 3000000000)) for _ in range(200)] + [edit(rng, rng.choice(NUMS), "0123456789+- x") for _ in range(300)]
    ops = ["si " + hx(n) for n in nums]
    himpl, hmodel = run_pair(ctx, exe, drv, ops, lambda o, h: o, "si", res)
    correspond(ctx, res, "strToInt<int>", ops, himpl, hmodel, lambda op, out: True)
    prs = [tuple(c) for c in corpus.get("print", [])] + [gen_printable(rng) for _ in range(2500 if thorough else 600)]
    ops = ["ts %s %s %d %s %d" % (hx(e), hx(f), ln, hx(sy), 1 if po else 0) for e, f, ln, sy, po in prs]
    himpl, hmodel = run_pair(ctx, exe, drv, ops, lambda o, h: o, "ts", res)
    correspond(ctx, res, "toString+parseLine", ops, himpl, hmodel, lambda op, out: True)
    nprint = 0
    for (e, f, ln, sy, po), hi, mo in zip(prs, himpl, hmodel):
        if tail_fields(mo).get("printable") == "1":
            nprint += 1
            want = "back=ok %s %s %d %s %d" % (hx(e), hx(f), ln, hx(sy), 1 if po else 0)
            if head(hi).split(" ", 1)[1] != want:
                res.violation("parseLine(toString(s)) != s for a printable suppression: id=%r file=%r line=%d symbol=%r: %s" % (e, f, ln, sy, head(hi)),
                              dict(kind="print", fields=[e, f, ln, sy, po], real=head(hi)), concrete=True, key=None)
    res.count("roundtrip:printable", nprint)
    res.count("roundtrip:not-printable", len(prs) - nprint)
    cms = [c["comment"] for c in corpus.get("comments", [])] + [gen_comment(rng) for _ in range(3000 if thorough else 700)]
    ops = ["pc " + hx(c) for c in cms]
    himpl, hmodel = run_pair(ctx, exe, drv, ops, lambda o, h: o, "pc", res)
    correspond(ctx, res, "parseComment", ops, himpl, hmodel, lambda op, out: out.startswith("1"))
    for hi in himpl:
        res.count("parseComment:" + hi.split()[0])
    mcs = [c["comment"] for c in corpus.get("multi", [])] + [gen_multi(rng) for _ in range(2000 if thorough else 500)]
    ops = ["pm " + hx(c) for c in mcs]
    himpl, hmodel = run_pair(ctx, exe, drv, ops, lambda o, h: o, "pm", res)
    correspond(ctx, res, "parseMultiSuppressComment", ops, himpl, hmodel, lambda op, out: out not in ("E", "0"))
    fds = [c["data"] for c in corpus.get("files", [])] + [gen_filedata(rng) for _ in range(1500 if thorough else 400)]
    ops = ["pf " + hx(d) for d in fds]
    himpl, hmodel = run_pair(ctx, exe, drv, ops, lambda o, h: o, "pf", res)
    correspond(ctx, res, "parseFile", ops, himpl, hmodel, lambda op, out: not out.endswith(" 0"))
    for hi in himpl:
        res.count("parseFile:" + hi.split()[0])
    xs = [gen_xml(rng) for _ in range(1000 if thorough else 300)]
    ops = ["px %d %s" % (len(x), " ".join("%s %d %s" % (hx(en), len(fs), " ".join(hx(a) + " " + hx(b) for a, b in fs)) for en, fs in x)) for x in xs]
    himpl, hmodel = run_pair(ctx, exe, drv, ops, lambda o, h: o, "px", res)
    correspond(ctx, res, "parseXmlFile", ops, himpl, hmodel, lambda op, out: out.startswith("ok"))
    for hi in himpl:
        res.count("parseXml:" + hi.split()[0])

    # ---- whole files written from suppressions (theorems parseFile_print / parseXml_print) ---------------------------
    def gen_printed(n):
        out = []
        for _ in range(n):
            e, f, ln, sy, po = gen_printable(rng)
            if rng.random() < 0.7:
                e = rng.choice(["memleak", "null*", "uninitvar", "a-b", "*", "misra-c2012-10.4"])
            if rng.random() < 0.8:
                f = rng.choice(["a.c", "src/a.c", "/abs/a.c", "lib/x.cpp", "", "C:/x/a.c"])
            if rng.random() < 0.85:
                sy = ""
            if not f:
                ln = -1
            out.append((e, f, ln, sy))
            if out and rng.random() < 0.1:
                out.append(out[-1])          # duplicate: rejected as "already exists"
        return out
    for opname, thm in (("pfp", "parseFile_print"), ("pxp", "parseXml_print")):
        sets = [gen_printed(rng.choice([1, 2, 3, 4])) for _ in range(1200 if thorough else 300)]
        ops = ["%s %d %s" % (opname, len(ss), " ".join("%s %s %d %s" % (hx(e), hx(f), ln, hx(sy)) for e, f, ln, sy in ss)) for ss in sets]
        himpl, hmodel = run_pair(ctx, exe, drv, ops, lambda o, h: o + tables_of(h), opname, res)
        nh = 0
        for ss, hi, mo in zip(sets, himpl, hmodel):
            t = tail_fields(mo)
            if t.get("hyp") == "1" and t.get("same") != "1":
                res.oblig("model-selfcheck:%s" % thm, False, "correspondence", "the model parser and the theorem's right-hand side differ on %s" % (ss,))
                break
            if t.get("hyp") == "1":
                nh += 1
                res.case("%s|%s" % (opname, ss), len(ss) > 1, dict(tie=thm, suppressions=str(ss), impl=head(hi)) if nh % 97 == 1 else None)
                if head(hi) != head(mo):
                    res.violation("%s: the file written from %s is read back as [%s], the suppressions themselves give [%s]" % (thm, ss, head(hi), head(mo)),
                                  dict(kind=opname, supprs=[list(x) for x in ss], real=head(hi), documented=head(mo)), concrete=True, key=None)
        res.count("%s:hypothesis-holds" % thm, nh)
        res.count("%s:outside-hypothesis" % thm, len(sets) - nh)
        res.traces_validated += nh

    # ---- C-gate -------------------------------------------------------------------------------------------------
    gs = [c["gate"] for c in corpus.get("gate", [])] + [gen_gate(rng) for _ in range(1500 if thorough else 350)]
    run_gates(ctx, res, exe, drv, gs, "CppCheckLogger::reportErr")

    res.extra["inprocess_ties_s"] = round(time.time() - t0, 1)
    t0 = time.time()
    # ---- CLI: inline suppressions -----------------------------------------------------------------------------------
    cli_cases(ctx, res, drv, corpus, thorough)
    cli_rp_cases(ctx, res, corpus, thorough)
    res.extra["cli_s"] = round(time.time() - t0, 1)

    # ---- violation search when something above is broken but no failing input is known yet ---------------------
    if any(not o["ok"] for o in res.obligations) and not any(v["concrete"] and v.get("key") is None for v in res.violations):
        search(ctx, res, exe, drv)


def run_gates(ctx, res, exe, drv, gs, name):
    hops = [gate_hop(g) for g in gs]
    rc, hout, herr = core.run_lines([exe, ctx.tmp], [], hops, timeout=900)
    if len(hout) != len(hops):
        raise core.CheckBroken("C23 harness (gate) produced %d lines for %d ops (rc=%s): %s" % (len(hout), len(hops), rc, herr[-800:]))
    dops, kepts = [], []
    for g, h in zip(gs, hout):
        if " | D" not in h:
            raise core.CheckBroken("C23 harness gate line: " + h[:300])
        d, kept = gate_dop(g, h)
        dops.append(d); kepts.append(kept)
    mout = drive(ctx, exe, drv, dops)
    impl = [gate_impl_canon(h, k) for h, k in zip(hout, kepts)]
    core.correspond(ctx, res, name, hops, impl, [head(x) for x in mout], nontrivial=lambda op, out: " O _ " not in out or True)
    nviol = 0
    for g, h, mo, kept, im in zip(gs, hout, mout, kepts, impl):
        t = tail_fields(mo)
        m = re.match(r"^A (\S+) O (\S+) X (\d+) N (\S+) M (\S+) E (\S+) N2 (\S+)$", im)
        if not m or "unsup" not in t:
            continue
        adds = m.group(1).split(",") if m.group(1) != "_" else []
        added = [s for s, a in zip(g["nomsg"], adds[:len(g["nomsg"])]) if a == "ok"]
        if any(s["type"] in (3, 4) for s in added):
            res.count("outside-premise:unpaired-begin-end")
            continue
        derived = [w for w in h.split(" | D", 1)[1].split() if not (w.startswith("sp=") or w.startswith("fm="))]
        dk = [derived[i].split(":") for i in kept]
        reported = set()
        if m.group(2) != "_":
            for o in m.group(2).split(","):
                i, a, r = o.split(":")
                if a == "0":
                    reported.add(int(i))
        uns = t["unsup"] if t["unsup"] != "_" else ""
        later = t.get("later", "")
        later = later if later != "_" else ""
        seen = {False: set(), True: set()}      # the two duplicate filters: mErrorList / mSuppressedErrorList
        res.count("gate:findings", len(kept))
        res.count("gate:reported", len(reported))
        for j, d in enumerate(dk):
            skip, internal, librep, crit, text, fid, syms, gfile = d
            unsup = uns[j] == "1"
            # a finding that the executor will drop afterwards (logger without global suppressions) shares the filter of the suppressed ones
            use_sup = (not unsup) or (not g["cfg"]["ug"] and j < len(later) and later[j] == "1")
            if internal == "1":
                want = True
            elif librep != "1":
                want = False
            elif not unsup:
                want = False
                if g["cfg"]["safety"] and crit == "1":
                    want = None        # safety mode forwards critical errors although suppressed (theorem clause; judged by the correspondence only)
            elif text == "-":
                want = False
            else:
                want = g["cfg"]["dup"] or text not in seen[use_sup]
            # the index reported by both sides is the first finding equal to this one: judge only first occurrences
            mk = lambda x: (tuple(dk[x]), g["fs"][kept[x]]["hasloc"], g["fs"][kept[x]]["line"], g["fs"][kept[x]]["hash"])   # the fields the gate reads
            first = [x for x in range(len(dk)) if mk(x) == mk(j)][0]
            if first == j and want is not None and (j in reported) != want:
                key = None
                nviol += 1
                res.violation("report gate: finding #%d %s is %s although %s by the documented rules (settings %s, nomsg %s)" %
                              (j, g["fs"][kept[j]], "reported" if j in reported else "not reported", "no active suppression matches it" if want else "it is suppressed / filtered", g["cfg"], added),
                              dict(kind="gate", gate=g, index=j, real_reported=(j in reported), documented=want), concrete=True, key=key)
            if internal != "1" and librep == "1" and text != "-":
                seen[use_sup].add(text)
        # P_impl for the parallel composition (worker logger without global suppressions, then Executor::hasToLog):
        # what survives both gates = internal messages + reportable findings that NO entry of the whole list matches
        # (safety mode excluded: C15's known finding safety-global-suppressed-critical; macro entries must be file-bound)
        if not g["cfg"]["ug"] and not g["cfg"]["safety"] and all(s["type"] != 5 or (s["file"] and "*" not in s["file"] and "?" not in s["file"]) for s in added):
            ebits = m.group(6) if m.group(6) != "_" else ""
            outs_l = m.group(2).split(",") if m.group(2) != "_" else []
            survived = set()
            for o, eb in zip(outs_l, ebits):
                i, a, r = o.split(":")
                if a == "0" and eb == "1":
                    survived.add(int(i))
            seen_par = set()
            res.count("gate:parallel-composition-judged")
            for j, d in enumerate(dk):
                skip, internal, librep, crit, text, fid, syms, gfile = d
                lat = j < len(later) and later[j] == "1"
                if internal == "1":
                    wantp = True
                elif librep != "1" or text == "-" or lat:
                    wantp = False
                else:
                    wantp = g["cfg"]["dup"] or text not in seen_par
                    seen_par.add(text)
                mk = lambda x: (tuple(dk[x]), g["fs"][kept[x]]["hasloc"], g["fs"][kept[x]]["line"], g["fs"][kept[x]]["hash"])
                first = [x for x in range(len(dk)) if mk(x) == mk(j)][0]
                if first == j and (j in survived) != wantp:
                    nviol += 1
                    res.violation("parallel run (logger without global suppressions + Executor::hasToLog): finding #%d %s %s although %s (nomsg %s)" %
                                  (j, g["fs"][kept[j]], "survives both gates" if j in survived else "is dropped",
                                   "an entry of the suppression list matches it" if not wantp else "no entry of the suppression list matches it", added),
                                  dict(kind="gate", gate=g, index=j, real_reported=(j in survived), documented=wantp, stage="parallel"), concrete=True, key=None)
    return nviol


# ---------------------------------------------------------------------------------------------------------------
# CLI tier: inline suppressions in generated sources and headers

FINDING_STMT = "a[%d] = 0;"        # arrayIndexOutOfBounds on `int a[2]` for index >= 2


def gen_cli_case(rng, k):
    """a source + header with planted arrayIndexOutOfBounds / zerodiv / nullPointer findings and inline suppression
    comments.  Returns dict(files={name: text}, plan=[dict(file, line, id, suppressed (by the documented rules), why)])"""
    files = {}
    plan = []
    for fname in ("t%d.c" % k, "t%d.h" % k):
        ishdr = fname.endswith(".h")
        L = []
        def add(s):
            L.append(s)
            return len(L)
        filesup = None
        if rng.random() < 0.25 or (k == 0 and not ishdr):     # case 0 always has a -file form (in the source) …
            # documented: "// cppcheck-suppress-file id" for the whole file; the implementation wants it at the top of the file
            filesup = rng.choice(["arrayIndexOutOfBounds", "zerodiv", "*", "array*", "[arrayIndexOutOfBounds,zerodiv]", "nullPointer"])
            add("// cppcheck-suppress-file " + filesup)
        if ishdr:
            add("#ifndef T%d_H" % k)
            add("#define T%d_H" % k)
        else:
            add('#include "t%d.h"' % k)
        macro = None
        msup = None
        if rng.random() < 0.4 or k == 0:                            # … and a -macro form in both files
            msup = rng.choice(["arrayIndexOutOfBounds", "zerodiv", None]) if k else "arrayIndexOutOfBounds"
            if msup:
                add("// cppcheck-suppress-macro " + msup)
            macro = "BAD%s%d" % ("H" if ishdr else "C", k)
            add("#define %s(arr) arr[5] = 0" % macro)
        nf = rng.choice([1, 2, 2, 3])
        for fi in range(nf):
            add("%svoid f%s%d_%d(int x) {" % ("static inline " if ishdr else "", "h" if ishdr else "c", k, fi))
            add("    int a[2] = {0, 0};")
            nst = rng.choice([1, 2, 3])
            for _ in range(nst):
                mode = rng.choice(["none", "none", "same", "prev", "prev-gap", "prev-other", "wrongid", "after", "block", "block-outside", "multi",
                                   "sym-ok", "sym-bad", "sym-glob", "glob", "starstar", "brace"])
                kind = rng.choice(["aiob", "aiob", "zerodiv", "macro" if macro else "aiob", "nullp"])
                if k == 0 and fi == 0 and _ == 0 and macro:
                    kind, mode = "macro", "none"          # a finding inside the macro, hidden only by the -macro comment
                if mode.startswith("sym"):
                    kind = "nullp"
                fid = {"aiob": "arrayIndexOutOfBounds", "macro": "arrayIndexOutOfBounds", "zerodiv": "zerodiv", "nullp": "nullPointer"}[kind]
                stmt = {"aiob": "a[%d] = x;" % rng.choice([2, 3, 7]), "zerodiv": "x = x / 0;", "macro": "%s(a);" % (macro or ""),
                        "nullp": "{ int *q = 0; *q = x; }"}[kind]
                other = "zerodiv" if fid != "zerodiv" else "arrayIndexOutOfBounds"
                sup = False
                if mode == "none":
                    ln = add("    " + stmt)
                elif mode == "same":
                    ln = add("    %s // cppcheck-suppress %s" % (stmt, fid)); sup = True
                elif mode == "prev":
                    add("    // cppcheck-suppress %s" % fid); ln = add("    " + stmt); sup = True
                elif mode == "prev-gap":
                    add("    /* cppcheck-suppress %s */" % fid); add(""); add("    // another comment"); ln = add("    " + stmt); sup = True
                elif mode == "prev-other":
                    add("    // cppcheck-suppress %s" % fid); add("    x++;"); ln = add("    " + stmt)
                elif mode == "wrongid":
                    add("    // cppcheck-suppress %s" % other); ln = add("    " + stmt)
                elif mode == "after":
                    ln = add("    " + stmt); add("    // cppcheck-suppress %s" % fid); add("    x++;")
                elif mode == "block":
                    add("    // cppcheck-suppress-begin %s" % fid); add("    x++;"); ln = add("    " + stmt); add("    x--;"); add("    // cppcheck-suppress-end %s" % fid); sup = True
                elif mode == "block-outside":
                    add("    // cppcheck-suppress-begin %s" % fid); add("    x++;"); add("    // cppcheck-suppress-end %s" % fid); ln = add("    " + stmt)
                elif mode == "multi":
                    add("    // cppcheck-suppress[%s, %s]" % (other, fid)); ln = add("    " + stmt); sup = True
                elif mode == "sym-ok":
                    add("    // cppcheck-suppress %s symbolName=q" % fid); ln = add("    " + stmt); sup = True
                elif mode == "sym-bad":
                    add("    // cppcheck-suppress %s symbolName=b" % fid); ln = add("    " + stmt)
                elif mode == "sym-glob":
                    add("    // cppcheck-suppress %s symbolName=?" % fid); ln = add("    " + stmt); sup = True
                elif mode == "glob":
                    add("    // cppcheck-suppress %s*" % fid[:4]); ln = add("    " + stmt); sup = True
                elif mode == "starstar":
                    add("    // cppcheck-suppress %s**%s" % (fid[:3], fid[5:])); ln = add("    " + stmt); sup = True
                elif mode == "brace":
                    # backwards-compatibility special case: `{` on its own line followed by the comment covers that line and the next
                    add("    if (x)"); add("    { // cppcheck-suppress %s" % fid); ln = add("        " + stmt); add("    }"); sup = True
                fsup = False
                if filesup:
                    pats = [x.strip() for x in filesup.strip("[]").split(",")]
                    fsup = any(re.fullmatch(p.replace("*", ".*"), fid) for p in pats)
                msupd = (kind == "macro" and msup == fid)
                plan.append(dict(file=fname, line=ln, id=fid, macro=(macro if kind == "macro" else None), suppressed=(sup or fsup or msupd),
                                 why=("macro" if msupd and not sup and not fsup else "file" if fsup and not sup else mode)))
            add("    (void)a; (void)x;")
            add("}")
        if ishdr:
            L.append("#endif")
        files[fname] = "\n".join(L) + "\n"
    return dict(files=files, plan=plan)


def cli_cases(ctx, res, drv, corpus, thorough, generate=True):
    rng = ctx.rng
    n = 60 if thorough else 6
    cases = [c["cli"] for c in corpus.get("cli", [])] + ([gen_cli_case(rng, k) for k in range(n)] if generate else [])
    exe = cli_binary(ctx)
    nf = 0
    for k, c in enumerate(cases):
        d = os.path.join(ctx.tmp, "cli%d" % k)
        os.makedirs(d, exist_ok=True)
        for name, text in c["files"].items():
            open(os.path.join(d, name), "w").write(text)
        src = [f for f in c["files"] if f.endswith(".c")]
        base = [exe, "-q", "--template={file}:{line}:{id}", "--enable=warning"] + src
        rc0, out0, err0 = core.sh(base, cwd=d, timeout=120)
        rc1, out1, err1 = core.sh(base[:1] + ["--inline-suppr"] + base[1:], cwd=d, timeout=120)
        def parse(err):
            got = set()
            for l in err.split("\n"):
                m = re.match(r"^([^:]+):(\d+):(\w+)$", l.strip())
                if m:
                    got.add((m.group(1), int(m.group(2)), m.group(3)))
            return got
        ref, got = parse(err0), parse(err1)
        planned = set((p["file"], p["line"], p["id"]) for p in c["plan"])
        if not planned <= ref:
            # the plan must describe findings the analysis really produces; otherwise the case is not usable
            res.count("cli:plan-not-realised")
            continue
        for p in c["plan"]:
            key3 = (p["file"], p["line"], p["id"])
            nf += 1
            rep = key3 in got
            res.case("cli|%s|%s" % (c["files"][p["file"]], p), True, dict(tie="cli", finding=str(key3), mode=p["why"], reported=rep) if nf % 97 == 1 else None)
            res.count("cli:" + p["why"])
            if rep == p["suppressed"]:
                key = None
                res.violation("cppcheck --inline-suppr: finding %s is %s but the documented inline-suppression rules say it is %s (comment form: %s)" %
                              (key3, "reported" if rep else "hidden", "suppressed" if p["suppressed"] else "not suppressed", p["why"]),
                              dict(kind="cli", cli=c, finding=list(key3), real_reported=rep, documented_suppressed=p["suppressed"]), concrete=True, key=key)
        extra = got - ref
        if extra - set(x for x in got if x[2] in ("unmatchedSuppression",)):
            res.violation("cppcheck --inline-suppr reports findings that the run without suppressions does not: %s" % sorted(extra)[:3],
                          dict(kind="cli", cli=c, extra=sorted(extra)), concrete=True, key=None)
    res.traces_validated += nf
    res.extra["cli_findings_judged"] = nf
    w = corpus.get("cli_blockdup")
    if w:
        d = os.path.join(ctx.tmp, "cliblk")
        os.makedirs(d, exist_ok=True)
        open(os.path.join(d, "a.c"), "w").write(w["source"])
        rc, out, err = core.sh([exe, "-q", "--inline-suppr", "--template={file}:{line}:{id}", "a.c"], cwd=d, timeout=120)
        if "a.c:%d:%s" % (w["line"], w["id"]) in err:
            res.violation("cppcheck --inline-suppr reports %s on line %d, which lies inside a cppcheck-suppress-begin/-end block for that id: the block suppression "
                          "was dropped as 'already exists' because a plain cppcheck-suppress comment for the same id precedes the begin comment" % (w["id"], w["line"]),
                          dict(kind="cli-blockdup", witness=w, stderr=err), concrete=True, key=None)
    # template-without-line witness of the duplicate filter finding through the real binary
    w = corpus.get("cli_duptext")
    if w:
        d = os.path.join(ctx.tmp, "clidup")
        os.makedirs(d, exist_ok=True)
        open(os.path.join(d, "a.c"), "w").write(w["source"])
        rc, out, err = core.sh([exe, "-q"] + w["args"] + ["a.c"], cwd=d, timeout=120)
        rc2, out2, err2 = core.sh([exe, "-q"] + w["args_nosuppress"] + ["a.c"], cwd=d, timeout=120)
        if err2.strip() and not err.strip():
            res.violation("cppcheck %s: the unsuppressed finding on line 4 is not reported because the suppressed finding on line 3 rendered to the same text" % " ".join(w["args"]),
                          dict(kind="cli-duptext", witness=w, stderr=err, stderr_nosuppress=err2), concrete=True, key=None)


# ---------------------------------------------------------------------------------------------------------------

def gen_rp_project(rng, k):
    """directory tree with nested directory names (d1/, d2/, d1/d2/): with several -rp base paths the inline suppression of
    d1/d2/x.c is filed under a shorter name than the finding is reported under.  Every planted line number is unique."""
    d1, d2 = rng.sample(["src", "lib", "inc", "app"], 2)
    files, plan = {}, []
    line0 = 0
    for rel in (d1 + "/a.c", d2 + "/b.c", d1 + "/" + d2 + "/x.c", d1 + "/" + d2 + "/" + d1 + "/y.c"):
        L = []
        def add(t):
            L.append(t)
            return len(L)
        filesup = rng.random() < 0.15
        if filesup:
            add("// cppcheck-suppress-file zerodiv")
        for _ in range(line0):
            add("// pad")
        line0 += rng.choice([9, 14, 23])
        add("void f%d_%d(int x) {" % (k, len(files)))
        add("    int a[2] = {0, 0};")
        for _ in range(rng.choice([2, 3, 4])):
            fid, stmt = rng.choice([("arrayIndexOutOfBounds", "a[%d] = x;" % rng.choice([2, 3, 5])), ("zerodiv", "x = x / 0;")])
            mode = rng.choice(["none", "none", "same", "prev", "block", "wrongid", "multi"])
            sup = False
            if mode == "none":
                ln = add("    " + stmt)
            elif mode == "same":
                ln = add("    %s // cppcheck-suppress %s" % (stmt, fid)); sup = True
            elif mode == "prev":
                add("    // cppcheck-suppress %s" % fid); ln = add("    " + stmt); sup = True
            elif mode == "block":
                add("    // cppcheck-suppress-begin %s" % fid); add("    x++;"); ln = add("    " + stmt); add("    // cppcheck-suppress-end %s" % fid); sup = True
            elif mode == "wrongid":
                add("    // cppcheck-suppress %s" % ("zerodiv" if fid != "zerodiv" else "arrayIndexOutOfBounds")); ln = add("    " + stmt)
            else:
                add("    // cppcheck-suppress[zerodiv, arrayIndexOutOfBounds]"); ln = add("    " + stmt); sup = True
            plan.append(dict(file=rel, line=ln, id=fid, suppressed=sup or (filesup and fid == "zerodiv"), why="rp-" + mode))
        add("    (void)a; (void)x;")
        add("}")
        files[rel] = "\n".join(L) + "\n"
    return dict(files=files, plan=plan, d1=d1, d2=d2)


def cli_binary(ctx):
    # C23_CPPCHECK: mutation experiments only (a binary linked against a hand-mutated lib source); the run is marked as not judging the tree
    return os.environ.get("C23_CPPCHECK") or ctx.cppcheck


def cli_rp_cases(ctx, res, corpus, thorough, generate=True):
    """--inline-suppr together with -rp (one / several / nested / absolute base paths) and -j2: an inline suppression applies
    to the file it is written in, however that file is spelled after the base paths were stripped"""
    rng = ctx.rng
    exe = cli_binary(ctx)
    projects = [c["rp"] for c in corpus.get("cli_rp", [])] + ([gen_rp_project(rng, k) for k in range(12 if thorough else 2)] if generate else [])
    judged = 0
    for k, pr in enumerate(projects):
        d = os.path.join(ctx.tmp, "rp%d" % k)
        for rel, text in pr["files"].items():
            os.makedirs(os.path.join(d, os.path.dirname(rel)), exist_ok=True)
            open(os.path.join(d, rel), "w").write(text)
        d1, d2 = pr["d1"], pr["d2"]
        variants = [["-rp=" + d1], ["-rp=%s;%s" % (d1, d2)], ["-rp=%s;%s" % (d2, d1)], ["-rp"], ["-rp=%s;%s" % (os.path.join(d, d1), os.path.join(d, d2))],
                    ["-rp=%s;%s" % (d1, d2), "-j2"], ["-rp=%s;%s;%s/%s" % (d1, d2, d1, d2), "-j2", "--executor=thread"]]
        if not thorough and generate:
            variants = [variants[1], variants[5], rng.choice(variants)]
        for var in variants:
            base = [exe, "-q", "--template={file}:{line}:{id}"] + var + [d1, d2]
            def run(extra):
                rc, out, err = core.sh(base[:1] + extra + base[1:], cwd=d, timeout=180)
                got = set()
                for l in err.split("\n"):
                    m = re.match(r"^(.+):(\d+):(\w+)$", l.strip())
                    if m:
                        got.add((int(m.group(2)), m.group(3)))
                return got
            ref, got = run([]), run(["--inline-suppr"])
            if not set((p["line"], p["id"]) for p in pr["plan"]) <= ref:
                res.count("cli-rp:plan-not-realised")
                continue
            for p in pr["plan"]:
                judged += 1
                rep = (p["line"], p["id"]) in got
                res.case("cli-rp|%s|%s|%s" % (pr["files"][p["file"]], p, var), True, dict(tie="cli-rp", args=" ".join(var), finding="%s:%d:%s" % (p["file"], p["line"], p["id"]), reported=rep) if judged % 53 == 1 else None)
                res.count("cli:" + p["why"])
                if rep == p["suppressed"]:
                    res.violation("cppcheck --inline-suppr %s: finding %s:%d %s is %s but the inline comment in that file says it is %s (form %s)" %
                                  (" ".join(var), p["file"], p["line"], p["id"], "reported" if rep else "hidden", "suppressed" if p["suppressed"] else "not suppressed", p["why"]),
                                  dict(kind="cli-rp", rp=pr, args=var, finding=[p["file"], p["line"], p["id"]], real_reported=rep, documented_suppressed=p["suppressed"]),
                                  concrete=True, key=None)
    res.traces_validated += judged
    res.extra["cli_rp_findings_judged"] = judged


def search(ctx, res, exe, drv):
    """an obligation is broken and nothing concrete was found: evaluate P_impl on a wider neighbourhood"""
    rng = ctx.rng
    cases = glob_cases(rng, True)[:120000]
    ops = ["g %d %s %s" % (ci, hx(p), hx(n)) for ci, p, n in cases]
    himpl, hmodel = run_pair(ctx, exe, drv, ops, lambda o, h: o, "search-glob", res)
    found = 0
    for (ci, p, n), hi, mo in zip(cases, himpl, hmodel):
        real = head(hi).split()[1]
        spec = tail_fields(mo).get("spec")
        if ci == 0 and real != spec:
            key = None
            if key is None:
                found += 1
                res.violation("search: matchglob(%r, %r) = %s, documented language says %s" % (p, n, real, spec),
                              dict(kind="glob", ci=ci, pattern=p, name=n, real=real, documented=spec), concrete=True, key=None)
                if found > 10:
                    break
    res2 = core.Result(ctx, res.level)
    gs = [gen_gate(rng) for _ in range(3000)]
    run_gates(ctx, res2, exe, drv, gs, "search-gate")
    pairs = []
    for _ in range(20000):
        m = gen_msg(rng)
        pairs.append((gen_sup_for(rng, m), m))
    ops = ["is %s %s" % (sup_fields(s), msg_fields(m)) for s, m in pairs]
    himpl, hmodel = run_pair(ctx, exe, drv, ops, lambda o, h: o + tables_of(h), "search-is", res2)
    for (s, m), hi, mo in zip(pairs, himpl, hmodel):
        t = tail_fields(mo)
        r = head(hi)
        if s["type"] in (3, 4) or "spec" not in t:
            continue
        if (r == "Matched") != (t.get("spec") == "1"):
            res2.violation("search: Suppression::isSuppressed = %s, documented rules say %s: %s %s" % (r, t.get("spec"), s, m),
                           dict(kind="is", s=s, m=m, real=r, documented=t.get("spec")), concrete=True, key=None)
    for v in res2.violations:
        if v.get("key") is None:
            res.violation("search: " + v["what"], v["replay"], concrete=True, key=None)
            found += 1
            if found > 20:
                break
    res.extra["search_cases"] = len(cases) + len(gs) + len(pairs)


def replay(ctx, res, rp):
    drv = ctx.driver("drv_c23")
    exe = ctx.harness("c23", with_cli=True)
    kind = rp.get("kind")
    bad = 0
    if kind == "glob":
        ops = ["g %d %s %s" % (rp["ci"], hx(rp["pattern"]), hx(rp["name"]))]
        hi, mo = run_pair(ctx, exe, drv, ops, lambda o, h: o, "replay", res)
        real, spec = head(hi[0]).split()[1], tail_fields(mo[0]).get("spec")
        print("matchglob(%r, %r): real=%s documented=%s model=%s" % (rp["pattern"], rp["name"], real, spec, head(mo[0])))
        bad = 1 if real != spec or head(hi[0]) != head(mo[0]) else 0
    elif kind == "is":
        ops = ["is %s %s" % (sup_fields(rp["s"]), msg_fields(rp["m"]))]
        hi, mo = run_pair(ctx, exe, drv, ops, lambda o, h: o + tables_of(h), "replay", res)
        r, t = head(hi[0]), tail_fields(mo[0])
        print("isSuppressed: real=%s model=%s documented-match=%s" % (r, head(mo[0]), t.get("spec")))
        bad = 1 if (r == "Matched") != (t.get("spec") == "1") or r != head(mo[0]) else 0
    elif kind == "ls":
        ss, ms, modes = rp["supprs"], rp["msgs"], rp["modes"]
        ops = ["ls %d %d %s %d %s" % (1 if rp["global_"] else 0, len(ss), " ".join(sup_fields(s) for s in ss), len(ms), " ".join(md + " " + msg_fields(m) for md, m in zip(modes, ms)))]
        hi, mo = run_pair(ctx, exe, drv, ops, lambda o, h: o + tables_of(h), "replay", res)
        print("real : %s\nmodel: %s" % (head(hi[0]), mo[0]))
        t = tail_fields(mo[0])
        mm = re.match(r"^A (\S+) R (\S+) F (\S+)$", head(hi[0]))
        bits = mm.group(2) if mm else ""
        bad = 1 if head(hi[0]) != head(mo[0]) or any(md == "n" and b != s for b, s, md in zip(bits, t.get("spec", ""), modes)) else 0
    elif kind == "gate":
        res2 = core.Result(ctx, res.level)
        n = run_gates(ctx, res2, exe, drv, [rp["gate"]], "replay")
        for v in res2.violations:
            print(v["what"][:500])
        bad = 1 if n or any(not o["ok"] for o in res2.obligations) else 0
    elif kind == "print":
        e, f, ln, sy, po = rp["fields"]
        ops = ["ts %s %s %d %s %d" % (hx(e), hx(f), ln, hx(sy), 1 if po else 0)]
        hi, mo = run_pair(ctx, exe, drv, ops, lambda o, h: o, "replay", res)
        print("real : %s\nmodel: %s" % (hi[0], mo[0]))
        want = "back=ok %s %s %d %s %d" % (hx(e), hx(f), ln, hx(sy), 1 if po else 0)
        bad = 1 if head(hi[0]) != head(mo[0]) or (tail_fields(mo[0]).get("printable") == "1" and head(hi[0]).split(" ", 1)[1] != want) else 0
    elif kind in ("cli", "cli-duptext", "cli-blockdup"):
        res2 = core.Result(ctx, res.level)
        corpus = dict(cli=[dict(cli=rp["cli"])]) if kind == "cli" else (dict(cli_duptext=rp["witness"]) if kind == "cli-duptext" else dict(cli_blockdup=rp["witness"]))
        cli_cases(ctx, res2, drv, corpus, False, generate=False)
        for v in res2.violations:
            print(v["what"][:500])
        bad = 1 if res2.violations else 0
    elif kind in ("pfp", "pxp"):
        ss = rp["supprs"]
        ops = ["%s %d %s" % (kind, len(ss), " ".join("%s %s %d %s" % (hx(e), hx(f), ln, hx(sy)) for e, f, ln, sy in ss))]
        hi, mo = run_pair(ctx, exe, drv, ops, lambda o, h: o + tables_of(h), "replay", res)
        print("real : %s\nspec : %s" % (hi[0], mo[0]))
        bad = 1 if tail_fields(mo[0]).get("hyp") == "1" and head(hi[0]) != head(mo[0]) else 0
    elif kind == "cli-rp":
        res2 = core.Result(ctx, res.level)
        cli_rp_cases(ctx, res2, dict(cli_rp=[dict(rp=rp["rp"])]), True, generate=False)
        for v in res2.violations:
            print(v["what"][:500])
        bad = 1 if res2.violations else 0
    else:
        print("unknown replay kind %r" % kind)
        return 2
    print("replay: %s" % ("still fails" if bad else "does not fail"))
    return bad

"""C33 — compiled token-pattern matching equals the pattern language.

Obligations
  theorems      Lean, all patterns / all token lists / every varid (see THEOREMS; docs/C33.md has the table)
  T1            every function the real tools/matchcompiler.py generated for lib/*.cpp, re-parsed from the
                generated C++ (match and findmatch shells, with/without `end` and `varid`), equals the model's
                `compile` of the same pattern (exhaustive over the source)                          [python obligation]
  T2            every Token::Match / findmatch pattern literal in lib/*.cpp is `patternWF` and `noNul`, every
                simpleMatch / findsimplematch literal is `simplePatternWF`, a call passes a varid iff the pattern
                uses %varid% (exhaustive over the source; C string escapes are decoded first)          [python obligation]
  T3            tokTypes table of matchcompiler.py = the table in the Lean model
  C1            real interpreted Token::Match / simpleMatch / findmatch / findsimplematch (both overloads, with the
                `end` bound) == model interpB / simpleMatchB / findInterp / findSimpleInterp, and the functions the real
                matchcompiler.py generates for the same literals == model run∘compile / findFrom∘compile, on generated
                (pattern, token list, varid, start, end) tuples - varid 0 and token texts with blanks included
P_impl          compiled(p, ts) == interpreted(p, ts) on the real code
"""
import os, re, sys, importlib.util, hashlib, random
from .. import core, build_repo

ID = "C33"
LEVEL = "proof"
RULE = ("cases = (pattern, token list, varid, start, end) tuples: patterns sampled from all literals compiled out of lib/*.cpp plus "
        "grammar-generated ones (string-literal words included); token lists derived from the pattern (match / near-miss / truncated "
        "inside the pattern / extended / a prefix of other tokens for the find kinds / string and char literals with blanks); varid 0 "
        "with %varid% patterns in ~10% of the varid cases; find kinds with the end overload and end in front of / at / behind the hit; "
        "non-trivial = pattern has >= 2 words or an alternative/class/negation and the list is non-empty")
EXPLANATION = ("Lean theorems (unbounded): lang = the documented pattern language with its three outcomes (match / no match / InternalError "
               "for %varid% under varid 0). interpreted_eq_language: the byte-level model of Token::Match equals lang for every well-formed "
               "pattern, every token list without blank/NUL in a token text, every varid. compiled_eq_language_partial: the program the match "
               "compiler emits equals lang for every pattern and every token list inside the token-type invariant TokWF when varid != 0 (or the "
               "call has no varid argument); compiled_refines_language: under varid 0 it returns lang or throws. Hence compiled_eq_interpreted_partial "
               "/ compiled_refines_interpreted, the simpleMatch analogues, and for the find loops find_compiled_eq_language / find_interpreted_eq_language "
               "(FirstMatch: a hit is the first matching position of the range, nullptr means no position of the range matches) and "
               "find_compiled_eq_interpreted_partial. docWord_iff_ofStr / docPattern_iff_parse: the classification the compiler model uses is the "
               "grammar of the lib/token.h doc comment. The unrestricted statements are refuted by counterexample theorems for the three classes where "
               "the real matchers differ (known findings literal-typed-token, blank-in-token-text, varid0-eager-throw, each replayed from corpus/C33). "
               "Tie: generated C++ of every source pattern re-parsed and compared with the model compiler (exhaustive); every source pattern checked "
               "well-formed; interpreter, compiled functions and the four find entry points compared in-process with the model on generated inputs. "
               "Outside the model: how cppcheck assigns token types (TokWF is a premise on token lists, reported per case), patterns that are not string "
               "literals at the call site, the --verify build mode.")
THEOREMS = ["Cppcheck.Match.compiled_eq_language_partial", "Cppcheck.Match.compiled_refines_language",
            "Cppcheck.Match.compiled_eq_language_nomention",
            "Cppcheck.Match.compiled_ne_language_literal_typed_token", "Cppcheck.Match.compiled_ne_language_varid0",
            "Cppcheck.Match.compiled_eq_language_unrestricted_false",
            "Cppcheck.Match.find_compiled_eq_language", "Cppcheck.Match.findFrom_first", "Cppcheck.Match.findFrom_none",
            "Cppcheck.Match.findFrom_no_throw",
            "Cppcheck.Match.interpreted_eq_language", "Cppcheck.Match.compiled_eq_interpreted_partial",
            "Cppcheck.Match.compiled_refines_interpreted",
            "Cppcheck.Match.simple_interp_eq_words", "Cppcheck.Match.simple_language_eq_words", "Cppcheck.Match.simple_interp_eq_language",
            "Cppcheck.Match.simple_compiled_eq_interpreted_partial",
            "Cppcheck.Match.find_interpreted_eq_language", "Cppcheck.Match.find_compiled_eq_interpreted_partial",
            "Cppcheck.Match.findFrom_eq_findInterp_partial", "Cppcheck.Match.findsimple_compiled_eq_interpreted_partial",
            "Cppcheck.Match.findsimple_interpreted_eq_language",
            "Cppcheck.Match.compiled_ne_interpreted_blank_token", "Cppcheck.Match.compiled_ne_interpreted_varid0",
            "Cppcheck.Match.compiled_ne_interpreted_literal_typed_token", "Cppcheck.Match.compiled_eq_interpreted_unrestricted_false",
            "Cppcheck.Match.interp_eq_language_unrestricted_false",
            "Cppcheck.Match.docWord_iff_ofStr", "Cppcheck.Match.docPattern_iff_parse"]
MODULES = ["Cppcheck.Props.C33", "Cppcheck.Props.C33Interp", "Cppcheck.Props.C33Spec"]
ASSUMPTIONS = [
    "TokWF on every token of the list (compiled side): a token spelled like a key of matchcompiler.py's tokTypes table has one of the listed "
    "token types, and only names carry a varid; reported per explored case (tokwf:0/1); reachable violation = known finding literal-typed-token",
    "TokStrOK on every token (interpreted side): no blank / NUL in a token text; reported per case (tsok:0/1); reachable violation = known finding blank-in-token-text",
    "patternWF / simplePatternWF / noNul on the pattern: checked for every pattern literal of lib/*.cpp on every run (T2)",
    "compiled = language needs varid != 0 or a call without varid argument; under varid 0 only the refinement holds (known finding varid0-eager-throw)",
    "token lists are finite, `end` is either a token of the same list, nullptr, or not reachable from start (endBudget)",
]

CMD_COND = {
    'true': 'cmd:any', 'tok->isAssignmentOp()': 'cmd:assign', 'tok->isBoolean()': 'cmd:bool',
    '(tok->tokType() == Token::eChar)': 'cmd:char', 'tok->isComparisonOp()': 'cmd:comp', 'tok->isNumber()': 'cmd:num',
    'tok->isConstOp()': 'cmd:cop', 'tok->isOp()': 'cmd:op',
    '(tok->tokType() == Token::eBitOp && tok->str() == MatchCompiler::makeConstString("|") )': 'cmd:or',
    '(tok->tokType() == Token::eLogicalOp && tok->str() == MatchCompiler::makeConstString("||"))': 'cmd:oror',
    '(tok->tokType() == Token::eString)': 'cmd:str', '(tok->isName() && tok->varId() == 0U)': 'cmd:type',
    'tok->isName()': 'cmd:name', '(tok->varId() != 0)': 'cmd:var', '(tok->isName() && tok->varId() == varid)': 'varidname',
}
TYCODE = dict(eVariable=0, eType=1, eFunction=2, eKeyword=3, eName=4, eNumber=5, eString=6, eChar=7, eBoolean=8, eLiteral=9,
              eEnumerator=10, eArithmeticalOp=11, eComparisonOp=12, eAssignmentOp=13, eLogicalOp=14, eBitOp=15, eIncDecOp=16,
              eExtendedOp=17, eBracket=18, eLambda=19, eEllipsis=20, eOther=21, eNone=22)


TOKTYPE_LITS = set()   # filled from the repo's matchcompiler.py in run()


class Unrecognised(Exception):
    pass


def load_matchcompiler():
    spec = importlib.util.spec_from_file_location("matchcompiler_repo", os.path.join(core.REPO, "tools", "matchcompiler.py"))
    m = importlib.util.module_from_spec(spec)
    spec.loader.exec_module(m)
    return m


def scan_sources(ctx):
    """run the real MatchCompiler over lib/*.cpp recording every (kind, pattern, varid?, end?) it compiles"""
    mc = load_matchcompiler()
    rec = []

    class Rec(mc.MatchCompiler):
        def _replaceSpecificTokenMatch(self, is_simplematch, line, start_pos, end_pos, pattern, tok, varId):
            rec.append(dict(kind="S" if is_simplematch else "M", pattern=pattern, varid=bool(varId), end=False, file=self._cur))
            return super()._replaceSpecificTokenMatch(is_simplematch, line, start_pos, end_pos, pattern, tok, varId)

        def _replaceSpecificFindTokenMatch(self, is_findsimplematch, line, start_pos, end_pos, pattern, tok, endToken, varId):
            rec.append(dict(kind="FS" if is_findsimplematch else "FM", pattern=pattern, varid=bool(varId), end=bool(endToken), file=self._cur))
            return super()._replaceSpecificFindTokenMatch(is_findsimplematch, line, start_pos, end_pos, pattern, tok, endToken, varId)

    import glob
    out = os.path.join(ctx.tmp, "mcscan")
    os.makedirs(out, exist_ok=True)
    for src in sorted(glob.glob(os.path.join(core.REPO, "lib", "*.cpp"))):
        r = Rec()
        r._cur = os.path.basename(src)
        r.convertFile(src, os.path.join(out, os.path.basename(src)), False)
    return rec


def split_top(s, sep=" || "):
    parts, depth, cur, i = [], 0, "", 0
    instr = False
    while i < len(s):
        c = s[i]
        if instr:
            cur += c
            if c == "\\":
                cur += s[i + 1]; i += 1
            elif c == '"':
                instr = False
        elif c == '"':
            instr = True; cur += c
        elif c == "(":
            depth += 1; cur += c
        elif c == ")":
            depth -= 1; cur += c
        elif depth == 0 and s.startswith(sep, i):
            parts.append(cur); cur = ""; i += len(sep) - 1
        else:
            cur += c
        i += 1
    parts.append(cur)
    return parts


LIT_T = re.compile(r'^\(\((.*?)\) && tok->str\(\) == MatchCompiler::makeConstString\("(.*)"\)\)$', re.S)
LIT_P = re.compile(r'^\(tok->str\(\) == MatchCompiler::makeConstString\("(.*)"\)\)$', re.S)


def cond_canon(c):
    c = c.strip()
    if c in CMD_COND:
        return CMD_COND[c]
    m = LIT_T.match(c)
    if m:
        tys = []
        for t in m.group(1).split(" || "):
            mm = re.match(r"^tok->tokType\(\) == Token::(\w+)$", t)
            if not mm or mm.group(1) not in TYCODE:
                raise Unrecognised("type guard: " + t)
            tys.append(str(TYCODE[mm.group(1)]))
        return "lit:%s:%s" % (core.hx(m.group(2)), ",".join(tys))
    m = LIT_P.match(c)
    if m:
        return "lit:%s:" % core.hx(m.group(1))
    raise Unrecognised("condition: " + c)


def parse_generated(path):
    """re-parse the C++ emitted by matchcompiler.py into (pattern, kind, hasVarid, hasEnd, canonical program)"""
    lines = open(path, encoding="utf-8").read().split("\n")
    res = []
    i = 0
    while i < len(lines):
        if lines[i].startswith("#line 1 "):
            break
        if not lines[i].startswith("// pattern: "):
            i += 1
            continue
        pattern = lines[i][len("// pattern: "):]
        hdr = lines[i + 1]
        if "static inline bool match" in hdr:
            find = False
            m = re.match(r"^MAYBE_UNUSED static inline bool match(\d+)\(const Token\* tok(, const int varid)?\) \{$", hdr)
            if not m:
                raise Unrecognised("header: " + hdr)
            hasv, hasend = bool(m.group(2)), False
            i += 2
            fail = "return false;"
        elif "findmatch" in hdr:
            find = True
            m = re.match(r"^template<class T> MAYBE_UNUSED static inline T \* findmatch(\d+)\(T \* start_tok(, const Token \* end)?(, int varid)?\) \{$", hdr)
            if not m:
                raise Unrecognised("header: " + hdr)
            hasend, hasv = bool(m.group(2)), bool(m.group(3))
            loop = lines[i + 2]
            want = "    for (; start_tok%s; start_tok = start_tok->next()) {" % (" && start_tok != end" if hasend else "")
            if loop != want or lines[i + 3] != "" or lines[i + 4] != "    T * tok = start_tok;":
                raise Unrecognised("find loop: " + loop)
            i += 5
            fail = "continue;"
        else:
            raise Unrecognised("header: " + hdr)
        steps = []
        while True:
            l = lines[i]
            if not find and l == "    return true;":
                if lines[i + 1] != "}":
                    raise Unrecognised("end")
                i += 2
                break
            if find and l == "    return start_tok;":
                if lines[i + 1] != "    }" or lines[i + 2] != "    return nullptr;" or lines[i + 3] != "}":
                    raise Unrecognised("find end")
                i += 4
                break
            nxt = lines[i + 1].strip()
            if l == "    tok = tok->next();":
                steps.append("N"); i += 1; continue
            if l == "    tok = tok ? tok->next() : nullptr;":
                steps.append("NS"); i += 1; continue
            if l == "    if (varid==0U)":
                if not nxt.startswith('throw InternalError(tok, "Internal error. Token::Match called with varid 0.'):
                    raise Unrecognised("varid check")
                steps.append("CV"); i += 2; continue
            m = re.match(r'^    if \(!tok \|\| tok->str\(\)\.size\(\) != 1U \|\| !strchr\("(.*)", tok->str\(\)\[0\]\)\)$', l)
            if m and nxt == fail:
                steps.append("CLS:" + core.hx(m.group(1))); i += 2; continue
            m = re.match(r'^    if \(tok && tok->str\(\) == MatchCompiler::makeConstString\("(.*)"\)\)$', l)
            if m and nxt == fail:
                steps.append("REJ:" + core.hx(m.group(1))); i += 2; continue
            m = re.match(r"^    if \(!tok \|\| !\((.*)\)\)$", l)
            if m and nxt == fail and (len(split_top(m.group(1))) > 1 or True):
                # either an alternatives word "(c1 || c2)" or a single negated condition "!(cond)" / "!((..) && ..)"
                inner = m.group(1)
                cs = None
                try:
                    cs = [cond_canon(c) for c in split_top(inner)]
                except Unrecognised:
                    cs = [cond_canon("(" + inner + ")")]
                steps.append("REQ:" + "|".join(cs)); i += 2; continue
            m = re.match(r"^    if \(!tok \|\| (.*)\)$", l)
            if m and nxt == fail:
                neg = m.group(1)
                if neg == "false":
                    c = "cmd:any"
                elif neg.startswith("!"):
                    c = cond_canon(neg[1:])
                else:
                    raise Unrecognised("single: " + l)
                steps.append("REQ:" + c); i += 2; continue
            m = re.match(r"^    if \(tok && \((.*)\)\)$", l)
            if m and nxt == "tok = tok->next();":
                steps.append("OPT:" + "|".join(cond_canon(c) for c in split_top(m.group(1)))); i += 2; continue
            raise Unrecognised("statement: " + l)
        res.append(dict(pattern=pattern, find=find, varid=hasv, end=hasend, prog=";".join(steps) if steps else "-", file=os.path.basename(path)))
    return res


# ---- generators --------------------------------------------------------------------------------
NAMES = ["foo", "x", "Bar", "i", "p", "std", "T", "size"]
SAMPLE = {
    "%any%": ["foo", ";", "1", "+"], "%assign%": ["=", "+=", "<<=", "|="], "%bool%": ["true", "false"], "%char%": ["'a'", "L'x'"],
    "%comp%": ["<", "==", "!=", ">=", "<=>"], "%num%": ["0", "1", "10", "0x1f", "1.5", "1e3"], "%cop%": ["+", "==", "&", "&&", "|", "||", "<<", "!"],
    "%op%": ["+", "=", "++", "==", "&&", "~"], "%or%": ["|"], "%oror%": ["||"], "%str%": ['"abc"', 'L"w"', '""'],
    "%type%": ["int", "foo", "unsigned", "void"], "%name%": ["foo", "int", "x", "return", "true"], "%var%": ["x", "p", "i"], "%varid%": ["x", "p"],
}
VOCAB = [";", "(", ")", "{", "}", "[", "]", ",", ".", "::", "*", "&", "=", "==", "<", ">", "+", "-", "!", "|", "||", "&&", "0", "1", "foo", "x", "int",
         "const", "return", "if", "else", "while", "true", "false", '"s"', "'c'", "...", "->", "++", "struct", "void", "auto", "restrict", "asm", "?", ":"]


def words_of(pattern):
    return [w for w in pattern.split(" ") if w]


def gen_tokens(rng, pattern, varid, lits):
    """token list derived from the pattern: list of (str, varid)"""
    toks = []
    ws = words_of(pattern)
    cut = rng.random() < 0.35
    stop = rng.randrange(0, len(ws) + 1) if cut else len(ws)
    for k, w in enumerate(ws):
        if k >= stop:
            break
        mode = rng.random()
        if len(w) > 2 and w[0] == "[" and w[-1] == "]":
            s = rng.choice(w[1:-1]) if mode < 0.75 else rng.choice(VOCAB)
            toks.append((s, 0))
        elif w.find("|") > 0:
            alts = w.split("|")
            if "" in alts and mode < 0.3:
                continue
            a = rng.choice([a for a in alts if a] or ["x"])
            toks.append(tok_for(rng, a, varid, mode < 0.8, lits))
        elif w[:2] == "!!":
            toks.append((w[2:], 0) if mode < 0.3 else tok_for(rng, rng.choice(VOCAB), varid, True, lits))
        else:
            toks.append(tok_for(rng, w, varid, mode < 0.8, lits))
    for _ in range(rng.choice([0, 0, 0, 1, 2])):
        toks.append(tok_for(rng, rng.choice(VOCAB + lits), varid, True, lits))
    if rng.random() < 0.1 and toks:
        j = rng.randrange(len(toks))
        toks[j] = tok_for(rng, rng.choice(VOCAB + lits), varid, True, lits)
    return toks


def tok_for(rng, atom, varid, hit, lits):
    if not hit:
        atom = rng.choice(VOCAB + lits + list(SAMPLE.keys()))
    if atom in SAMPLE:
        s = rng.choice(SAMPLE[atom])
        if atom == "%var%":
            return (s, rng.choice([1, 2, 3, varid or 4]))
        if atom == "%varid%":
            return (s, varid if rng.random() < 0.8 else (varid or 0) + 1)
        if atom in ("%name%", "%any%", "%type%") and s[0].isalpha() and s not in ("true", "false", "return", "int", "void", "unsigned") and rng.random() < 0.3:
            return (s, rng.choice([1, 2, varid or 3]))
        return (s, 0)
    if not atom or " " in atom:
        atom = "x"
    if (atom[0].isalpha() or atom[0] == "_") and rng.random() < 0.08:
        return (atom, rng.choice([1, varid or 2]))   # a *variable* spelled like the literal (e.g. a variable named `restrict`)
    return (atom, 0)


# ---- C33-only generator extensions (gen_tokens / VOCAB / SAMPLE above are shared with vlib/props/c05.py: unchanged) ----
BLANK_TOKS = ['" "', '"a b"', "' '", '"x y z"', '"%d %s"', '"a |"', 'L"p q"']     # real token texts with a blank: string / char literals
STRWORDS = ['"a', 'b"', '"', '""', '"C"', '"C++"', '"x', 'y', 'z"', "'", '"/dev/null"']      # pattern words spelled with quotes


def c_unescape(raw):
    """value of the C string literal whose source text (between the quotes) is `raw`; fail closed on anything unusual"""
    out, i = "", 0
    while i < len(raw):
        c = raw[i]
        if c == "\\":
            if i + 1 >= len(raw):
                raise Unrecognised("dangling backslash in pattern literal: %r" % raw)
            n = raw[i + 1]
            m = {"\\": "\\", '"': '"', "'": "'", "n": "\n", "t": "\t", "?": "?"}
            if n not in m:
                raise Unrecognised("escape \\%s in pattern literal: %r" % (n, raw))
            out += m[n]; i += 2
        else:
            out += c; i += 1
    return out


def c_escape(val):
    return val.replace("\\", "\\\\").replace('"', '\\"')


def gen_tokens_c33(rng, case, varid, lits):
    """C33's own token lists: gen_tokens + (find kinds) a prefix of other tokens so that the first match is not at the start,
    + occasionally a string / char literal with a blank inside"""
    toks = gen_tokens(rng, case["pattern"], varid, lits)
    if case["kind"] in ("FM", "FS"):
        pre = [tok_for(rng, rng.choice(VOCAB + lits), varid, True, lits) for _ in range(rng.choice([0, 0, 1, 2, 3]))]
        if pre and rng.random() < 0.3:
            # a near miss in front: the first word(s) of the pattern only
            pre = gen_tokens(rng, " ".join(words_of(case["pattern"])[:1]), varid, lits)[:1] + pre
        toks = pre + toks
    if rng.random() < 0.07:
        j = rng.randrange(len(toks) + 1)
        toks.insert(j, (rng.choice(BLANK_TOKS), 0))
    return toks


def gen_blank_case(rng):
    """targeted: a token text L+' '+R and a pattern whose two consecutive words spell L and R (R possibly the first alternative)"""
    T = rng.choice(['"a b"', '" "', '"x y z"', "' '"])
    L, R = T.split(" ", 1)
    R1 = R.split(" ")[0]
    form = rng.choice([0, 0, 1, 2, 3])
    if form == 0:
        pat = "%s %s|%%any%%" % (L, R1)
    elif form == 1:
        pat = "%s %s|x %%any%%|" % (L, R1)
    elif form == 2:
        pat = "!!%s %s" % (L, R1)
    else:
        pat = "%%any%%| %s %s|;" % (L, R1)
    if "|" in R1 or not R1:
        pat = "%s %%any%%|" % L
    toks = [(T, 0), (rng.choice(["x", ";", R1 or "x"]), 0)]
    return pat, toks


ATOMS = ["%any%", "%assign%", "%bool%", "%char%", "%comp%", "%num%", "%cop%", "%op%", "%or%", "%oror%", "%str%", "%type%", "%name%", "%var%", "%varid%"]
LITS = [";", "(", ")", "{", "}", "[", "]", ",", ".", "::", "*", "&", "=", "==", "<", ">", "+", "-", "!", "&&", "foo", "x", "int", "const", "return", "if",
        "else", "true", "false", "...", "->", "++", "struct", "void", "auto", "%", "%=", "<<", ">>", "~", "^", "?", ":", "std", "0"]


def gen_pattern(rng, strwords=False):
    """pattern from the documented grammar"""
    n = rng.choice([1, 1, 2, 2, 3, 4, 5])
    ws = []
    for _ in range(n):
        k = rng.random()
        if strwords and rng.random() < 0.12:
            ws.append(rng.choice(STRWORDS) + ("|%any%" if rng.random() < 0.3 else ""))
        elif k < 0.35:
            ws.append(rng.choice(LITS + ATOMS))
        elif k < 0.65:
            m = rng.choice([2, 2, 3, 4])
            alts = [rng.choice(LITS + ATOMS) for _ in range(m)]
            w = "|".join(alts)
            if rng.random() < 0.35:
                w += "|"
            ws.append(w)
        elif k < 0.8:
            ws.append("!!" + rng.choice(LITS))
        else:
            cs = "".join(rng.sample(";,{}()[]<>=*&+-", rng.choice([2, 3, 4])))
            ws.append("[" + cs + "]")
    return " ".join(ws)


def case_line(k, c):
    esc = c.get("raw")
    if esc is None:
        esc = c_escape(c["pattern"])
    va = ", varid" if c["varid"] else ""
    en = ", end" if c.get("end") else ""
    if c["kind"] == "M":
        call = 'R(Token::Match(tok, "%s"%s))' % (esc, va)
    elif c["kind"] == "S":
        call = 'R(Token::simpleMatch(tok, "%s"))' % esc
    elif c["kind"] == "FM":
        call = 'idx(tok, Token::findmatch(tok, "%s"%s%s))' % (esc, en, va)
    else:
        call = 'idx(tok, Token::findsimplematch(tok, "%s"%s))' % (esc, en)
    return "    case %d: return %s;" % (k, call)


def build_case_harness(ctx, cases):
    tpl = open(os.path.join(core.VERIF, "harness", "c33.cpp.in")).read()
    src = tpl.replace("@CASES@", "\n".join(case_line(k, c) for k, c in enumerate(cases)))
    h = hashlib.sha1(src.encode()).hexdigest()[:10]
    d = os.path.join(build_repo.bdir(ctx.variant), "harness", "gen")
    os.makedirs(d, exist_ok=True)
    for old in os.listdir(d):       # keep the directory small
        if old.startswith("c33_") and h not in old:
            try:
                os.remove(os.path.join(d, old))
            except OSError:
                pass
    p = os.path.join(d, "c33_%s.cpp" % h)
    if not os.path.exists(p):
        open(p, "w").write(src)
    exe, log = build_repo.build_harness("c33_" + h, ctx.variant, matchcompile=True, src=p)
    if exe is None:
        raise core.CheckBroken("C33 case harness does not build:\n" + log[-3000:])
    return exe


def translate(ctx):
    pass  # C33 has no generated Lean module: T1-T3 are decided through the driver (executable model functions)


def norm_op(op):
    """(case index, tokens, varid[, start, end]) -> 5-tuple; end None = the overload without `end`"""
    if len(op) == 3:
        return (op[0], op[1], op[2], 0, None)
    return op


def impl_vs_model(ctx, res, drv, cases, ops, name):
    """ops: list of (case index, tokens [(str, varid)], varid[, start, end]).  Returns list of discrepancy dicts (P_impl failures)."""
    exe = build_case_harness(ctx, cases)
    ops = [norm_op(o) for o in ops]
    hl = []
    for (k, toks, v, st, en) in ops:
        c = cases[k]
        if (en is not None) != bool(c.get("end")) and c["kind"] in ("FM", "FS"):
            raise core.CheckBroken("C33: op/case disagree about the end overload: %r" % (c,))
        hl.append("%d %s %s %d %d %s %d %s" % (k, c["kind"], core.hx(c["pattern"]), v, st, "-" if en is None else str(en), len(toks),
                                              " ".join("%s %d" % (core.hx(s), vi) for s, vi in toks)))
    rc, hout, herr = core.run_lines(exe, [], hl, timeout=900)
    if len(hout) != len(hl):
        raise core.CheckBroken("C33 harness produced %d lines for %d ops (rc=%s): %s" % (len(hout), len(hl), rc, herr[-500:]))
    ml, impl_c, keys = [], [], []
    for (k, toks, v, st, en), o in zip(ops, hout):
        c = cases[k]
        m = re.match(r"^T(.*) \| I (\S+) \| C (\S+)$", o)
        if not m:
            raise core.CheckBroken("C33 harness line: " + o)
        tys = m.group(1).split()
        ml.append("match %s %s %d %d %d %s %s" % (c["kind"], core.hx(c["pattern"]), v, 1 if c["varid"] else 0, st, "-" if en is None else str(en),
                                                 " ".join("%s %s %d %s" % (core.hx(s), ty.split(":")[0], vi, ty.split(":")[1]) for (s, vi), ty in zip(toks, tys))))
        impl_c.append("I %s | C %s" % (m.group(2), m.group(3)))
        keys.append("%s|%s|%d|%s|%d|%s" % (c["kind"], c["pattern"], v, toks, st, en))
    rc, mout, merr = core.run_lines(drv, [], ml, timeout=900)
    if len(mout) != len(ml):
        raise core.CheckBroken("C33 driver produced %d lines for %d ops: %s" % (len(mout), len(ml), merr[-500:]))
    model_c = []
    meta = []
    for o in mout:
        m = re.match(r"^I (\S+) \| C (\S+) \| S (\S+) \| twf (\S+) \| tsok (\S+)$", o)
        if not m:
            raise core.CheckBroken("C33 driver line: " + o)
        model_c.append("I %s | C %s" % (m.group(1), m.group(2)))
        meta.append((m.group(3), m.group(4), m.group(5)))

    def desc(k, toks, v, st, en):
        d = "%s %r v=%d toks=%s" % (cases[k]["kind"], cases[k]["pattern"], v, " ".join(s + ("@%d" % vi if vi else "") for s, vi in toks))
        if cases[k]["kind"] in ("FM", "FS"):
            d += " start=%d end=%s" % (st, "-" if en is None else en)
        return d
    opdesc = [desc(*o) for o in ops]
    # register cases ourselves to apply the non-triviality rule
    mism = []
    for i, (k, toks, v, st, en) in enumerate(ops):
        p = cases[k]["pattern"]
        nt = len(toks) > st and (len(words_of(p)) >= 2 or any(ch in p for ch in "|[!%"))
        samp = dict(tie=name, op=opdesc[i], impl=impl_c[i], model=model_c[i]) if i % max(1, len(ops) // 3) == 0 else None
        res.case(name + "|" + keys[i], nt, samp)
        res.count("kind:" + cases[k]["kind"])
        res.count("len:%d" % min(len(toks), 6))
        if cases[k]["kind"] in ("FM", "FS"):
            res.count("find:" + ("no-end" if en is None else "end<start" if en < st else "end=null" if en >= len(toks) else "end-in-list"))
            res.count("find-result:" + ("hit0" if impl_c[i].startswith("I 0 ") else "none" if impl_c[i].startswith("I N") else "throw" if impl_c[i].startswith("I E") else "hit>0"))
        if cases[k]["varid"] and v == 0:
            res.count("varid0-with-%varid%")
        if "E" in (impl_c[i].split(" ")[1], impl_c[i].split(" ")[4]):
            res.count("outcome:InternalError")
        if impl_c[i] != model_c[i]:
            mism.append(i)
    res.traces_validated += len(ops) - len(mism)
    res.oblig("correspondence:" + name, not mism, "correspondence",
              "" if not mism else "%d of %d ops differ; first: %s impl=[%s] model=[%s]" % (len(mism), len(ops), opdesc[mism[0]], impl_c[mism[0]], model_c[mism[0]]))
    disc = []
    for i, (k, toks, v, st, en) in enumerate(ops):
        I, C = re.match(r"^I (\S+) \| C (\S+)$", impl_c[i]).groups()
        if I != C and C != "-":
            disc.append(dict(case=cases[k], tokens=toks, varid=v, start=st, end=en, interpreted=I, compiled=C, sem=meta[i][0], twf=meta[i][1],
                             tsok=meta[i][2], desc=opdesc[i], model_agrees=(impl_c[i] == model_c[i])))
        res.count("tokwf:" + meta[i][1])
        res.count("tsok:" + meta[i][2])
    return disc


def classify(d):
    """known-finding classes of interpreted != compiled on the real code; each needs the model to agree with BOTH real matchers
    (so the disagreement is the one the counterexample theorems are about) and is narrowed to its failing input class"""
    if not d["model_agrees"]:
        return None
    toks = d["tokens"][d.get("start", 0):]
    if d["varid"] == 0 and d["case"]["varid"] and d["compiled"] == "E" and d["interpreted"] != "E":
        return "varid0-eager-throw"     # compiled_ne_interpreted_varid0 / compiled_refines_interpreted
    if d["twf"] == "0" and any(vi and (s in TOKTYPE_LITS) for s, vi in toks):
        return "literal-typed-token"    # token spelled like a tokTypes literal but typed otherwise (e.g. variable named `restrict`/`true`)
    if d["tsok"] == "0" and d["twf"] == "1" and any(" " in s for s, vi in toks) and not (d["varid"] == 0 and d["case"]["varid"]):
        return "blank-in-token-text"    # compiled_ne_interpreted_blank_token
    return None


def pat_value(s):
    """decoded pattern of a scanned call site / generated function (the source text carries C escapes)"""
    return c_unescape(s["pattern"])


def mk_case(s, origin):
    return dict(kind=s["kind"], pattern=pat_value(s), raw=s["pattern"], varid=s["varid"], end=bool(s.get("end")), origin=origin)


def gen_ops(rng, cases, ncorp, per):
    """ops for the generated part of `cases` (the last ncorp cases are corpus cases with their own ops)"""
    ops = []
    for k, c in enumerate(cases[:len(cases) - ncorp]):
        lits = [w for w in re.split(r"[ |]", c["pattern"]) if w and not w.startswith(("%", "[", "!!"))] or ["x"]
        for _ in range(per):
            v = rng.choice([1, 2, 3]) if c["varid"] else 0
            if c["varid"] and rng.random() < 0.1:
                v = 0                        # InternalError paths: modelled, compared, P_impl class varid0-eager-throw
            toks = gen_tokens_c33(rng, c, v, lits)
            st, en = 0, None
            if c["kind"] in ("FM", "FS"):
                st = rng.choice([0, 0, 0, 1, 2]) if toks else 0
                if c.get("end"):
                    en = rng.randrange(0, len(toks) + 1)       # anywhere: in front of start, inside, == ntok (nullptr)
            ops.append((k, toks, v, st, en))
        ops.append((k, [], 1 if c["varid"] else 0, 0, 0 if c.get("end") and c["kind"] in ("FM", "FS") else None))
    return ops


def report(res, disc, prefix=""):
    for d in disc:
        key = classify(d)
        res.violation("%scompiled and interpreted matcher disagree on the real code: %s interpreted=%s compiled=%s" % (prefix, d["desc"], d["interpreted"], d["compiled"]),
                      dict(kind=d["case"]["kind"], pattern=d["case"]["pattern"], hasVarid=d["case"]["varid"], hasEnd=bool(d["case"].get("end")),
                           tokens=d["tokens"], v=d["varid"], start=d["start"], end=d["end"],
                           interpreted=d["interpreted"], compiled=d["compiled"], documented=d["sem"], tokwf=d["twf"], tsok=d["tsok"],
                           model_agrees=d["model_agrees"], replay_cmd="./check.py C33 --replay <this file>"), concrete=True, key=key)


def run(ctx, res):
    rng = ctx.rng
    thorough = ctx.tier == "thorough"
    res.assumptions = list(ASSUMPTIONS)
    core.prove(ctx, res, MODULES, THEOREMS)
    drv = ctx.driver("drv_c33")

    # ---- T1/T2: every source pattern ------------------------------------------------------------
    src = scan_sources(ctx)
    gen = []
    mcdir = os.path.join(build_repo.bdir(ctx.variant), "mc")
    t1_err = None
    try:
        for f in sorted(os.listdir(mcdir)):
            if f.startswith("mc_") and f.endswith(".cpp"):
                gen += parse_generated(os.path.join(mcdir, f))
    except Unrecognised as ex:
        t1_err = "translator: unrecognised shape in generated code: %s" % ex
    uniq = {}
    for g in gen:
        uniq.setdefault((g["pattern"], g["varid"]), g)
    lines = ["compile %s %d" % (core.hx(p), 1 if v else 0) for (p, v) in uniq]
    rc, out, err = core.run_lines(drv, [], lines)
    bad_t1, modelinfo = [], {}
    for ((p, v), g), o in zip(uniq.items(), out):
        prog = o.split(" ")[0]
        modelinfo[p] = o
        if prog != g["prog"]:
            bad_t1.append((p, v, g["prog"], prog, g["file"]))
    res.extra["source_functions"] = len(gen)
    res.extra["source_unique_patterns"] = len(uniq)
    res.extra["source_find_functions"] = sum(1 for g in gen if g["find"])
    res.extra["source_find_functions_with_end"] = sum(1 for g in gen if g["find"] and g["end"])
    res.oblig("T1:generated-code-equals-model-compile", not bad_t1 and not t1_err and len(gen) > 0, "translation",
              t1_err or ("" if not bad_t1 else "%d patterns differ; first: %r (file %s) c++=%s model=%s" % (len(bad_t1), bad_t1[0][0], bad_t1[0][4], bad_t1[0][2], bad_t1[0][3])))
    # the recorded call sites must be exactly the generated functions (translator self-check)
    rec_keys = set((s["pattern"], s["varid"], s["kind"] in ("FM", "FS"), s["end"], s["file"]) for s in src)
    gen_keys = set((g["pattern"], g["varid"], g["find"], g["end"], g["file"][3:]) for g in gen)
    res.oblig("T1:scan-equals-generated", rec_keys == gen_keys, "translation",
              "" if rec_keys == gen_keys else "call sites seen by the scanner and functions in the generated files differ: %s" % list(rec_keys ^ gen_keys)[:3])
    bad_wf = []
    vals = []
    for s in src:
        try:
            vals.append(pat_value(s))
        except Unrecognised as ex:
            vals.append(None)
            bad_wf.append(dict(s, why=str(ex)))
    lines = ["compile %s 0" % core.hx(v if v is not None else "x") for v in vals]
    rc, out, err = core.run_lines(drv, [], lines)
    for s, val, o in zip(src, vals, out):
        if val is None:
            continue
        f = dict(x.split("=") for x in o.split(" ")[1:])
        ok = f["swf"] == "1" if s["kind"] in ("S", "FS") else (f["wf"] == "1" and f["nn"] == "1")
        if "\\" in s["pattern"]:
            res.count("pattern-with-escape")
        if not ok:
            bad_wf.append(s)
        if s["varid"] != (f["uv"] == "1") and s["kind"] in ("M", "FM"):
            bad_wf.append(dict(s, why="varid argument / %varid% use mismatch"))
        if s["varid"] and s["kind"] in ("S", "FS"):
            bad_wf.append(dict(s, why="simpleMatch call compiled with a varid argument"))
    res.extra["source_call_sites"] = len(src)
    res.oblig("T2:all-source-patterns-wellformed", not bad_wf and len(src) > 1000, "translation",
              "" if not bad_wf else "%d call sites with a pattern outside the well-formed language; first: %s" % (len(bad_wf), bad_wf[0]))
    # T3 tokTypes table
    mc = load_matchcompiler()
    TOKTYPE_LITS.update(mc.tokTypes.keys())
    lines = ["compile %s 0" % core.hx(k) for k in mc.tokTypes]
    rc, out, err = core.run_lines(drv, [], lines)
    bad_tt = []
    for (k, tys), o in zip(mc.tokTypes.items(), out):
        want = "REQ:lit:%s:%s" % (core.hx(k), ",".join(str(TYCODE[t]) for t in tys))
        if o.split(" ")[0] != want:
            bad_tt.append((k, want, o))
    # and no literal outside the python table carries a guard in the model
    probe = sorted(set(w for s in src for w in re.split(r"[ |]", s["pattern"]) if w and w not in mc.tokTypes and not w.startswith(("%", "[", "!!"))))
    rc, out, err = core.run_lines(drv, [], ["compile %s 0" % core.hx(k) for k in probe])
    for k, o in zip(probe, out):
        if o.split(" ")[0] != "REQ:lit:%s:" % core.hx(k):
            bad_tt.append((k, "unguarded", o))
    res.oblig("T3:tokTypes-table", not bad_tt, "translation", "" if not bad_tt else str(bad_tt[:3]))

    # ---- C1: correspondence on results -----------------------------------------------------------
    n_src = 600 if thorough else 140
    n_gen = 500 if thorough else 120
    n_blank = 60 if thorough else 16
    per = 14 if thorough else 8
    usable = [s for s, v in zip(src, vals) if v is not None]
    seen, cases = set(), []
    # every source pattern spelled with quotes is always in the sample (string-literal words), the rest is drawn
    quoted = [s for s in usable if '"' in s["pattern"]]
    finds_end = [s for s in usable if s["kind"] in ("FM", "FS") and s["end"]]
    for s in quoted + rng.sample(finds_end, min(12 if not thorough else 60, len(finds_end))) + rng.sample(usable, min(n_src, len(usable))):
        key = (s["kind"], s["pattern"], s["varid"], bool(s["end"]))
        if key not in seen:
            seen.add(key)
            cases.append(mk_case(s, "source:" + s["file"]))
    for _ in range(n_gen):
        p = gen_pattern(rng, strwords=True)
        kind = rng.choice(["M", "M", "M", "FM", "FM"])
        c = dict(kind=kind, pattern=p, varid="%varid%" in p, end=(kind == "FM" and rng.random() < 0.5), origin="grammar")
        key = (c["kind"], p, c["varid"], c["end"])
        if key not in seen:
            seen.add(key)
            cases.append(c)
    blank_ops = []
    for _ in range(n_blank):
        p, toks = gen_blank_case(rng)
        c = dict(kind="M", pattern=p, varid=False, end=False, origin="blank-token")
        key = (c["kind"], p, False, False)
        if key not in seen:
            seen.add(key)
            cases.append(c)
            blank_ops.append((len(cases) - 1, toks, 0, 0, None))
    # corpus of past disagreements / witnesses of the known findings
    corpus = load_corpus()
    ngen = len(cases)
    for c in corpus:
        cases.append(dict(kind=c["kind"], pattern=c["pattern"], varid=c["varid"], end=c.get("end") is not None and c["kind"] in ("FM", "FS"), origin="corpus"))
    ops = []
    for j, c in enumerate(corpus):
        ops.append((ngen + j, [tuple(t) for t in c["tokens"]], c["v"], c.get("start", 0), c.get("end")))
    ops += blank_ops
    ops += gen_ops(rng, cases, len(corpus), per)
    disc = impl_vs_model(ctx, res, drv, cases, ops, "match-results")
    res.extra["patterns_exercised"] = len(cases)

    # ---- P_impl on everything explored ---------------------------------------------------------------
    report(res, disc)

    # ---- violation search when an obligation is broken but no concrete input was found yet -------------------
    if any(not o["ok"] for o in res.obligations) and not any(v["concrete"] and not classify_key_known(v) for v in res.violations):
        search(ctx, res, drv, bad_wf, bad_t1, src, vals)


def classify_key_known(v):
    return v.get("key") in ("literal-typed-token", "blank-in-token-text", "varid0-eager-throw")


def search(ctx, res, drv, bad_wf, bad_t1, src, vals):
    """run suspicious patterns (not well-formed / compiled differently from the model) through the real code on many lists"""
    rng = ctx.rng
    sus = []
    for s in bad_wf:
        try:
            sus.append(mk_case(s, "not-wf"))
        except Unrecognised:
            pass
    for (p, v, a, b, f) in bad_t1:
        try:
            sus.append(dict(kind="M", pattern=c_unescape(p), raw=p, varid=v, end=False, origin="compile-differs"))
        except Unrecognised:
            pass
    if not sus:
        # compiler or interpreter changed in a way only results show: widen the sample
        usable = [s for s, v in zip(src, vals) if v is not None]
        for s in rng.sample(usable, min(500, len(usable))):
            sus.append(mk_case(s, "wide"))
    seen, cases = set(), []
    for c in sus:
        k = (c["kind"], c["pattern"], c["varid"], c["end"])
        if k not in seen:
            seen.add(k); cases.append(c)
    cases = cases[:600]
    if not cases:
        return
    ops = gen_ops(rng, cases, 0, 40)
    res2 = core.Result(ctx, res.level)
    disc = impl_vs_model(ctx, res2, drv, cases, ops, "search")
    res.extra["search_ops"] = len(ops)
    n = 0
    for d in disc:
        if classify(d) is None:
            n += 1
            if n > 20:
                break
        report(res, [d], "search: ")


def load_corpus():
    import json
    p = os.path.join(core.VERIF, "corpus", "C33", "cases.json")
    return json.load(open(p)) if os.path.exists(p) else []


def replay(ctx, res, rp):
    drv = ctx.driver("drv_c33")
    TOKTYPE_LITS.update(load_matchcompiler().tokTypes.keys())
    en = rp.get("end")
    cases = [dict(kind=rp["kind"], pattern=rp["pattern"], varid=rp["hasVarid"], end=rp.get("hasEnd", en is not None), origin="replay")]
    disc = impl_vs_model(ctx, res, drv, cases, [(0, [tuple(t) for t in rp["tokens"]], rp["v"], rp.get("start", 0), en)], "replay")
    for d in disc:
        print("VIOLATION property=C33 replay=(replayed) interpreted=%s compiled=%s class=%s %s" % (d["interpreted"], d["compiled"], classify(d), d["desc"]))
    print("replay: %d discrepancy" % len(disc))
    return 1 if disc else 0

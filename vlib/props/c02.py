"""C02 — container-size facts hold in every UB-free execution.

Obligations
  translator  Gen.StdCfgContainers: the flattened (container id, member function) -> (action, yield) table of cfg/std.cfg after resolving
              `inherits` the way Library::load does (copy of the parent's function map, later definitions overwrite action *and* yield);
              cfg/std.cfg must validate against cfg/cppcheck-cfg.rng (xmllint), the action / yield spellings of the schema, of
              Library::Container::actionFrom / yieldFrom and of the enumerations in lib/library.h must be the model's closed enumerations;
              the table is compared with what the real loader builds (harness/c02.cpp)
  theorems    Props/C02.lean over the generated table (decided whole) + unbounded lifting lemmas
  C           model of writeValue / isContainerSizeChanged on straight-line call sequences vs the Known size `cppcheck --dump` reports
P_impl        generated C++ functions over std::vector, deque, list, string, set, map, array ... with probes `P(id, c.size())`; every Known /
              Impossible container-size fact (and Known int value of the `size()` call) at a probe is compared with the sizes a native run
              prints at that probe (g++, ASan+UBSan, _GLIBCXX_ASSERTIONS): a contradicted fact is a violation
docs/C02.md describes model, theorems, ties and findings.
"""
import json, os, re, shutil
import xml.etree.ElementTree as ET
from concurrent.futures import ThreadPoolExecutor
from .. import core, build_repo

ID = "C02"
LEVEL = "other"
RULE = ("table rows = every (container id with a startPattern, member function) of cfg/std.cfg after inheritance; straight-line cases = "
        "default-constructed container followed by 1-8 calls of configured member functions (at most one argument); non-trivial = the "
        "sequence contains a size-changing action. programs = C++ functions with 3-10 statements over one or two containers (construction "
        "from initialiser list / count / default, push/pop/insert/emplace/erase/clear/resize/assign/swap/append, guarded pops, loops, "
        "size-dependent branches) and 2-6 probes; non-trivial = cppcheck attached at least one Known/Impossible size fact to a probe")
EXPLANATION = ("Proved in Lean: refinesB is sound for the effect relations; every row of the generated table assumes an effect that contains the "
               "reference effect of the C++ standard (cfg_actions_sound, decided over the whole table; the rows unique-key insertion had "
               "before 8c7e264 - action push, F6 - are kept as a regression counterexample); for straight-line call sequences of any length a "
               "Known size computed by the forward analysis equals the size in every execution. The reference effects are hand-written from "
               "ISO C++17; loops, branches, aliasing, by-reference passing, iterators, constructors / initialiser lists (F02b lives there), "
               "ContainerConditionHandler and operator[] of associative containers are outside the Lean model and only searched end-to-end, "
               "so level other.")
THEOREMS = ["Cppcheck.ContainerSize.refinesB_sound", "Cppcheck.ContainerSize.cfg_actions_sound",
            "Cppcheck.ContainerSize.cfg_set_insert_counterexample", "Cppcheck.ContainerSize.cfg_nonempty_after_push_sound",
            "Cppcheck.ContainerSize.known_size_sound", "Cppcheck.ContainerSize.known_size_sound_table",
            "Cppcheck.ContainerSize.known_size_unsound_set_insert_counterexample", "Cppcheck.ContainerSize.ctorSize_sound_partial",
            "Cppcheck.ContainerSize.ctorSize_sound_counterexamples", "Cppcheck.ContainerSize.ctorSize_sound_counterexample"]
MODULES = ["Cppcheck.Props.C02"]

ACTIONS = ["resize", "clear", "push", "pop", "find", "find-const", "insert", "erase", "append", "change-content", "change", "change-internal"]
ACTION_ENUM = ["RESIZE", "CLEAR", "PUSH", "POP", "FIND", "FIND_CONST", "INSERT", "ERASE", "APPEND", "CHANGE_CONTENT", "CHANGE", "CHANGE_INTERNAL", "NO_ACTION"]
ACTION_LEAN = ["resize", "clear", "push", "pop", "find", "findConst", "insert", "erase", "append", "changeContent", "change", "changeInternal", "noAction"]
YIELDS = ["at_index", "item", "buffer", "buffer-nt", "start-iterator", "end-iterator", "iterator", "size", "empty"]
YIELD_ENUM = ["AT_INDEX", "ITEM", "BUFFER", "BUFFER_NT", "START_ITERATOR", "END_ITERATOR", "ITERATOR", "SIZE", "EMPTY", "NO_YIELD"]
YIELD_LEAN = ["atIndex", "item", "buffer", "bufferNt", "startIterator", "endIterator", "iterator", "size", "empty", "noYield"]
CACHE = os.path.join(core.VERIF, ".build", "cache", "c02")
WORKERS = 6


# ================================================================================================================
# translator
# ================================================================================================================
def extract_table():
    """-> (rows, meta, problems); rows = [(container id, method, action index, yield index)] for containers with a startPattern,
    sorted; meta[id] = dict(startPattern, functions {name: (a, y)}) for every container"""
    problems = []
    cfg = os.path.join(core.REPO, "cfg", "std.cfg")
    rng = os.path.join(core.REPO, "cfg", "cppcheck-cfg.rng")
    if shutil.which("xmllint"):
        rc, out, err = core.sh(["xmllint", "--noout", "--relaxng", rng, cfg], timeout=300)
        if rc != 0:
            problems.append("cfg/std.cfg does not validate against cfg/cppcheck-cfg.rng: " + err[-400:])
    else:
        problems.append("xmllint not available: schema validation of cfg/std.cfg not done")
    # closed enumerations: schema, loader spellings, enum declarations
    rtext = open(rng, encoding="utf-8").read()
    def rng_values(name):
        m = re.search(r'<define name="%s">\s*<choice>(.*?)</choice>' % name, rtext, re.S)
        return re.findall(r"<value>([^<]*)</value>", m.group(1)) if m else None
    if sorted(rng_values("CONTAINER-ACTION") or []) != sorted(ACTIONS):
        problems.append("CONTAINER-ACTION of the schema is %s, the model knows %s" % (rng_values("CONTAINER-ACTION"), ACTIONS))
    if sorted(rng_values("CONTAINER-YIELDS") or []) != sorted(YIELDS):
        problems.append("CONTAINER-YIELDS of the schema is %s, the model knows %s" % (rng_values("CONTAINER-YIELDS"), YIELDS))
    ltext = open(os.path.join(core.REPO, "lib", "library.cpp"), encoding="utf-8").read()
    def spellings(fn, enum):
        m = re.search(r"Library::Container::%s\(const std::string& \w+\)\s*\{(.*?)\n\}" % fn, ltext, re.S)
        if not m:
            return None
        return re.findall(r'==\s*"([^"]*)"\)\s*return Container::%s::(\w+);' % enum, m.group(1))
    sa, sy = spellings("actionFrom", "Action"), spellings("yieldFrom", "Yield")
    want_a = sorted(zip(ACTIONS, ACTION_ENUM[:-1]))      # ACTIONS is listed in the order of the enumeration
    if sa is None or sorted(sa) != want_a:
        problems.append("Library::Container::actionFrom maps %s, the model expects %s" % (sa, want_a))
    if sy is None or sorted(sy) != sorted(zip(YIELDS, YIELD_ENUM[:-1])):
        problems.append("Library::Container::yieldFrom maps %s" % (sy,))
    htext = open(os.path.join(core.REPO, "lib", "library.h"), encoding="utf-8").read()
    def enum_names(name):
        m = re.search(r"enum class %s : std::uint8_t \{(.*?)\};" % name, htext, re.S)
        return [x.strip() for x in m.group(1).split(",") if x.strip()] if m else None
    if enum_names("Action") != ACTION_ENUM:
        problems.append("enum class Action is %s" % enum_names("Action"))
    if enum_names("Yield") != YIELD_ENUM:
        problems.append("enum class Yield is %s" % enum_names("Yield"))
    # flatten
    meta, order = {}, []
    try:
        root = ET.parse(cfg).getroot()
    except ET.ParseError as ex:
        return [], {}, problems + ["cfg/std.cfg is not well-formed: %s" % ex]
    for node in root:
        if node.tag != "container":
            continue
        cid = node.get("id")
        if not cid:
            problems.append("container without id")
            continue
        known_attrs = {"id", "inherits", "startPattern", "endPattern", "itEndPattern", "opLessAllowed", "hasInitializerListConstructor", "view"}
        if set(node.keys()) - known_attrs:
            problems.append("container %s: unrecognised attributes %s" % (cid, sorted(set(node.keys()) - known_attrs)))
        c = dict(startPattern=None, functions={}, stringLike=False, associative=False, sizeArg=-1)
        inh = node.get("inherits")
        if inh:
            if inh not in meta:
                problems.append("container %s inherits unknown %s" % (cid, inh))
                continue
            c = dict(startPattern=None, functions=dict(meta[inh]["functions"]), stringLike=meta[inh]["stringLike"],
                     associative=meta[inh]["associative"], sizeArg=meta[inh]["sizeArg"])
            c["startPattern"] = meta[inh]["startPattern"]       # `container = i->second` copies everything
        if node.get("startPattern") is not None:
            c["startPattern"] = node.get("startPattern")
        for sub in node:
            if sub.tag in ("size", "access", "other"):
                for fn in sub:
                    if fn.tag != "function":
                        problems.append("container %s: unrecognised element <%s> in <%s>" % (cid, fn.tag, sub.tag))
                        continue
                    if set(fn.keys()) - {"name", "action", "yields", "returnType"}:
                        problems.append("container %s function %s: unrecognised attributes" % (cid, fn.get("name")))
                    a, y = fn.get("action"), fn.get("yields")
                    if (a is not None and a not in ACTIONS) or (y is not None and y not in YIELDS) or not fn.get("name"):
                        problems.append("container %s function %s: action %r / yields %r outside the closed enumerations" % (cid, fn.get("name"), a, y))
                        continue
                    c["functions"][fn.get("name")] = (ACTIONS.index(a) if a is not None else len(ACTIONS), YIELDS.index(y) if y is not None else len(YIELDS))
                if sub.tag == "size" and sub.get("templateParameter") is not None:
                    c["sizeArg"] = int(sub.get("templateParameter"))
            elif sub.tag == "type":
                if sub.get("string") is not None:
                    c["stringLike"] = sub.get("string") == "std-like"
                if sub.get("associative") is not None:
                    c["associative"] = sub.get("associative") == "std-like"
            elif sub.tag == "rangeItemRecordType":
                pass
            else:
                problems.append("container %s: unrecognised element <%s>" % (cid, sub.tag))
        meta[cid] = c
        order.append(cid)
    rows = []
    for cid in sorted(meta):
        if meta[cid]["startPattern"] is None:
            continue
        for name in sorted(meta[cid]["functions"]):
            a, y = meta[cid]["functions"][name]
            rows.append((cid, name, a, y))
    if not rows:
        problems.append("no <container> with a startPattern found in cfg/std.cfg")
    return rows, meta, problems


def gen_text(rows):
    out = ["import Cppcheck.Model.ContainerSize",
           "/-! GENERATED by vlib/props/c02.py from cfg/std.cfg (containers with a startPattern, `inherits` resolved as Library::load does).",
           "    Do not edit: the file is rewritten on every run. -/",
           "namespace Cppcheck.Gen.StdCfgContainers",
           "open Cppcheck.ContainerSize",
           "",
           "def stdCfgContainers : List Entry := ["]
    body = []
    for (cid, name, a, y) in rows:
        body.append('  ⟨"%s", "%s", .%s, .%s⟩' % (cid, name, ACTION_LEAN[a], YIELD_LEAN[y]))
    out.append(",\n".join(body))
    out += ["]", "", "end Cppcheck.Gen.StdCfgContainers", ""]
    return "\n".join(out)


def translate(ctx):
    rows, meta, problems = extract_table()
    if rows:
        ctx.write_gen("StdCfgContainers", gen_text(rows))
    return rows, meta, problems


# ================================================================================================================
# the table against the real loader
# ================================================================================================================
def loader_table(ctx, exe):
    rc, out, err = core.run_lines(exe, [], ["table " + core.hx(os.path.join(core.REPO, "cfg", "std.cfg"))])
    if not out or not out[0].startswith("ok"):
        return None, (out[0] if out else err[-300:])
    t = {}
    for part in out[0].split()[1:]:
        cid, sp, flags, sizearg, fns = part.split("|")
        f = {}
        if fns != "-":
            for x in fns.split(","):
                n, a, y = x.rsplit(":", 2)
                f[n] = (int(a), int(y))
        t[cid] = dict(startPattern=core.unhx(sp).decode("latin-1"), functions=f, stringLike=flags[0] == "1", associative=flags[1] == "1", sizeArg=int(sizearg))
    return t, ""


# ================================================================================================================
# straight-line call sequences: model vs --dump
# ================================================================================================================
TYPES = {
    "stdVector": ("std::vector<int>", "#include <vector>"), "stdDeque": ("std::deque<int>", "#include <deque>"),
    "stdList": ("std::list<int>", "#include <list>"), "stdString": ("std::string", "#include <string>"),
    "stdSet": ("std::set<int>", "#include <set>"), "stdMap": ("std::map<int, int>", "#include <map>"),
    "stdMultiSet": ("std::multiset<int>", "#include <set>"), "stdMultiMap": ("std::multimap<int, int>", "#include <map>"),
    "stdQueue": ("std::queue<int>", "#include <queue>"), "stdStack": ("std::stack<int>", "#include <stack>"),
}
# how a configured member function is called with at most one argument (None: not used in straight-line cases)
CALLS = {
    "push_back": "{c}.push_back({v});", "emplace_back": "{c}.emplace_back({v});", "push_front": "{c}.push_front({v});",
    "emplace_front": "{c}.emplace_front({v});", "pop_back": "{c}.pop_back();", "pop_front": "{c}.pop_front();",
    "push": "{c}.push({v});", "pop": "{c}.pop();", "clear": "{c}.clear();", "resize": "{c}.resize({n});",
    "insert": "{c}.insert({e});", "emplace": "{c}.emplace({v});", "erase": "{c}.erase({c}.begin());", "swap": "{c}.swap(other);",
    "size": "(void){c}.size();", "empty": "(void){c}.empty();", "begin": "(void){c}.begin();", "front": "(void){c}.front();",
    "back": "(void){c}.back();", "reserve": "{c}.reserve(10);", "shrink_to_fit": "{c}.shrink_to_fit();", "sort": "{c}.sort();",
    "reverse": "{c}.reverse();", "find": "(void){c}.find({v});", "count": "(void){c}.count({v});", "append": '{c}.append("{s}");',
    "assign": "{c}.assign(other);", "top": "(void){c}.top();", "length": "(void){c}.length();", "at": "(void){c}.at(0);",
    "unique": "{c}.unique();", "remove": "{c}.remove({v});", "merge": "{c}.merge(other);", "c_str": "(void){c}.c_str();",
}
VALID_FOR = {   # member functions the class really has (programs are compiled for the native runs)
    "stdVector": ["push_back", "emplace_back", "pop_back", "clear", "resize", "erase", "swap", "size", "empty", "begin", "front", "back", "reserve", "shrink_to_fit", "assign", "at"],
    "stdDeque": ["push_back", "emplace_back", "push_front", "emplace_front", "pop_back", "pop_front", "clear", "resize", "erase", "swap", "size", "empty", "front", "back", "assign"],
    "stdList": ["push_back", "emplace_back", "push_front", "emplace_front", "pop_back", "pop_front", "clear", "resize", "erase", "swap", "size", "empty", "sort", "reverse", "unique", "remove", "merge", "assign"],
    "stdString": ["push_back", "pop_back", "clear", "resize", "erase", "swap", "size", "empty", "append", "length", "reserve", "c_str", "assign"],
    "stdSet": ["insert", "emplace", "clear", "erase", "swap", "size", "empty", "find", "count"],
    "stdMap": ["insert", "clear", "erase", "swap", "size", "empty", "find", "count"],
    "stdMultiSet": ["insert", "emplace", "clear", "erase", "swap", "size", "empty", "find", "count"],
    "stdMultiMap": ["insert", "clear", "erase", "swap", "size", "empty", "find", "count"],
    "stdQueue": ["push", "pop", "size", "empty", "front", "back", "swap"],
    "stdStack": ["push", "pop", "size", "empty", "top", "swap"],
}


def call_text(cid, m, rng, c="c", arg=None):
    v = str(rng.choice([0, 1, 1, 2, 3, 7]))
    e = v if cid not in ("stdMap", "stdMultiMap") else "std::make_pair(%s, 1)" % v
    if cid == "stdString":
        v = "'a'"
        e = None
    n = rng.choice([0, 1, 2, 3, 5]) if arg is None else arg
    s = rng.choice(["", "a", "ab", "abc"]) if arg is None else "abcdefgh"[:arg]
    t = CALLS[m].format(c=c, v=v, e=e, n=n, s=s)
    arg = n if m == "resize" else len(s) if m == "append" else 0
    return t, arg


def parse_dump_values(path):
    """-> list of tokens in order: dict(line, str, values=[attr dict])"""
    text = open(path, encoding="utf-8", errors="replace").read()
    i = text.find("<dump cfg=")
    j = text.find("</dump>", i)
    body = text[i:j if j > 0 else len(text)]
    values = {}
    for vm in re.finditer(r'<values id="([0-9a-fx]+)">(.*?)</values>', body, re.S):
        values[vm.group(1)] = [dict(re.findall(r'([\w-]+)="([^"]*)"', x.group(1))) for x in re.finditer(r"<value ([^>]*)/>", vm.group(2))]
    toks = []
    for tm in re.finditer(r'<token id="[0-9a-fx]+" file="[^"]*" linenr="(\d+)" column="\d+" str="([^"]*)"([^>]*)/>', body):
        attrs = dict(re.findall(r'([\w-]+)="([^"]*)"', tm.group(3)))
        toks.append(dict(line=int(tm.group(1)), str=tm.group(2), values=values.get(attrs.get("values"), [])))
    return toks


def run_cppcheck_dump(ctx, path):
    import time
    for attempt in range(30):
        try:
            rc, out, err = core.sh([os.environ.get("C02_CPPCHECK") or ctx.cppcheck, "--dump", "-q", "--std=c++17", "--max-configs=1", path], timeout=300)
            return os.path.exists(path + ".dump")
        except (PermissionError, FileNotFoundError, OSError):
            time.sleep(2)
    return False


def size_facts(toks, line, var):
    """container-size facts on the variable token `var` of a probe line, and int facts on the `(` of `. size (`"""
    lt = [t for t in toks if t["line"] == line]
    facts = []
    for k, t in enumerate(lt):
        if t["str"] == var and k + 2 < len(lt) and lt[k + 1]["str"] == "." and lt[k + 2]["str"] in ("size", "length"):
            for v in t["values"]:
                if "container-size" in v:
                    kind = "K" if v.get("known") == "true" else "I" if v.get("impossible") == "true" else "P"
                    facts.append((kind, {"Point": "P", "Upper": "U", "Lower": "L"}[v.get("bound", "Point")], int(v["container-size"]), "container-size"))
            if k + 3 < len(lt) and lt[k + 3]["str"] == "(":
                for v in lt[k + 3]["values"]:
                    if "intvalue" in v:
                        kind = "K" if v.get("known") == "true" else "I" if v.get("impossible") == "true" else "P"
                        facts.append((kind, {"Point": "P", "Upper": "U", "Lower": "L"}[v.get("bound", "Point")], int(v["intvalue"]), "size()"))
            break
    return facts


def run_straight(ctx, res, drv, meta, n):
    rng = ctx.rng
    d = os.path.join(ctx.tmp, "sl")
    os.makedirs(d, exist_ok=True)
    cases = []
    for c in load_corpus().get("straight", []):
        cases.append((c["container"], c["methods"].split(), c.get("args")))
    for _ in range(n):
        cid = rng.choice(sorted(TYPES))
        ms, args, sure = [], [], 0      # `sure`: a lower bound of the size, so that the sequence is free of undefined behaviour
        for _ in range(rng.choice([1, 2, 3, 4, 5, 6, 8])):
            m = rng.choice(VALID_FOR[cid])
            if m in ("pop_back", "pop_front", "pop", "erase", "front", "back", "top", "at") and sure < 1:
                m = "size"
            arg = rng.choice([0, 1, 2, 3, 5]) if m == "resize" else rng.choice([0, 1, 2, 3]) if m == "append" else 0
            if m in ("push_back", "emplace_back", "push_front", "emplace_front", "push"):
                sure += 1
            elif m in ("insert", "emplace"):
                sure = sure + 1 if cid in ("stdMultiSet", "stdMultiMap") else max(sure, 1)
            elif m in ("pop_back", "pop_front", "pop", "erase"):
                sure -= 1
            elif m == "clear":
                sure = 0
            elif m == "resize":
                sure = arg
            elif m == "append":
                sure += arg
            elif m in ("swap", "assign", "merge", "remove", "unique"):
                sure = 0
            ms.append(m); args.append(arg)
        cases.append((cid, ms, args))
    files = [cases[i:i + 25] for i in range(0, len(cases), 25)]
    ops, impl = [], []
    def one(fi):
        text = "#include <vector>\n#include <deque>\n#include <list>\n#include <string>\n#include <set>\n#include <map>\n#include <queue>\n#include <stack>\n#include <utility>\n"
        info = []
        for k, (cid, ms, args) in enumerate(files[fi]):
            ty = TYPES[cid][0]
            text += "void f%d(%s &other)\n{\n    %s c;\n" % (k, ty, ty)
            calls = []
            r2 = __import__("random").Random(hash((ctx.seed, fi, k)) & 0xffffffff)
            for mi, m in enumerate(ms):
                t, arg = call_text(cid, m, r2, arg=args[mi] if args else None)
                text += "    " + t + "\n"
                a, y = meta[cid]["functions"].get(m, (len(ACTIONS), len(YIELDS)))
                calls.append("%d:%d:%d" % (a, y, arg))
            text += "    (void)c.size();\n"
            info.append((text.count("\n"), calls))
            text += "}\n"
        path = os.path.join(d, "s%d.cpp" % fi)
        open(path, "w").write(text)
        if not run_cppcheck_dump(ctx, path):
            return None
        toks = parse_dump_values(path + ".dump")
        os.remove(path + ".dump")
        out = []
        for (line, calls) in info:
            known = [f for f in size_facts(toks, line, "c") if f[0] == "K" and f[3] == "container-size"]
            out.append((calls, str(known[0][2]) if known else "-"))
        return out
    with ThreadPoolExecutor(WORKERS) as ex:
        parts = list(ex.map(one, range(len(files))))
    if any(p is None for p in parts):
        res.oblig("straight:dump", False, "machinery", "cppcheck --dump produced no dump")
        return
    flat = [x for p in parts for x in p]
    for (cid, ms, _), (calls, got) in zip(cases, flat):
        ops.append("run 0 " + " ".join(calls) + " #" + cid + ":" + ",".join(ms))
        impl.append(got)
        res.count("straight:" + cid)
    rc, model, err = core.run_lines(drv, [], [o.split(" #")[0] for o in ops])
    core.correspond(ctx, res, "straight-line-known-size", ops, impl, model,
                    nontrivial=lambda op, out: any(w.split(":")[0] in ("0", "1", "2", "3", "8") for w in op.split(" #")[0].split()[2:]))


# ================================================================================================================
# end to end: generated C++ functions with probes, facts vs native sizes
# ================================================================================================================
PRELUDE = ("#include <vector>\n#include <deque>\n#include <list>\n#include <string>\n#include <set>\n#include <map>\n#include <array>\n"
           "#include <cstdio>\n#include <cstdlib>\n#include <utility>\n"
           "static void P(int id, std::size_t n) { std::printf(\"%d=%zu\\n\", id, n); }\n"
           "static void h_grow(std::vector<int> &v) { v.push_back(9); }\n"
           "static void h_look(const std::vector<int> &v) { (void)v.size(); }\n"
           "static void h_shrink(std::vector<int> &v) { if (!v.empty()) v.pop_back(); }\n"
           "static void h_byval(std::vector<int> v) { v.clear(); }\n"
           "static void h_ptr(std::vector<int> *v) { v->push_back(1); }\n"
           "static void h_sgrow(std::string &s) { s += \"q\"; }\n"
           "static std::vector<int> h_make(int n) { return std::vector<int>(static_cast<std::size_t>(n & 3), 1); }\n")
E2E_TYPES = [("vector", "std::vector<int>"), ("deque", "std::deque<int>"), ("list", "std::list<int>"), ("string", "std::string"),
             ("set", "std::set<int>"), ("map", "std::map<int, int>"), ("array", "std::array<int, 4>")]


class ProgGen:
    def __init__(self, rng, name):
        self.rng, self.name = rng, name
        self.lines = []
        self.probes = []       # (probe id, line offset in function, variable)
        self.pid = 0
        self.vars = []         # (name, kind)
        self.kinds = set()

    def emit(self, s, ind=1):
        self.lines.append("    " * ind + s)

    def val(self):
        return self.rng.choice(["1", "2", "3", "a", "b", "a + 1", "7"])

    def elem(self, kind):
        if kind == "string":
            return self.rng.choice(["'x'", "'y'"])
        if kind == "map":
            return "std::make_pair(%s, 0)" % self.val()
        return self.val()

    def probe(self, var, ind=1):
        self.pid += 1
        self.emit("P(%d, %s.size());" % (self.pid, var), ind)
        self.probes.append((self.pid, len(self.lines), var))

    def declare(self):
        rng = self.rng
        kind, ty = rng.choice(E2E_TYPES)
        name = "c%d" % len(self.vars)
        k = rng.random()
        if kind == "array":
            self.emit("%s %s = {{1, 2, 3, 4}};" % (ty, name))
        elif kind == "string":
            self.emit(rng.choice(['%s %s;', '%s %s = "abc";', '%s %s("ab");', '%s %s = "";', "%s %s(3, 'x');", "%s %s{3, 'x'};", "%s %s{'a', 'b', 'c'};",
                                  '%s %s("abcdef", 2);', "%s %s{72, 105};"]) % (ty, name))
        elif kind == "map":
            self.emit(rng.choice(["%s %s;", "%s %s = {{1, 2}, {3, 4}};", "%s %s = {{1, 2}, {1, 4}};"]) % (ty, name))
        elif kind == "set":
            self.emit(rng.choice(["%s %s;", "%s %s = {1, 2, 3};", "%s %s = {1, 1, 2};", "%s %s{a, b};"]) % (ty, name))
        else:
            self.emit(rng.choice(["%s %s;", "%s %s = {1, 2, 3};", "%s %s(3);", "%s %s(2, 7);", "%s %s{5};", "%s %s{3, 7};", "%s %s(a & 3, 1);"]) % (ty, name))
        self.vars.append((name, kind))
        self.kinds.add(kind)
        return name, kind

    def mutate(self, name, kind, ind=1):
        """one size-relevant statement that is free of undefined behaviour whatever the current size is"""
        rng = self.rng
        e = self.elem(kind)
        if kind == "array":
            opts = ["%s.fill(%s);" % (name, self.val()), "%s[1] = %s;" % (name, self.val())]
        elif kind in ("set", "map"):
            opts = ["%s.insert(%s);" % (name, e)] * 4 + ["%s.clear();" % name, "%s.erase(%s);" % (name, self.val()),
                    "if (!%s.empty()) %s.erase(%s.begin());" % (name, name, name)]
            if kind == "set":
                opts += ["%s.emplace(%s);" % (name, self.val())] * 2
            else:
                opts += ["%s[%s] = 1;" % (name, self.val())] * 2 + ["%s.emplace(%s, 1);" % (name, self.val())]
        else:
            opts = ["%s.push_back(%s);" % (name, e)] * 4 + ["%s.clear();" % name, "%s.resize(%d);" % (name, rng.choice([0, 1, 2, 5])),
                    "if (!%s.empty()) %s.pop_back();" % (name, name), "if (%s.size() > 1) %s.pop_back();" % (name, name),
                    "if (!%s.empty()) %s.erase(%s.begin());" % (name, name, name), "%s.insert(%s.begin(), %s);" % (name, name, e)]
            if kind == "vector":
                opts += ["h_grow(%s);" % name, "h_look(%s);" % name, "h_shrink(%s);" % name, "h_byval(%s);" % name, "h_ptr(&%s);" % name,
                         "%s = h_make(a);" % name]
            if kind == "string":
                opts += ['%s += "xy";' % name, '%s.append("z");' % name, '%s = "hello";' % name, "%s += 'c';" % name, "h_sgrow(%s);" % name]
            else:
                opts += ["%s.emplace_back(%s);" % (name, e), "%s.assign(3, 1);" % name, "%s = {4, 5};" % name]
            if kind in ("deque", "list"):
                opts += ["%s.push_front(%s);" % (name, e), "if (!%s.empty()) %s.pop_front();" % (name, name)]
        self.emit(rng.choice(opts), ind)

    def stmt(self, depth):
        rng = self.rng
        name, kind = rng.choice(self.vars)
        k = rng.random()
        if k < 0.5 or depth == 0:
            self.mutate(name, kind, 2 - depth if depth < 2 else 1)
            return
        ind = 1
        if k < 0.7:
            cond = rng.choice(["a > %d" % rng.choice([0, 1, 5]), "b == %d" % rng.choice([0, 3]), "%s.empty()" % name, "!%s.empty()" % name,
                               "%s.size() == %d" % (name, rng.choice([0, 1, 2, 3])), "%s.size() > %d" % (name, rng.choice([0, 1, 2])),
                               "%s.size() < %d" % (name, rng.choice([1, 2, 3]))])
            self.emit("if (%s) {" % cond, ind)
            for _ in range(rng.choice([1, 1, 2])):
                n2, k2 = rng.choice(self.vars)
                self.mutate(n2, k2, ind + 1)
            if rng.random() < 0.5:
                self.probe(name, ind + 1)
            if rng.random() < 0.3:
                self.emit("} else {", ind)
                self.mutate(name, kind, ind + 1)
                if rng.random() < 0.5:
                    self.probe(name, ind + 1)
            self.emit("}", ind)
        elif k < 0.85:
            self.emit("for (int i = 0; i < %s; i++) {" % rng.choice(["2", "3", "(a & 3)", "b % 3"]), ind)
            self.mutate(name, kind, ind + 1)
            if rng.random() < 0.4:
                self.probe(name, ind + 1)
            self.emit("}", ind)
        elif k < 0.93 and len(self.vars) > 1:
            (n1, k1), (n2, k2) = rng.sample(self.vars, 2)
            if k1 == k2:
                self.emit(rng.choice(["%s = %s;" % (n1, n2), "%s.swap(%s);" % (n1, n2), "%s = std::move(%s);" % (n1, n2)]), ind)
            else:
                self.mutate(n1, k1, ind)
        else:
            lim = rng.choice([1, 2, 3])
            if kind == "array":
                self.emit("{", ind)
                self.emit("%s[0] = 1;" % name, ind + 1)
            elif kind in ("set", "map"):
                # fresh keys: the loop terminates whatever the container holds
                self.emit("for (int k = 0; %s.size() < %d; k++) {" % (name, lim), ind)
                self.emit("%s.insert(%s);" % (name, "1000 + k" if kind == "set" else "std::make_pair(1000 + k, 0)"), ind + 1)
            else:
                self.emit("while (%s.size() < %d) {" % (name, lim), ind)
                self.emit("%s.push_back(%s);" % (name, self.elem(kind)), ind + 1)
            self.emit("}", ind)

    def build(self):
        rng = self.rng
        self.emit("", 0)
        self.lines = []
        for _ in range(rng.choice([1, 1, 2])):
            n, k = self.declare()
            if rng.random() < 0.4:
                self.probe(n)
        for _ in range(rng.choice([2, 3, 4, 5, 6])):
            self.stmt(1)
            if rng.random() < 0.6:
                n, k = rng.choice(self.vars)
                self.probe(n)
        n, k = rng.choice(self.vars)
        self.probe(n)
        text = "int %s(int a, int b)\n{\n" % self.name + "\n".join(self.lines) + "\n    return 0;\n}\n"
        return dict(name=self.name, text=text, probes=self.probes, kinds=sorted(self.kinds))


def fact_holds(f, n):
    kind, bound, v, _ = f
    if kind == "K":
        return n == v
    if kind == "I":
        return {"P": n != v, "U": n > v, "L": n < v}[bound]
    return True


def classify(fn, probe_var, fact, observed):
    """F02b class.  Root: the probed container is a std::set / std::map built from an initialiser list with >= 2 items and the fact claims
    more elements than the execution has.  Consequence: the function branches on the size of such a set / map (the probed container itself or another one) (`v.size()` / `v.empty()` in a condition), so the wrong size fact decides which statements cppcheck thinks are
    executed.  (Unique-key *insertion* — F6 — is repaired in cfg/std.cfg by 8c7e264 and is not excused any more.)"""
    kind, bound, v, _ = fact
    text = fn["text"]
    def pattern(var):
        if re.search(r"std::(set|map)<[^>]*>\s+%s\s*(=\s*)?\{[^;]*,[^;]*\};" % var, text):
            return "unique-associative-initializer-list-counted-with-duplicates"
        return None
    claims_more = (kind == "K" and v > observed) or (kind == "I" and bound in ("P", "U") and v >= observed)
    if pattern(probe_var) and claims_more:
        return pattern(probe_var)
    for var in sorted(set(re.findall(r"std::(?:set|map)<[^>]*>\s+(\w+)", text))):
        if pattern(var) and re.search(r"(if|while|for) \([^\n]*\b%s\.(size|empty)\(\)" % var, text):
            return pattern(var)
    return None


def native_build(src):
    import hashlib
    os.makedirs(CACHE, exist_ok=True)
    h = hashlib.sha1(src.encode()).hexdigest()[:20]
    exe = os.path.join(CACHE, h)
    if os.path.exists(exe):
        return exe, ""
    cpath = os.path.join(CACHE, h + ".cpp")
    open(cpath, "w").write(src)
    rc, out, err = core.sh(["g++", "-std=gnu++17", "-O0", "-g0", "-w", "-D_GLIBCXX_ASSERTIONS", "-fsanitize=address",
                            cpath, "-o", exe + ".tmp"], timeout=1200)
    if rc != 0:
        return None, err
    os.replace(exe + ".tmp", exe)
    os.remove(cpath)
    try:
        fs = sorted((os.path.join(CACHE, f) for f in os.listdir(CACHE)), key=os.path.getmtime)
        for f in fs[:-40]:
            os.remove(f)
    except OSError:
        pass
    return exe, ""


ARGS = [(0, 0), (1, 0), (0, 3), (2, 1), (6, 3), (7, 5), (-1, -1), (100, 2), (3, 3), (5, 0)]


def run_e2e(ctx, res, n):
    rng = ctx.rng
    d = os.path.join(ctx.tmp, "e2e")
    os.makedirs(d, exist_ok=True)
    fns = []
    for c in load_corpus().get("programs", []):
        k = len(fns)
        text = c["text"].replace("@NAME@", "f%d" % k)
        probes = []
        for off, l in enumerate(text.split("\n")):
            m = re.search(r"P\((\d+), (\w+)\.size\(\)\);", l)
            if m:
                probes.append((int(m.group(1)), off - 1, m.group(2)))
        fns.append(dict(name="f%d" % k, text=text, probes=probes, kinds=["corpus"], corpus=c["name"], expect=c.get("expect")))
    for _ in range(n):
        fns.append(ProgGen(rng, "f%d" % len(fns)).build())
    if not shutil.which("g++"):
        res.oblig("e2e:g++-available", False, "machinery", "g++ is needed to execute the generated programs")
        return
    src = PRELUDE + "".join(f["text"] + "\n" for f in fns)
    src += "int main(int argc, char **argv)\n{\n    int k = std::atoi(argv[1]), a = std::atoi(argv[2]), b = std::atoi(argv[3]);\n    switch (k) {\n"
    src += "".join("    case %d: f%d(a, b); break;\n" % (k, k) for k in range(len(fns)))
    src += "    }\n    std::printf(\"DONE\\n\");\n    return 0;\n}\n"
    exe, log = native_build(src)
    if exe is None:
        res.oblig("e2e:native-build", False, "machinery", "g++ does not compile the generated programs:\n" + log[-2500:])
        return
    def runk(k):
        obs, ok = {}, True
        for (a, b) in ARGS:
            rc, out, err = core.sh([exe, str(k), str(a), str(b)], timeout=60, env={"ASAN_OPTIONS": "detect_leaks=0"})
            if rc == -999:      # a loaded machine, not the program: every generated loop is bounded by construction
                rc, out, err = core.sh([exe, str(k), str(a), str(b)], timeout=600, env={"ASAN_OPTIONS": "detect_leaks=0"})
            if rc == -999:
                return None, obs
            if rc != 0 or "DONE" not in out:
                ok = False
                continue
            for l in out.split("\n"):
                if "=" in l:
                    i, v = l.split("=")
                    obs.setdefault(int(i), []).append(((a, b), int(v)))
        return ok, obs
    with ThreadPoolExecutor(WORKERS) as ex:
        native = list(ex.map(runk, range(len(fns))))
    chunks = [list(range(i, min(i + 12, len(fns)))) for i in range(0, len(fns), 12)]
    def one(ci):
        text, starts = PRELUDE, {}
        for k in chunks[ci]:
            starts[k] = text.count("\n") + 1
            text += fns[k]["text"] + "\n"
        path = os.path.join(d, "e%d.cpp" % ci)
        open(path, "w").write(text)
        if not run_cppcheck_dump(ctx, path):
            return None
        toks = parse_dump_values(path + ".dump")
        os.remove(path + ".dump")
        return {k: (starts[k], toks) for k in chunks[ci]}
    with ThreadPoolExecutor(WORKERS) as ex:
        parts = list(ex.map(one, range(len(chunks))))
    if any(p is None for p in parts):
        res.oblig("e2e:dump", False, "machinery", "cppcheck --dump produced no dump")
        return
    dumps = {}
    for p in parts:
        dumps.update(p)
    discarded = nfacts = 0
    for k, fn in enumerate(fns):
        ok, obs = native[k]
        if ok is None:
            res.oblig("e2e:native-runs-finish", False, "machinery", "a generated program did not finish within 10 minutes:\n" + fn["text"])
            return
        if not ok:
            discarded += 1
            res.count("generator-discarded")
            if fn.get("corpus"):
                res.oblig("e2e:corpus-program-ub-free", False, "validation", "%s does not run clean under the sanitizers" % fn["corpus"])
            continue
        start, toks = dumps[k]
        nontriv = False
        for (pid, off, var) in fn["probes"]:
            line = start + 1 + off
            for f in size_facts(toks, line, var):
                if f[0] == "P":
                    continue
                nontriv = True
                nfacts += 1
                res.count("fact:%s%s:%s" % (f[0], f[1], f[3]))
                bad = [(args, v) for (args, v) in obs.get(pid, []) if not fact_holds(f, v)]
                if bad:
                    key = classify(fn, var, f, bad[0][1])
                    for ex_ in fn.get("expect") or []:
                        key = key or ex_.get("key")
                    desc = "%s %s%d (%s)" % ("Known" if f[0] == "K" else "Impossible", {"P": "", "U": "<=", "L": ">="}[f[1]], f[2], f[3])
                    res.violation("cppcheck reports %s for `%s` at probe %d, but the UB-free execution %s(%d, %d) has size %d there\n%s" %
                                  (desc, var, pid, fn["name"], bad[0][0][0], bad[0][0][1], bad[0][1], fn["text"]),
                                  dict(kind="e2e", text=fn["text"].replace(fn["name"] + "(", "@NAME@(", 1), probe=pid, var=var, fact=list(f), args=list(bad[0][0]),
                                       size=bad[0][1], key=key), concrete=True, key=key)
                else:
                    res.traces_validated += 1
        for kd in fn["kinds"]:
            res.count("program-container:" + kd)
        res.case("e2e|" + fn["text"], nontriv, dict(tie="e2e", text=fn["text"][:600]) if len(res.samples) < 12 and k % 29 == 0 else None)
    res.extra["size_facts_checked"] = res.extra.get("size_facts_checked", 0) + nfacts
    res.extra["generator_discarded"] = res.extra.get("generator_discarded", 0) + discarded
    res.oblig("e2e:generator-is-ub-free", discarded <= max(2, len(fns) // 40), "validation",
              "" if discarded <= max(2, len(fns) // 40) else "%d of %d generated functions do not run clean" % (discarded, len(fns)))


# ---- translator: the shape of the constructor-size functions the model `ctorSize` copies ------------------------------------
def ctor_shapes(text):
    """the decisive conditions of getContainerSizeFromConstructorArgs / getInitListSize / getContainerSizeFromConstructor in lib/valueflow.cpp:
    per function the ordered list of `if (...)` conditions, assignments to `initList` and `return` expressions (comments and layout
    ignored); None for a function that is not found"""
    out = {}
    for name in ("getContainerSizeFromConstructorArgs", "getInitListSize", "getContainerSizeFromConstructor"):
        m = re.search(r"static std::vector<ValueFlow::Value> %s\((.*?)\)\s*\{\n(.*?)\n\}\n" % name, text, re.S)
        if not m:
            out[name] = None
            continue
        b = re.sub(r"\s+", " ", re.sub(r"//[^\n]*", "", m.group(2))).strip()
        items, i = [], 0
        while i < len(b):
            if b.startswith("if (", i) and (i == 0 or not (b[i - 1].isalnum() or b[i - 1] == "_")):
                j, d = i + 3, 0
                while True:
                    d += b[j] == "("
                    d -= b[j] == ")"
                    j += 1
                    if d == 0:
                        break
                items.append("if " + b[i + 3:j])
                i = j
            elif b.startswith("return ", i) or b.startswith("initList = ", i):
                j = b.index(";", i)
                items.append(b[i:j])
                i = j
            else:
                i += 1
        out[name] = items
    return out

CTOR_SHAPES = {'getContainerSizeFromConstructor': ['if (args.empty())',
                                     'return {makeContainerSizeValue(MathLib::bigint{0}, known)}',
                                     'if (args.size() == 1 && Token::simpleMatch(args[0], "{"))',
                                     'return getInitListSize(args[0], valueType, settings, known)',
                                     'return getContainerSizeFromConstructorArgs(args, valueType->container, known)'],
 'getContainerSizeFromConstructorArgs': ['if (astIsIntegral(args[0], false))',
                                         'if (args.size() == 1 || (args.size() > 1 && !astIsIntegral(args[1], false)))',
                                         'return {makeContainerSizeValue(args[0], known)}',
                                         'if (astIsContainer(args[0]) && args.size() == 1)',
                                         'return getContainerValues(args[0])',
                                         'if (isIteratorPair(args))',
                                         'if (!result.empty())',
                                         'return result',
                                         'if (astIsPointer(args[0]) && args[0]->exprId() != 0)',
                                         'if (args[0]->exprId() == args[1]->exprId())',
                                         'return {makeContainerSizeValue(MathLib::bigint{0}, known)}',
                                         'if (Token::simpleMatch(args[1], "+"))',
                                         'if (sizetok->exprId() == eid)',
                                         'if (vartok->exprId() == eid && sizetok->hasKnownIntValue())',
                                         'return {makeContainerSizeValue(sizetok, known)}',
                                         'if (container->stdStringLike)',
                                         'if (astIsPointer(args[0]))',
                                         'if (args.size() == 1 && args[0]->tokType() == Token::Type::eString)',
                                         'return {makeContainerSizeValue(Token::getStrLength(args[0]), known)}',
                                         'if (args.size() == 1 && args[0]->variable() && args[0]->variable()->isArray() && '
                                         'args[0]->variable()->isConst() && args[0]->variable()->dimensions().size() == 1 && '
                                         'args[0]->variable()->dimensions()[0].known)',
                                         'return {makeContainerSizeValue(args[0]->variable()->dimensions()[0].num, known)}',
                                         'if (args.size() == 2 && astIsIntegral(args[1], false))',
                                         'return {makeContainerSizeValue(args[1], known)}',
                                         'if (astIsContainer(args[0]))',
                                         'if (args.size() == 1)',
                                         'return getContainerValues(args[0])',
                                         'if (args.size() == 3)',
                                         'return {makeContainerSizeValue(args[2], known)}',
                                         'return {}'],
 'getInitListSize': ['if (args.empty())',
                     'return {makeContainerSizeValue(MathLib::bigint{0}, known)}',
                     'initList = tok->str() == "{"',
                     'if (initList && args.size() < 4)',
                     'initList = !isIteratorPair(args)',
                     'if (valueType->container->stdStringLike)',
                     'initList = astIsGenericChar(args[0]) && !astIsPointer(args[0])',
                     'if (containerTypeToken)',
                     'if (vt.pointer > 0 && astIsPointer(args[0]))',
                     'initList = true',
                     'if (vt.type == ValueType::ITERATOR && astIsIterator(args[0]))',
                     'initList = true',
                     'if (vt.isIntegral() && astIsIntegral(args[0], false))',
                     'initList = true',
                     'if (args.size() == 1 && valueFlowIsSameContainerType(vt, tok->astOperand2(), valueType->container->view, settings))',
                     'initList = false',
                     'if (args.size() == 2 && (!args[0]->valueType() || !args[1]->valueType()))',
                     'initList = false',
                     'if (!initList)',
                     'return getContainerSizeFromConstructorArgs(args, valueType->container, known)',
                     'return {makeContainerSizeValue(args.size(), known)}']}


# ================================================================================================================
# constructor forms: model (ctorSize) vs --dump, reference (ctorRef) vs g++, facts vs native sizes
# ================================================================================================================
CTOR_TYPES = {"string": ["std::string", "std::wstring"], "seq": ["std::vector<int>", "std::deque<int>", "std::list<int>"],
              "set": ["std::set<int>"], "uset": ["std::unordered_set<int>"], "multiset": ["std::multiset<int>"]}
CTOR_FORMS = {
    "string": ["nik3 nck97", "niu2 nck97", "nik4 nik65", "nik65", "nck97", "nck97 nck98", "nck97 nck98 nck99 nck100", "nik72 nik105 nik33",
               "nik3 nck97 nck98", "ncu99 nck97", "l3", "l0", "l6 nik3", "l4 nik4", "p5", "p5 q5,2k", "p5 q5,5k", "b4,3k e", "c6,6k",
               "c6,6k nik1", "c6,6k nik1 nik100", "c6,6k nik1 nik2", "c6,6k nik5 nik3", "c6,6k nik6 nik0", "c6,6k nik0 nik6", "c6,6k niu2 nik1"],
    "seq": ["nik3", "nik0", "niu2", "nik3 nik7", "nik2 niu3", "niu3 nik1", "nik1 nik2 nik3", "nik3 nik0", "niu2 niu3 nik1", "nik1 nik2 nik3 nik4 nik5",
            "nck97 nik3", "a4 z4,3", "a4 z4,0", "b4,3k e", "b0,0k e", "c4,3k", "c0,0k"],
    "set": ["nik1 nik1 nik2", "nik1 nik2 nik3", "nik5", "niu2 niu3", "niu2 niu2", "b4,3k e", "b3,3k e", "c3,3k"],
    "uset": ["nik1 nik1 nik2", "nik1 nik2 nik3", "nik16", "nik0", "niu2 niu2", "b4,3k e", "b3,3k e", "c3,3k"],
    "multiset": ["nik1 nik1 nik2", "niu2 niu2", "b4,3k e", "c3,3k", "a4 z4,4"],
}
# statements outside the constructor model, native comparison only: (tag, declaration / statements with {c} = the probed variable)
CTOR_EXTRA = [
    ("string-assign-ptr-plus", 'const char *p{i} = "hello"; std::string {c}; {c} = p{i} + 2;'),
    ("string-append-concat", 'std::string t{i} = "abcdef"; std::string {c} = "ab"; {c}.append(t{i} + t{i});'),
    ("string-plus-assign-concat", 'std::string t{i} = "abcdef"; std::string {c} = "ab"; {c} += t{i} + t{i};'),
    ("set-from-pointer-range", "int arr{i}[4] = {{1, 2, 2, 3}}; std::set<int> {c}(arr{i}, arr{i} + 4);"),
    ("map-braced-pairs-dup", "std::map<int, int> {c}{{{{1, 2}}, {{1, 3}}}};"),
    ("map-braced-pairs", "std::map<int, int> {c} = {{{{1, 2}}, {{2, 3}}, {{3, 4}}}};"),
    ("unordered-map-bucket-count", "std::unordered_map<int, int> {c}(16);"),
    ("unordered-map-braced-dup", "std::unordered_map<int, int> {c}{{{{1, 2}}, {{1, 3}}}};"),
    ("map-from-vector-of-pairs", "std::vector<std::pair<int, int>> vp{i} = {{{{1, 2}}, {{1, 3}}}}; std::map<int, int> {c}(vp{i}.begin(), vp{i}.end());"),
    ("multimap-braced", "std::multimap<int, int> {c}{{{{1, 2}}, {{1, 3}}}};"),
    ("vector-copy-assign", "std::vector<int> src{i} = {{1, 2, 3}}; std::vector<int> {c} = src{i};"),
    ("string-from-literal-assign", 'std::string {c} = "hello";'),
    ("wstring-count-char", "std::wstring {c}(3, L'a');"),
    ("vector-of-char-braced", "std::vector<char> {c}{{3, 'a'}};"),
    ("vector-of-char-parens", "std::vector<char> {c}(3, 'a');"),
    ("string-braced-equals", "std::string {c} = {{3, 'a'}};"),
    ("deque-braced-equals", "std::deque<int> {c} = {{2, 7}};"),
    ("list-count-value", "std::list<int> {c}(2, 7);"),
    ("string-substr-pos-only", 'std::string t{i} = "abcdef"; std::string {c}(t{i}, 2);'),
    ("string-move", 'std::string t{i} = "abcdef"; std::string {c}(std::move(t{i}));'),
]
CTOR_KEYS = {   # excluded form -> known-finding key
    ("string", 3): "string-substring-ctor-count-beyond-end",
    ("uset", 1): "unordered-bucket-count-as-size",
    ("string", 1): "string-braced-single-integer-as-count",
    ("set", 2): "unique-associative-iterator-pair-counted-with-duplicates",
    ("uset", 2): "unique-associative-iterator-pair-counted-with-duplicates",
}
EXTRA_KEYS = {"string-assign-ptr-plus": "string-assign-pointer-arithmetic-as-concatenation",
              "string-append-concat": "string-append-of-concatenation-length",
              "set-from-pointer-range": "unique-associative-iterator-pair-counted-with-duplicates",
              "unordered-map-bucket-count": "unordered-bucket-count-as-size",
              "map-from-vector-of-pairs": "unique-associative-iterator-pair-counted-with-duplicates",
              "map-braced-pairs-dup": "unique-associative-initializer-list-counted-with-duplicates",
              "unordered-map-braced-dup": "unique-associative-initializer-list-counted-with-duplicates"}


def ctor_key(kind, braces, args, excluded):
    if not excluded:
        return None
    toks = args.split()
    if kind in ("set", "uset") and all(t[0] == "n" for t in toks) and braces:
        return "unique-associative-initializer-list-counted-with-duplicates"
    return CTOR_KEYS.get((kind, len(toks)))


def render_ctor(kind, ty, braces, args, i):
    """-> (statements declaring what the arguments need, declaration of c<i>) for one constructor call"""
    wide = ty == "std::wstring"
    L = "L" if wide else ""
    pre, rendered = [], []
    toks = args.split()
    for t in toks:
        if t[0] == "n":
            isch, known, v = t[1] == "c", t[2] == "k", int(t[3:])
            if known:
                rendered.append("%s'%s'" % (L, chr(v)) if isch else str(v))
            elif isch:
                pre.append("%s ch%d = static_cast<%s>(a + 97);" % ("wchar_t" if wide else "char", i, "wchar_t" if wide else "char"))
                rendered.append("ch%d" % i)
            else:
                rendered.append("a" if v == 2 else "b")
        elif t[0] == "l":
            rendered.append('%s"%s"' % (L, "abcdefgh"[:int(t[1:])]))
        elif t[0] == "p":
            pre.append('const %s *p%d = %s"%s";' % ("wchar_t" if wide else "char", i, L, "hello world"[:int(t[1:])]))
            rendered.append("p%d" % i)
        elif t[0] == "q":
            rendered.append("p%d + %s" % (i, t[1:-1].split(",")[1]))
        elif t[0] == "a":
            n = int(t[1:])
            pre.append("int arr%d[%d] = {%s};" % (i, n, ", ".join(str(x) for x in [1, 2, 2, 3, 4, 5][:n])))
            rendered.append("arr%d" % i)
        elif t[0] == "z":
            rendered.append("arr%d + %s" % (i, t[1:].split(",")[1]))
        elif t[0] in "bc":
            size, distinct = (int(x) for x in t[1:-1].split(","))
            vals = list(range(1, distinct + 1)) + [1] * (size - distinct)
            if kind == "string":
                init = '= %s"%s"' % (L, "".join(chr(96 + x) for x in vals))
                sty = ty
            else:
                init = "= {%s}" % ", ".join(str(x) for x in vals) if vals else ""
                sty = ty if t[0] == "c" else "std::vector<int>"
            pre.append("%s src%d %s;" % (sty, i, init))
            rendered.append("src%d.begin()" % i if t[0] == "b" else "src%d" % i)
        elif t[0] == "e":
            rendered.append("src%d.end()" % i)
    decl = "%s c%d%s%s%s;" % (ty, i, "{" if braces else "(", ", ".join(rendered), "}" if braces else ")")
    return pre, decl


def run_ctor(ctx, res, drv):
    """every constructor form x container type x {braces, parentheses}: ctorSize vs the Known size in the dump, ctorRef vs the size g++
    gives, and every Known / Impossible fact vs the native size"""
    cases = []
    for kind in sorted(CTOR_FORMS):
        for args in CTOR_FORMS[kind]:
            for braces in (False, True):
                cases.append((kind, braces, args))
    lines = []
    for (kind, braces, args) in cases:
        lines.append("ctor %s %s %s" % (kind, "b" if braces else "p", args))
        lines.append("ctorref %s %s %s" % (kind, "b" if braces else "p", args))
    rc, out, err = core.run_lines(drv, [], lines)
    if len(out) != len(lines) or "bad-op" in out:
        res.oblig("ctor:driver", False, "machinery", "driver answered %d lines for %d ops (%s)" % (len(out), len(lines), [l for l, o in zip(lines, out) if o == "bad-op"][:2]))
        return
    units = []      # dict(kind, ty, braces, args, model, ref, excluded, pre, decl, tag)
    for ci, (kind, braces, args) in enumerate(cases):
        model, ref = out[2 * ci], out[2 * ci + 1]
        excluded = ref.endswith(" x")
        ref = ref.split()[0]
        if ref == "-":
            res.count("ctor-form-without-reference-meaning")     # ill-formed / throws / undefined: not compiled
            continue
        for ty in CTOR_TYPES[kind]:
            units.append(dict(kind=kind, ty=ty, braces=braces, args=args, model=model, ref=int(ref), excluded=excluded, tag=None))
    for (tag, text) in CTOR_EXTRA:
        units.append(dict(kind=None, ty=None, braces=None, args=None, model=None, ref=None, excluded=False, tag=tag, text=text))
    # functions of 6 units each
    fns, per = [], 6
    for f0 in range(0, len(units), per):
        body, probes = [], []
        for j, u in enumerate(units[f0:f0 + per]):
            if u["tag"]:
                body.append("    " + u["text"].format(c="c%d" % j, i=j))
            else:
                pre, decl = render_ctor(u["kind"], u["ty"], u["braces"], u["args"], j)
                body += ["    " + x for x in pre] + ["    " + decl]
            body.append("    P(%d, c%d.size());" % (j + 1, j))
            probes.append((j + 1, len(body), "c%d" % j))
            u["fn"], u["probe"] = len(fns), j + 1
        fns.append(dict(name="g%d" % len(fns), text="int g%d(int a, int b)\n{\n" % len(fns) + "\n".join(body) + "\n    return 0;\n}\n", probes=probes))
    prelude = PRELUDE.replace("#include <array>\n", "#include <array>\n#include <unordered_set>\n#include <unordered_map>\n")
    src = prelude + "".join(f["text"] + "\n" for f in fns)
    src += "int main(int argc, char **argv)\n{\n    int k = std::atoi(argv[1]);\n    switch (k) {\n"
    src += "".join("    case %d: g%d(2, 3); break;\n" % (k, k) for k in range(len(fns)))
    src += "    }\n    std::printf(\"DONE\\n\");\n    return 0;\n}\n"
    if not shutil.which("g++"):
        res.oblig("ctor:g++-available", False, "machinery", "g++ is needed")
        return
    exe, log = native_build(src)
    if exe is None:
        res.oblig("ctor:native-build", False, "machinery", "g++ does not compile the constructor forms:\n" + log[-3000:])
        return
    def runk(k):
        rc, o, e = core.sh([exe, str(k)], timeout=600, env={"ASAN_OPTIONS": "detect_leaks=0"})
        return (rc == 0 and "DONE" in o), dict((int(l.split("=")[0]), int(l.split("=")[1])) for l in o.split("\n") if "=" in l), e[-300:]
    with ThreadPoolExecutor(WORKERS) as ex:
        native = list(ex.map(runk, range(len(fns))))
    bad = [(fns[k]["name"], native[k][2]) for k in range(len(fns)) if not native[k][0]]
    if bad:
        res.oblig("ctor:forms-run-clean", False, "validation", "constructor forms do not run clean: %s" % (bad[:2],))
        return
    d = os.path.join(ctx.tmp, "ctor")
    os.makedirs(d, exist_ok=True)
    chunks = [list(range(i, min(i + 10, len(fns)))) for i in range(0, len(fns), 10)]
    def one(ci):
        text, starts = prelude, {}
        for k in chunks[ci]:
            starts[k] = text.count("\n") + 1
            text += fns[k]["text"] + "\n"
        path = os.path.join(d, "c%d.cpp" % ci)
        open(path, "w").write(text)
        if not run_cppcheck_dump(ctx, path):
            return None
        toks = parse_dump_values(path + ".dump")
        os.remove(path + ".dump")
        return {k: (starts[k], toks) for k in chunks[ci]}
    with ThreadPoolExecutor(WORKERS) as ex:
        parts = list(ex.map(one, range(len(chunks))))
    if any(p is None for p in parts):
        res.oblig("ctor:dump", False, "machinery", "cppcheck --dump produced no dump")
        return
    dumps = {}
    for p in parts:
        dumps.update(p)
    ops, impl, model, refbad = [], [], [], []
    for u in units:
        start, toks = dumps[u["fn"]]
        pid, off, var = fns[u["fn"]]["probes"][u["probe"] - 1]
        facts = [f for f in size_facts(toks, start + 1 + off, var) if f[0] != "P"]
        observed = native[u["fn"]][1].get(pid)
        label = u["tag"] or "%s %s %s" % (u["ty"], "{}" if u["braces"] else "()", u["args"])
        res.count("ctor-kind:" + (u["kind"] or "extra"))
        if observed is None:
            res.oblig("ctor:probe-observed", False, "machinery", "no native output for " + label)
            return
        if not u["tag"]:
            known = [f for f in facts if f[0] == "K" and f[3] == "container-size"]
            ops.append("ctor %s %s %s #%s" % (u["kind"], "b" if u["braces"] else "p", u["args"], u["ty"]))
            impl.append(str(known[0][2]) if known else "-")
            model.append(u["model"])
            if observed != u["ref"]:
                refbad.append("%s: reference %d, g++ %d" % (label, u["ref"], observed))
        for f in facts:
            res.count("ctor-fact:%s%s" % (f[0], f[1]))
            if fact_holds(f, observed):
                res.traces_validated += 1
                continue
            key = EXTRA_KEYS.get(u["tag"]) if u["tag"] else ctor_key(u["kind"], u["braces"], u["args"], u["excluded"])
            desc = "%s %s%d (%s)" % ("Known" if f[0] == "K" else "Impossible", {"P": "", "U": "<=", "L": ">="}[f[1]], f[2], f[3])
            fn = fns[u["fn"]]
            res.violation("cppcheck reports %s for `%s` right after its construction (%s), but the program run has size %d there\n%s" %
                          (desc, var, label, observed, fn["text"]),
                          dict(kind="ctor", text=fn["text"], fn=fn["name"], probe=pid, var=var, fact=list(f), size=observed, form=label, key=key),
                          concrete=True, key=key)
    core.correspond(ctx, res, "ctor-known-size", ops, impl, model, nontrivial=lambda op, out: out != "-")
    res.oblig("spec:ctorRef-agrees-with-g++", not refbad, "validation", "; ".join(refbad[:5]))
    res.extra["ctor_forms"] = len(units)



def load_corpus():
    p = os.path.join(core.VERIF, "corpus", "C02", "cases.json")
    return json.load(open(p)) if os.path.exists(p) else {}


def run(ctx, res):
    import time
    thorough = ctx.tier == "thorough"
    phases, t0 = {}, [time.time()]
    def mark(name):
        phases[name] = round(time.time() - t0[0], 1)
        t0[0] = time.time()
    res.extra["phase_seconds"] = phases
    rows, meta, problems = translate(ctx)
    res.oblig("translate:std.cfg-containers", not problems, "translation", "; ".join(problems))
    got = ctor_shapes(open(os.path.join(core.REPO, "lib", "valueflow.cpp"), encoding="utf-8").read())
    diff = []
    for fn, want in CTOR_SHAPES.items():
        if got.get(fn) != want:
            g = got.get(fn) or []
            k = next((i for i in range(max(len(g), len(want))) if i >= len(g) or i >= len(want) or g[i] != want[i]), 0)
            diff.append("%s: item %d is `%s`, the model copies `%s`" % (fn, k, g[k] if k < len(g) else "<missing>", want[k] if k < len(want) else "<nothing>"))
    res.oblig("translate:constructor-size-functions-shape", not diff, "translation", "; ".join(diff))
    res.extra["table_rows"] = len(rows)
    mark("translator")
    core.prove(ctx, res, MODULES, THEOREMS)
    mark("lake build + axiom audit (incl. waiting for the shared lake lock)")
    drv = ctx.driver("drv_c02")
    exe = ctx.harness("c02")
    mark("driver + harness build")
    # ---- T: translator against the loader, enumerations against the model --------------------------------------------------------
    lt, why = loader_table(ctx, exe)
    if lt is None:
        res.oblig("table:loader", False, "machinery", why)
    else:
        diff = []
        for cid in sorted(set(lt) | set(meta)):
            a, b = lt.get(cid), meta.get(cid)
            if a is None or b is None:
                diff.append("%s only in %s" % (cid, "loader" if b is None else "translator"))
                continue
            if a["functions"] != b["functions"]:
                names = [n for n in sorted(set(a["functions"]) | set(b["functions"])) if a["functions"].get(n) != b["functions"].get(n)]
                diff.append("%s: %s loader %s translator %s" % (cid, names[0], a["functions"].get(names[0]), b["functions"].get(names[0])))
            if (a["startPattern"] or None) != (b["startPattern"] or None) and not (a["startPattern"] == "" and b["startPattern"] is None):
                diff.append("%s: startPattern %r vs %r" % (cid, a["startPattern"], b["startPattern"]))
        res.oblig("table:translator-equals-loader", not diff, "translation", "; ".join(diff[:5]))
        for (cid, name, a, y) in rows:
            res.case("row|%s|%s|%d|%d" % (cid, name, a, y), a != len(ACTIONS), None)
            res.count("action:" + ACTION_ENUM[a])
        res.traces_validated += len(rows) if not diff else 0
    ops = ["spell action " + s for s in ACTIONS + ["nonsense"]] + ["spell yield " + s for s in YIELDS + ["nonsense"]]
    rc, out, err = core.run_lines(drv, [], ops)
    want = [str(i) for i in range(len(ACTIONS))] + ["-"] + [str(i) for i in range(len(YIELDS))] + ["-"]
    res.oblig("table:model-enumerations-equal-loader-enumerations", out == want, "translation", "driver %s expected %s" % (out, want) if out != want else "")
    # the rows the model calls unsound, as the driver computes them (theorem cfg_actions_sound: none) - names the rows when the theorem breaks
    rc, snd, err = core.run_lines(drv, [], ["sound %s %s %d %d" % r for r in rows])
    unsound = ["%s.%s" % (r[0], r[1]) for r, s in zip(rows, snd) if s != "1"]
    res.extra["unsound_rows"] = unsound
    res.oblig("table:no-unsound-row", not unsound, "translation", "" if not unsound else "rows whose configured action does not contain the reference effect: %s" % ", ".join(unsound[:12]))
    mark("table checks")
    run_straight(ctx, res, drv, meta, 2500 if thorough else 600)
    mark("straight-line correspondence")
    run_ctor(ctx, res, drv)
    mark("constructor forms")
    if thorough:
        for _ in range(6):
            run_e2e(ctx, res, 300)
    else:
        run_e2e(ctx, res, 180)
    mark("end-to-end programs")


def replay(ctx, res, rp):
    if rp.get("kind") == "ctor":
        d = os.path.join(ctx.tmp, "r")
        os.makedirs(d, exist_ok=True)
        prelude = PRELUDE.replace("#include <array>\n", "#include <array>\n#include <unordered_set>\n#include <unordered_map>\n")
        path = os.path.join(d, "r.cpp")
        open(path, "w").write(prelude + rp["text"])
        if not run_cppcheck_dump(ctx, path):
            print("replay: no dump")
            return 2
        toks = parse_dump_values(path + ".dump")
        start = prelude.count("\n") + 1
        still = False
        for off, l in enumerate(rp["text"].split("\n")):
            if "P(%d, %s.size()" % (rp["probe"], rp["var"]) in l:
                still = any(list(f) == rp["fact"] for f in size_facts(toks, start + off, rp["var"]))
        print("replay: %s: fact %s %s reported; the program run has size %d" % (rp["form"], rp["fact"], "still" if still else "no longer", rp["size"]))
        print("replay: %s" % ("still fails" if still else "no longer fails"))
        return 1 if still else 0
    if rp.get("kind") == "e2e":
        d = os.path.join(ctx.tmp, "r")
        os.makedirs(d, exist_ok=True)
        text = PRELUDE + rp["text"].replace("@NAME@", "f0")
        path = os.path.join(d, "r.cpp")
        open(path, "w").write(text)
        if not run_cppcheck_dump(ctx, path):
            print("replay: no dump")
            return 2
        toks = parse_dump_values(path + ".dump")
        start = PRELUDE.count("\n") + 1
        still = False
        for off, l in enumerate(rp["text"].split("\n")):
            if "P(%d, %s.size()" % (rp["probe"], rp["var"]) in l:
                fs = size_facts(toks, start + off, rp["var"])
                still = any(list(f) == rp["fact"] for f in fs)
        print("replay: fact %s %s reported at probe %d; execution (%s) has size %d" % (rp["fact"], "still" if still else "no longer", rp["probe"], rp["args"], rp["size"]))
        print("replay: %s" % ("still fails" if still else "no longer fails"))
        return 1 if still else 0
    print("replay: unknown replay kind")
    return 2
